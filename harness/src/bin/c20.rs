//! C20 — the parser-combinator library `rusty_pc` vs its documented backtracking / error contract,
//! and vs the Lean model `RbModel.Pc`.
//!
//! A parser *expression* (`X`) is serialised as an S-expression.  From the same expression
//!  * `build` constructs the REAL combinator (every constructor maps to the public `rusty_pc` API),
//!  * the Lean driver interprets the model (`pc.run` / `pc.runall`),
//!  * `spec` is the documented contract of the top-level combinator, one level deep, evaluated over the
//!    REAL results of its sub-parsers run separately (choice = first success from the original position,
//!    repetition = maximal run, soft failure restores, fatal is never downgraded, ...).
//! Compared: `(result, InputTrait::get_position() afterwards)`.

use std::cell::Cell;
use std::panic::{AssertUnwindSafe, catch_unwind};

use rb_harness::driver::ask;
use rb_harness::json::J;
use rb_harness::report::{Failure, Kind, Report};
use rb_harness::rng::Rng;
use std::rc::Rc;

use rusty_pc::and::{
    IgnoringBothCombiner, KeepLeftCombiner, KeepRightCombiner, StringCombiner, TupleCombiner, VecCombiner,
};
use rusty_pc::boxed::BoxedParser;
use rusty_pc::many::{IgnoringManyCombiner, StringManyCombiner, VecManyCombiner};
use rusty_pc::many_ctx::ManyCtxParser;
use rusty_pc::text::{many_str, many_str_with_combiner, one_char_to_str};
use rusty_pc::*;

// ------------------------------------------------------------------------------------------------
// the test instantiation of the library: input, error, value
// ------------------------------------------------------------------------------------------------

thread_local! {
    static TICKS: Cell<u64> = const { Cell::new(0) };
    static MAX_TICKS: Cell<u64> = const { Cell::new(0) };
    static DEPTH: Cell<u32> = const { Cell::new(0) };
    static MAX_DEPTH_SEEN: Cell<u32> = const { Cell::new(0) };
}
/// nesting bound of `lazy` descents: a run that ends never has the same (table entry, position) twice on its
/// descent path, so it nests at most `entries * (len + 1)` (<= 3 * 7) of them; more is unbounded recursion
const DEPTH_BUDGET: u32 = 64;
const TICK_BUDGET: u64 = 4_000;
const HANG_MSG: &str = "c20-step-budget-exhausted";

/// Every touch of the input (and every call of a supplier closure) counts one step; a run that exceeds
/// the budget is the observable form of "the real `loop` never ends".
fn tick() {
    TICKS.with(|t| {
        let n = t.get() + 1;
        t.set(n);
        if n > TICK_BUDGET {
            panic!("{}", HANG_MSG);
        }
    })
}

/// counts `n` steps at once (used where a loop round handles a value of size `n`, so that a value that
/// doubles every round exhausts the budget instead of the memory)
fn tick_by(n: u64) {
    TICKS.with(|t| {
        let m = t.get() + n;
        t.set(m);
        if m > TICK_BUDGET {
            panic!("{}", HANG_MSG);
        }
    })
}

struct In {
    data: Vec<char>,
    pos: usize,
}

impl InputTrait for In {
    type Output = char;
    fn peek(&self) -> char {
        tick();
        self.data.get(self.pos).copied().unwrap_or('\0')
    }
    fn read(&mut self) -> char {
        tick();
        match self.data.get(self.pos) {
            Some(c) => {
                self.pos += 1;
                *c
            }
            None => '\0',
        }
    }
    fn get_position(&self) -> usize {
        tick();
        self.pos
    }
    fn is_eof(&self) -> bool {
        tick();
        self.pos >= self.data.len()
    }
    fn set_position(&mut self, position: usize) {
        tick();
        self.pos = position;
    }
}

#[derive(Clone, Debug, PartialEq, Default)]
struct E {
    code: u8,
    fatal: bool,
}

impl ParserErrorTrait for E {
    fn is_fatal(&self) -> bool {
        self.fatal
    }
    fn to_fatal(self) -> Self {
        E { code: self.code, fatal: true }
    }
}

#[derive(Clone, Debug, PartialEq)]
enum V {
    Unit,
    Sym(u8),
    Pair(Box<V>, Box<V>),
    List(Vec<V>),
    None,
    Some(Box<V>),
    Str(String),
    Tok(u8, String),
    Num(u8),
}

impl Default for V {
    fn default() -> V {
        V::List(vec![])
    }
}

fn val_str(v: &V, out: &mut String) {
    match v {
        V::Unit => out.push('u'),
        V::Sym(n) => out.push_str(&format!("(s {})", n)),
        V::Pair(a, b) => {
            out.push_str("(p ");
            val_str(a, out);
            out.push(' ');
            val_str(b, out);
            out.push(')');
        }
        V::List(l) => {
            for x in l {
                out.push_str("(c ");
                val_str(x, out);
                out.push(' ');
            }
            out.push('n');
            for _ in l {
                out.push(')');
            }
        }
        V::None => out.push_str("none"),
        V::Some(x) => {
            out.push_str("(some ");
            val_str(x, out);
            out.push(')');
        }
        V::Str(s) => {
            out.push_str("(str");
            for c in s.chars() {
                out.push_str(&format!(" {}", (c as u8).wrapping_sub(b'a')));
            }
            out.push(')');
        }
        V::Tok(k, s) => {
            out.push_str(&format!("(tok {}", k));
            for c in s.chars() {
                out.push_str(&format!(" {}", (c as u8).wrapping_sub(b'a')));
            }
            out.push(')');
        }
        V::Num(n) => out.push_str(&format!("(num {})", n)),
    }
}

// projections of the one value type onto the argument types of the typed combiners (`RbModel.Pc.Val.as*`)
fn as_char(v: &V) -> char {
    match v {
        V::Sym(k) => chr(*k),
        _ => 'z',
    }
}
fn as_str(v: &V) -> String {
    match v {
        V::Str(s) => s.clone(),
        V::Sym(k) => chr(*k).to_string(),
        V::Tok(_, t) => t.clone(),
        _ => String::new(),
    }
}
fn as_text(v: &V) -> String {
    let s = as_str(v);
    if s.is_empty() { "z".to_string() } else { s }
}
fn as_opt_str(v: &V) -> Option<String> {
    match v {
        V::None => None,
        V::Some(x) => Some(as_str(x)),
        x => Some(as_str(x)),
    }
}
fn as_opt_char(v: &V) -> Option<char> {
    match v {
        V::None => None,
        V::Some(x) => Some(as_char(x)),
        x => Some(as_char(x)),
    }
}
fn as_list(v: &V) -> Vec<V> {
    match v {
        V::List(l) => l.clone(),
        x => vec![x.clone()],
    }
}
fn as_char_vec(v: &V) -> Vec<char> {
    as_list(v).iter().map(as_char).collect()
}
fn as_tok(v: &V) -> Token {
    match v {
        V::Tok(k, t) => Token::new(*k, t.clone()),
        x => Token::new(0, as_text(x)),
    }
}

fn vsize(v: &V) -> u64 {
    match v {
        V::Unit | V::Sym(_) | V::None | V::Num(_) => 1,
        V::Str(s) | V::Tok(_, s) => 1 + s.len() as u64,
        V::Pair(a, b) => 1 + vsize(a) + vsize(b),
        V::List(l) => 1 + l.iter().map(vsize).sum::<u64>(),
        V::Some(x) => 1 + vsize(x),
    }
}

fn sym(c: char) -> V {
    V::Sym((c as u8).wrapping_sub(b'a'))
}
fn chr(k: u8) -> char {
    (b'a' + k) as char
}

/// observable outcome of one `parse` call
#[derive(Clone, Debug, PartialEq)]
enum O {
    Ok(V, usize),
    Soft(u8, usize),
    Fatal(u8, usize),
    Hang,
    Panic(String),
}

impl O {
    fn canon(&self) -> String {
        match self {
            O::Ok(v, q) => {
                let mut s = String::from("(ok ");
                val_str(v, &mut s);
                s.push_str(&format!(" {})", q));
                s
            }
            O::Soft(e, q) => format!("(soft {} {})", e, q),
            O::Fatal(e, q) => format!("(fatal {} {})", e, q),
            O::Hang => "hang".into(),
            O::Panic(m) => format!("(panic {})", m),
        }
    }
    fn kind(&self) -> &'static str {
        match self {
            O::Ok(..) => "ok",
            O::Soft(..) => "soft",
            O::Fatal(..) => "fatal",
            O::Hang => "hang",
            O::Panic(_) => "panic",
        }
    }
}

// ------------------------------------------------------------------------------------------------
// parser expressions
// ------------------------------------------------------------------------------------------------

#[derive(Clone, Copy, Debug, PartialEq)]
enum Cmb {
    Tuple,
    Left,
    Right,
    Ignore,
    Swap,
    Vec2,
    VecCat,
    StrCat,
    OptStrCat,
    Chars,
    CharOpt,
    CharVec,
}
const ALL_CMB: [Cmb; 12] = [
    Cmb::Tuple,
    Cmb::Left,
    Cmb::Right,
    Cmb::Ignore,
    Cmb::Swap,
    Cmb::Vec2,
    Cmb::VecCat,
    Cmb::StrCat,
    Cmb::OptStrCat,
    Cmb::Chars,
    Cmb::CharOpt,
    Cmb::CharVec,
];
#[derive(Clone, Copy, Debug, PartialEq)]
enum MCmb {
    Vec,
    Str,
    TokStr,
    Ignore,
}
fn mcmb_s(m: MCmb) -> &'static str {
    match m {
        MCmb::Vec => "vec",
        MCmb::Str => "str",
        MCmb::TokStr => "tokStr",
        MCmb::Ignore => "ignore",
    }
}
#[derive(Clone, Debug, PartialEq)]
enum Pred {
    Eq(u8),
    Ne(u8),
}
#[derive(Clone, Copy, Debug, PartialEq)]
enum MapFn {
    Unit,
    Wrap,
    Dup,
    CharStr,
    MkTok(u8),
    TokKind,
    TokText,
    TokChar,
    TokShow,
}
const ALL_MAPFN: [MapFn; 9] = [
    MapFn::Unit,
    MapFn::Wrap,
    MapFn::Dup,
    MapFn::CharStr,
    MapFn::MkTok(7),
    MapFn::TokKind,
    MapFn::TokText,
    MapFn::TokChar,
    MapFn::TokShow,
];
fn mapfn_s(f: MapFn) -> String {
    match f {
        MapFn::Unit => "unit".into(),
        MapFn::Wrap => "wrap".into(),
        MapFn::Dup => "dup".into(),
        MapFn::CharStr => "charStr".into(),
        MapFn::MkTok(k) => format!("(mkTok {})", k),
        MapFn::TokKind => "tokKind".into(),
        MapFn::TokText => "tokText".into(),
        MapFn::TokChar => "tokChar".into(),
        MapFn::TokShow => "tokShow".into(),
    }
}
#[derive(Clone, Copy, Debug, PartialEq)]
enum ErrFn {
    Recover,
    RecoverIf(u8),
    Replace(u8, bool),
}

#[derive(Clone, Debug, PartialEq)]
enum X {
    Any,
    PeekAny,
    One(u8),
    OneOf(u8), // bit set over the three symbols
    FailSoft(u8),
    FailFatal(u8),
    EatSoft,
    Pure,
    ManyStr(u8),
    OneStr(u8),              // text/strings.rs one_char_to_str
    ManyStrWith(MCmb, u8),   // text/strings.rs many_str_with_combiner (not typable with TokStr)
    ManyC(MCmb, bool, Box<X>), // many / many_allow_none with a many-combiner
    And(Cmb, Box<X>, Box<X>),
    Or2(Box<X>, Box<X>),
    Or3(Box<X>, Box<X>, Box<X>),
    OrNoBox(Box<X>, Box<X>),
    Many(bool, Box<X>),
    ManyCtx(bool, Box<X>),
    Filter(Pred, Box<X>),
    FilterMap(u8, Box<X>),
    Peek(Box<X>),
    ToOption(Box<X>),
    OrDefault(Box<X>),
    Surround(bool, Box<X>, Box<X>, Box<X>),
    Delimited(bool, u8, Box<X>, Box<X>),
    Seq(Vec<X>), // 2..=6 elements
    ThenWith(Cmb, Box<X>, Box<X>),
    AndThen(u8, u8, bool, Box<X>),
    AndThenErr(ErrFn, Box<X>),
    Map(MapFn, Box<X>),
    ToFatal(Box<X>),
    WithSoftErr(u8, bool, Box<X>),
    MapFatalErr(u8, Box<X>),
    Flatten(Box<X>, Box<X>),
    Lazy(Box<X>),
    Iif(bool, Box<X>, Box<X>),
}

fn tf(b: bool) -> &'static str {
    if b { "t" } else { "f" }
}
fn cmb_s(c: Cmb) -> &'static str {
    match c {
        Cmb::Tuple => "tuple",
        Cmb::Left => "left",
        Cmb::Right => "right",
        Cmb::Ignore => "ignore",
        Cmb::Swap => "swap",
        Cmb::Vec2 => "vec2",
        Cmb::VecCat => "vecCat",
        Cmb::StrCat => "strCat",
        Cmb::OptStrCat => "optStrCat",
        Cmb::Chars => "chars",
        Cmb::CharOpt => "charOpt",
        Cmb::CharVec => "charVec",
    }
}
fn set_syms(bits: u8) -> Vec<u8> {
    (0..3u8).filter(|k| bits & (1 << k) != 0).collect()
}

impl X {
    fn name(&self) -> &'static str {
        match self {
            X::Any => "any",
            X::PeekAny => "peekAny",
            X::One(_) => "one",
            X::OneOf(_) => "oneOf",
            X::FailSoft(_) => "failSoft",
            X::FailFatal(_) => "failFatal",
            X::EatSoft => "eatSoft",
            X::Pure => "pure",
            X::ManyStr(_) => "manyStr",
            X::OneStr(_) => "oneStr",
            X::ManyStrWith(..) => "manyStrWith",
            X::ManyC(..) => "manyC",
            X::And(..) => "and",
            X::Or2(..) => "or2",
            X::Or3(..) => "or3",
            X::OrNoBox(..) => "orNoBox",
            X::Many(..) => "many",
            X::ManyCtx(..) => "manyCtx",
            X::Filter(..) => "filter",
            X::FilterMap(..) => "filterMap",
            X::Peek(_) => "peek",
            X::ToOption(_) => "toOption",
            X::OrDefault(_) => "orDefault",
            X::Surround(..) => "surround",
            X::Delimited(..) => "delimited",
            X::Seq(_) => "seq",
            X::ThenWith(..) => "thenWith",
            X::AndThen(..) => "andThen",
            X::AndThenErr(..) => "andThenErr",
            X::Map(..) => "map",
            X::ToFatal(_) => "toFatal",
            X::WithSoftErr(..) => "withSoftErr",
            X::MapFatalErr(..) => "mapFatalErr",
            X::Flatten(..) => "flatten",
            X::Lazy(_) => "lazy",
            X::Iif(..) => "iif",
        }
    }

    fn sx(&self) -> String {
        match self {
            X::Any => "any".into(),
            X::PeekAny => "peekAny".into(),
            X::One(k) => format!("(one {})", k),
            X::OneOf(b) => format!(
                "(oneOf ({}))",
                set_syms(*b).iter().map(|k| k.to_string()).collect::<Vec<_>>().join(" ")
            ),
            X::FailSoft(c) => format!("(failSoft {})", c),
            X::FailFatal(c) => format!("(failFatal {})", c),
            X::EatSoft => "eatSoft".into(),
            X::Pure => "pure".into(),
            X::ManyStr(k) => format!("(manyStr {})", k),
            X::OneStr(k) => format!("(oneStr {})", k),
            X::ManyStrWith(m, k) => format!("(manyStrWith {} {})", mcmb_s(*m), k),
            X::ManyC(m, an, e) => format!("(manyC {} {} {})", mcmb_s(*m), tf(*an), e.sx()),
            X::And(c, l, r) => format!("(and {} {} {})", cmb_s(*c), l.sx(), r.sx()),
            X::Or2(a, b) => format!("(or2 {} {})", a.sx(), b.sx()),
            X::Or3(a, b, c) => format!("(or3 {} {} {})", a.sx(), b.sx(), c.sx()),
            X::OrNoBox(a, b) => format!("(orNoBox {} {})", a.sx(), b.sx()),
            X::Many(an, e) => format!("(many {} {})", tf(*an), e.sx()),
            X::ManyCtx(an, e) => format!("(manyCtx {} {})", tf(*an), e.sx()),
            X::Filter(p, e) => match p {
                Pred::Eq(k) => format!("(filter (eq {}) {})", k, e.sx()),
                Pred::Ne(k) => format!("(filter (ne {}) {})", k, e.sx()),
            },
            X::FilterMap(k, e) => format!("(filterMap {} {})", k, e.sx()),
            X::Peek(e) => format!("(peek {})", e.sx()),
            X::ToOption(e) => format!("(toOption {})", e.sx()),
            X::OrDefault(e) => format!("(orDefault {})", e.sx()),
            X::Surround(md, l, m, r) => format!("(surround {} {} {} {})", tf(*md), l.sx(), m.sx(), r.sx()),
            X::Delimited(am, te, e, d) => format!("(delimited {} {} {} {})", tf(*am), te, e.sx(), d.sx()),
            X::Seq(v) => format!(
                "(seq{} {})",
                v.len(),
                v.iter().map(|e| e.sx()).collect::<Vec<_>>().join(" ")
            ),
            X::ThenWith(c, l, r) => format!("(thenWith {} {} {})", cmb_s(*c), l.sx(), r.sx()),
            X::AndThen(k, c, f, e) => format!("(andThen {} {} {} {})", k, c, tf(*f), e.sx()),
            X::AndThenErr(m, e) => match m {
                ErrFn::Recover => format!("(andThenErr recover {})", e.sx()),
                ErrFn::RecoverIf(k) => format!("(andThenErr (recoverIf {}) {})", k, e.sx()),
                ErrFn::Replace(c, f) => format!("(andThenErr (replace {} {}) {})", c, tf(*f), e.sx()),
            },
            X::Map(f, e) => format!("(map {} {})", mapfn_s(*f), e.sx()),
            X::ToFatal(e) => format!("(toFatal {})", e.sx()),
            X::WithSoftErr(c, f, e) => format!("(withSoftErr {} {} {})", c, tf(*f), e.sx()),
            X::MapFatalErr(c, e) => format!("(mapFatalErr {} {})", c, e.sx()),
            X::Flatten(p, q) => format!("(flatten {} {})", p.sx(), q.sx()),
            X::Lazy(e) => format!("(lazy {})", e.sx()),
            X::Iif(b, l, r) => format!("(iif {} {} {})", tf(*b), l.sx(), r.sx()),
        }
    }

    fn children(&self) -> Vec<&X> {
        match self {
            X::Any | X::PeekAny | X::One(_) | X::OneOf(_) | X::FailSoft(_) | X::FailFatal(_) | X::EatSoft | X::Pure
            | X::ManyStr(_) | X::OneStr(_) | X::ManyStrWith(..) => vec![],
            X::And(_, a, b) | X::Or2(a, b) | X::OrNoBox(a, b) | X::Delimited(_, _, a, b) | X::ThenWith(_, a, b)
            | X::Flatten(a, b) | X::Iif(_, a, b) => vec![a, b],
            X::Or3(a, b, c) | X::Surround(_, a, b, c) => vec![a, b, c],
            X::Many(_, e) | X::ManyC(_, _, e) | X::ManyCtx(_, e) | X::Filter(_, e) | X::FilterMap(_, e) | X::Peek(e)
            | X::ToOption(e) | X::OrDefault(e) | X::AndThen(_, _, _, e) | X::AndThenErr(_, e) | X::Map(_, e) | X::ToFatal(e)
            | X::WithSoftErr(_, _, e) | X::MapFatalErr(_, e) | X::Lazy(e) => vec![e],
            X::Seq(v) => v.iter().collect(),
        }
    }

    /// mirrors `RbThm.C20.leavesWB`: the side condition of theorem `run_wb`
    fn leaves_wb(&self) -> bool {
        match self {
            X::EatSoft | X::Flatten(..) => false,
            X::AndThen(_, _, fatal, e) => *fatal && e.leaves_wb(),
            _ => self.children().iter().all(|c| c.leaves_wb()),
        }
    }

    fn depth(&self) -> usize {
        1 + self.children().iter().map(|c| c.depth()).max().unwrap_or(0)
    }
}

// ------------------------------------------------------------------------------------------------
// building the REAL parser
// ------------------------------------------------------------------------------------------------

type BP = BoxedParser<In, (), V, E>;

fn bx(p: impl Parser<In, (), Output = V, Error = E> + 'static) -> BP {
    p.boxed()
}
fn bx_list(p: impl Parser<In, (), Output = Vec<V>, Error = E> + 'static) -> BP {
    p.map(V::List).boxed()
}
fn bx_pair(p: impl Parser<In, (), Output = (V, V), Error = E> + 'static) -> BP {
    p.map(|(a, b)| V::Pair(Box::new(a), Box::new(b))).boxed()
}
fn bx_str(p: impl Parser<In, (), Output = String, Error = E> + 'static) -> BP {
    p.map(V::Str).boxed()
}
fn bx_unit(p: impl Parser<In, (), Output = (), Error = E> + 'static) -> BP {
    p.map(|()| V::Unit).boxed()
}

/// `$go!(left, right, combiner, O)` builds the real two-sided combinator with a combiner producing `O`; every
/// combiner struct of `and.rs` is instantiated at its own argument types (the sides are projected first)
macro_rules! with_cmb {
    ($c:expr, $l:expr, $r:expr, $go:ident) => {
        match $c {
            Cmb::Tuple => bx_pair($go!($l, $r, TupleCombiner, (V, V))),
            Cmb::Left => bx($go!($l, $r, KeepLeftCombiner, V)),
            Cmb::Right => bx($go!($l, $r, KeepRightCombiner, V)),
            Cmb::Ignore => bx_unit($go!($l, $r, IgnoringBothCombiner, ())),
            Cmb::Swap => bx($go!($l, $r, |a: V, b: V| V::Pair(Box::new(b), Box::new(a)), V)),
            Cmb::Vec2 => bx_list($go!($l, $r, VecCombiner, Vec<V>)),
            Cmb::VecCat => {
                bx_list($go!($l.map(|v: V| as_list(&v)), $r.map(|v: V| as_list(&v)), VecCombiner, Vec<V>))
            }
            Cmb::StrCat => {
                bx_str($go!($l.map(|v: V| as_str(&v)), $r.map(|v: V| as_str(&v)), StringCombiner, String))
            }
            Cmb::OptStrCat => {
                bx_str($go!($l.map(|v: V| as_opt_str(&v)), $r.map(|v: V| as_str(&v)), StringCombiner, String))
            }
            Cmb::Chars => {
                bx_str($go!($l.map(|v: V| as_char(&v)), $r.map(|v: V| as_char(&v)), StringCombiner, String))
            }
            Cmb::CharOpt => {
                bx_str($go!($l.map(|v: V| as_char(&v)), $r.map(|v: V| as_opt_char(&v)), StringCombiner, String))
            }
            Cmb::CharVec => {
                bx_str($go!($l.map(|v: V| as_char(&v)), $r.map(|v: V| as_char_vec(&v)), StringCombiner, String))
            }
        }
    };
}
macro_rules! go_and {
    ($l:expr, $r:expr, $cmb:expr, $o:ty) => {
        $l.and::<_, _, $o>($r, $cmb)
    };
}
macro_rules! go_then_with {
    ($l:expr, $r:expr, $cmb:expr, $o:ty) => {
        $l.then_with_in_context::<_, _, $o>($r.no_context(), $cmb)
    };
}

fn build_map(f: MapFn, p: BP) -> BP {
    match f {
        MapFn::Unit => bx(p.map_to_unit().map(|()| V::Unit)),
        MapFn::Wrap => bx(p.map(|v| V::Some(Box::new(v)))),
        MapFn::Dup => bx(p.map(|v: V| V::Pair(Box::new(v.clone()), Box::new(v)))),
        // the mapper of `one_char_to_str`
        MapFn::CharStr => bx_str(p.map(|v: V| as_char(&v)).map(String::from)),
        MapFn::MkTok(k) => {
            bx(p.map(move |v: V| Token::new(k, as_text(&v))).map(|t: Token| V::Tok(t.kind(), t.to_text())))
        }
        MapFn::TokKind => bx(p.map(|v: V| V::Num(as_tok(&v).kind()))),
        MapFn::TokText => bx(p.map(|v: V| V::Str(as_tok(&v).as_str().to_string()))),
        MapFn::TokChar => bx(p.map(|v: V| match as_tok(&v).try_as_single_char() {
            Some(c) => V::Some(Box::new(sym(c))),
            None => V::None,
        })),
        MapFn::TokShow => bx(p.map(|v: V| V::Str(as_tok(&v).to_string()))),
    }
}

/// `many` / `many_allow_none` with each many-combiner struct of `many.rs` at its own element type
fn build_many_c(m: MCmb, an: bool, p: BP) -> BP {
    match (m, an) {
        (MCmb::Vec, false) => bx_list(p.many(VecManyCombiner)),
        (MCmb::Vec, true) => bx_list(p.many_allow_none(VecManyCombiner)),
        (MCmb::Str, false) => bx_str(p.map(|v: V| as_char(&v)).many(StringManyCombiner)),
        (MCmb::Str, true) => bx_str(p.map(|v: V| as_char(&v)).many_allow_none(StringManyCombiner)),
        (MCmb::TokStr, false) => bx_str(p.map(|v: V| as_tok(&v)).many(StringManyCombiner)),
        (MCmb::TokStr, true) => bx_str(p.map(|v: V| as_tok(&v)).many_allow_none(StringManyCombiner)),
        (MCmb::Ignore, false) => bx_unit(p.many(IgnoringManyCombiner)),
        (MCmb::Ignore, true) => bx_unit(p.many_allow_none(IgnoringManyCombiner)),
    }
}

/// harness-only leaf, ill-behaved on purpose: consumes one element, then fails softly without rewinding
struct EatSoft;
impl Parser<In, ()> for EatSoft {
    type Output = V;
    type Error = E;
    fn parse(&mut self, input: &mut In) -> Result<V, E> {
        if !input.is_eof() {
            input.read();
        }
        Err(E { code: 7, fatal: false })
    }
    fn set_context(&mut self, _ctx: &()) {}
}

static SETS: [&[char]; 8] = [
    &[],
    &['a'],
    &['b'],
    &['a', 'b'],
    &['c'],
    &['a', 'c'],
    &['b', 'c'],
    &['a', 'b', 'c'],
];

fn build(x: &X) -> BP {
    match x {
        X::Any => bx(read_p::<In, E>().map(sym)),
        X::PeekAny => bx(peek_p::<In, E>().map(sym)),
        X::One(k) => bx(one_p::<In, char, E>(chr(*k)).map(sym)),
        X::OneOf(bits) => bx(one_of_p::<In, char, E>(SETS[(*bits & 7) as usize]).map(sym)),
        X::FailSoft(c) => {
            let c = *c;
            bx(err_supplier::<In, (), _, V, E>(move || {
                tick();
                E { code: c, fatal: false }
            }))
        }
        X::FailFatal(c) => {
            let c = *c;
            bx(err_supplier::<In, (), _, V, E>(move || {
                tick();
                E { code: c, fatal: true }
            }))
        }
        X::EatSoft => bx(EatSoft),
        X::Pure => bx(supplier::<In, (), _, V, E>(|| {
            tick();
            V::Unit
        })),
        X::ManyStr(k) => {
            let ch = chr(*k);
            bx(many_str::<In, E, _>(move |c: &char| *c == ch).map(|s: String| V::List(s.chars().map(sym).collect())))
        }
        X::OneStr(k) => bx_str(one_char_to_str::<In, E>(chr(*k))),
        X::ManyStrWith(m, k) => {
            let ch = chr(*k);
            let pred = move |c: &char| *c == ch;
            match m {
                MCmb::Str => bx_str(many_str_with_combiner::<In, String, E, _, _>(pred, StringManyCombiner)),
                MCmb::Vec => bx(many_str_with_combiner::<In, Vec<char>, E, _, _>(pred, VecManyCombiner)
                    .map(|l: Vec<char>| V::List(l.into_iter().map(sym).collect()))),
                MCmb::Ignore => bx_unit(many_str_with_combiner::<In, (), E, _, _>(pred, IgnoringManyCombiner)),
                MCmb::TokStr => panic!("many_str_with_combiner over tokens is not typable"),
            }
        }
        X::ManyC(m, an, e) => build_many_c(*m, *an, build(e)),
        X::And(c, l, r) => match c {
            // the three named methods of the trait
            Cmb::Tuple => bx_pair(build(l).and_tuple(build(r))),
            Cmb::Left => bx(build(l).and_keep_left(build(r))),
            Cmb::Right => bx(build(l).and_keep_right(build(r))),
            other => with_cmb!(other, build(l), build(r), go_and),
        },
        X::Or2(a, b) => bx(OrParser::new(vec![Box::new(build(a)), Box::new(build(b))])),
        X::Or3(a, b, c) => bx(OrParser::new(vec![Box::new(build(a)), Box::new(build(b)), Box::new(build(c))])),
        X::OrNoBox(a, b) => bx(build(a).or(build(b))),
        X::Many(an, e) => {
            if *an {
                bx_list(build(e).zero_or_more())
            } else {
                bx_list(build(e).one_or_more())
            }
        }
        X::ManyCtx(an, e) => bx_list(ManyCtxParser::new::<In>(
            build(e).no_context::<V>(),
            VecManyCombiner,
            |v: &V| v.clone(),
            *an,
        )),
        X::Filter(p, e) => {
            let p = p.clone();
            bx(build(e).filter(move |v: &V| match p {
                Pred::Eq(k) => *v == V::Sym(k),
                Pred::Ne(k) => *v != V::Sym(k),
            }))
        }
        X::FilterMap(k, e) => {
            let k = *k;
            bx(build(e).filter_map(move |v: &V| {
                if *v == V::Sym(k) {
                    Some(V::Pair(Box::new(v.clone()), Box::new(v.clone())))
                } else {
                    None
                }
            }))
        }
        X::Peek(e) => bx(build(e).peek()),
        X::ToOption(e) => bx(build(e).to_option().map(|o| match o {
            Some(v) => V::Some(Box::new(v)),
            None => V::None,
        })),
        X::OrDefault(e) => bx(build(e).or_default()),
        X::Surround(md, l, m, r) => bx(surround(
            build(l),
            build(m),
            build(r),
            if *md { SurroundMode::Mandatory } else { SurroundMode::Optional },
        )),
        X::Delimited(am, te, e, d) => {
            let te = E { code: *te, fatal: true };
            if *am {
                bx(build(e).delimited_by_allow_missing(build(d), te).map(|l: Vec<Option<V>>| {
                    V::List(
                        l.into_iter()
                            .map(|o| match o {
                                Some(v) => V::Some(Box::new(v)),
                                None => V::None,
                            })
                            .collect(),
                    )
                }))
            } else {
                bx_list(build(e).delimited_by(build(d), te))
            }
        }
        X::Seq(v) => match v.len() {
            2 => bx(seq2(build(&v[0]), build(&v[1]), |a, b| V::List(vec![a, b]))),
            3 => bx(seq3(build(&v[0]), build(&v[1]), build(&v[2]), |a, b, c| V::List(vec![a, b, c]))),
            4 => bx(seq4(build(&v[0]), build(&v[1]), build(&v[2]), build(&v[3]), |a, b, c, d| {
                V::List(vec![a, b, c, d])
            })),
            5 => bx(seq5(
                build(&v[0]),
                build(&v[1]),
                build(&v[2]),
                build(&v[3]),
                build(&v[4]),
                |a, b, c, d, e| V::List(vec![a, b, c, d, e]),
            )),
            6 => bx(seq6(
                build(&v[0]),
                build(&v[1]),
                build(&v[2]),
                build(&v[3]),
                build(&v[4]),
                build(&v[5]),
                |a, b, c, d, e, f| V::List(vec![a, b, c, d, e, f]),
            )),
            _ => panic!("seq arity"),
        },
        X::ThenWith(c, l, r) => with_cmb!(*c, build(l), build(r), go_then_with),
        X::AndThen(keep, code, fatal, e) => {
            let (keep, code, fatal) = (*keep, *code, *fatal);
            bx(build(e).and_then(move |v: V| if v == V::Sym(keep) { Ok(v) } else { Err(E { code, fatal }) }))
        }
        X::AndThenErr(m, e) => {
            let m = *m;
            bx(build(e).and_then_err(move |err: E| match m {
                ErrFn::Recover => Ok(V::Unit),
                ErrFn::RecoverIf(k) => {
                    if err.code == k {
                        Ok(V::Unit)
                    } else {
                        Err(err)
                    }
                }
                ErrFn::Replace(c, f) => Err(E { code: c, fatal: f }),
            }))
        }
        X::Map(f, e) => build_map(*f, build(e)),
        X::ToFatal(e) => bx(build(e).to_fatal()),
        X::WithSoftErr(c, f, e) => {
            if *f {
                bx(build(e).or_fail(E { code: *c, fatal: true }))
            } else {
                bx(build(e).with_soft_err(E { code: *c, fatal: false }))
            }
        }
        X::MapFatalErr(c, e) => bx(build(e).map_fatal_err(E { code: *c, fatal: true })),
        X::Flatten(p, q) => {
            let q: X = (**q).clone();
            bx(build(p).map(move |_| build(&q)).flatten::<()>())
        }
        X::Lazy(e) => {
            let e: X = (**e).clone();
            bx(lazy(move || build(&e)))
        }
        X::Iif(b, l, r) => {
            let mut p = IifCtxParser::new::<In>(build(l), build(r));
            Parser::<In, bool>::set_context(&mut p, b);
            bx(p.no_context::<()>())
        }
    }
}

/// runs the real parser from `start`; a panic is a result
fn run_real(p: &mut BP, data: &[u8], start: usize) -> O {
    let mut input = In { data: data.iter().map(|k| chr(*k)).collect(), pos: start };
    TICKS.with(|t| t.set(0));
    DEPTH.with(|d| d.set(0));
    let r = catch_unwind(AssertUnwindSafe(|| p.parse(&mut input)));
    if r.is_ok() {
        let n = TICKS.with(|t| t.get());
        MAX_TICKS.with(|m| m.set(m.get().max(n)));
    }
    match r {
        Ok(Ok(v)) => O::Ok(v, input.pos),
        Ok(Err(e)) => {
            if e.fatal {
                O::Fatal(e.code, input.pos)
            } else {
                O::Soft(e.code, input.pos)
            }
        }
        Err(payload) => {
            let msg = payload
                .downcast_ref::<String>()
                .cloned()
                .or_else(|| payload.downcast_ref::<&str>().map(|s| s.to_string()))
                .unwrap_or_else(|| "?".into());
            if msg == HANG_MSG { O::Hang } else { O::Panic(msg.replace(['(', ')', ' '], "_")) }
        }
    }
}

// ------------------------------------------------------------------------------------------------
// the documented contract of the top-level combinator over the REAL results of its sub-parsers
// ------------------------------------------------------------------------------------------------

fn some(v: V) -> V {
    V::Some(Box::new(v))
}
fn pair(a: V, b: V) -> V {
    V::Pair(Box::new(a), Box::new(b))
}
/// what the doc comments of the combiner structs say (a second, independent rendering; the model is the third)
fn comb(c: Cmb, a: V, b: V) -> V {
    let chars_of = |v: &V| -> String { as_list(v).iter().map(as_char).collect() };
    match c {
        Cmb::Tuple => pair(a, b),
        Cmb::Left => a,
        Cmb::Right => b,
        Cmb::Ignore => V::Unit,
        Cmb::Swap => pair(b, a),
        Cmb::Vec2 => V::List(vec![a, b]),
        Cmb::VecCat => V::List(as_list(&a).into_iter().chain(as_list(&b)).collect()),
        Cmb::StrCat => V::Str(format!("{}{}", as_str(&a), as_str(&b))),
        Cmb::OptStrCat => V::Str(format!("{}{}", as_opt_str(&a).unwrap_or_default(), as_str(&b))),
        Cmb::Chars => V::Str(format!("{}{}", as_char(&a), as_char(&b))),
        Cmb::CharOpt => {
            V::Str(format!("{}{}", as_char(&a), as_opt_char(&b).map(|c| c.to_string()).unwrap_or_default()))
        }
        Cmb::CharVec => V::Str(format!("{}{}", as_char(&a), chars_of(&b))),
    }
}
fn text_of_tok(v: &V) -> (u8, String) {
    match v {
        V::Tok(k, t) => (*k, t.clone()),
        x => (0, as_text(x)),
    }
}
fn mapfn_ref(f: MapFn, v: V) -> V {
    match f {
        MapFn::Unit => V::Unit,
        MapFn::Wrap => some(v),
        MapFn::Dup => pair(v.clone(), v),
        MapFn::CharStr => V::Str(as_char(&v).to_string()),
        MapFn::MkTok(k) => V::Tok(k, as_text(&v)),
        MapFn::TokKind => V::Num(text_of_tok(&v).0),
        MapFn::TokText | MapFn::TokShow => V::Str(text_of_tok(&v).1),
        MapFn::TokChar => {
            let t = text_of_tok(&v).1;
            let mut it = t.chars();
            match (it.next(), it.next()) {
                (Some(c), None) => some(sym(c)),
                _ => V::None,
            }
        }
    }
}
/// the result of a repetition that collected `vals` (empty: `O::default()`)
fn mfold_ref(m: MCmb, vals: Vec<V>) -> V {
    match m {
        MCmb::Vec => V::List(vals),
        MCmb::Str => V::Str(vals.iter().map(as_char).collect()),
        MCmb::TokStr => V::Str(vals.iter().map(|v| text_of_tok(v).1).collect::<Vec<_>>().concat()),
        MCmb::Ignore => V::Unit,
    }
}

/// `ch(i, pos)` runs the i-th sub-parser (real code, built separately) from `pos`.
/// Returns what the documentation of the combinator says the result must be.
fn spec(x: &X, data: &[u8], pos: usize, ch: &mut dyn FnMut(usize, usize) -> O) -> O {
    let len = data.len();
    // sub-parser outcomes that end everything
    macro_rules! pass {
        ($o:expr) => {
            match $o {
                O::Hang => return O::Hang,
                O::Panic(m) => return O::Panic(m),
                other => other,
            }
        };
    }
    match x {
        X::Any => match data.get(pos) {
            Some(k) => O::Ok(V::Sym(*k), pos + 1),
            None => O::Soft(0, pos),
        },
        X::PeekAny => match data.get(pos) {
            Some(k) => O::Ok(V::Sym(*k), pos),
            None => O::Soft(0, pos),
        },
        X::One(k) => match data.get(pos) {
            Some(c) if c == k => O::Ok(V::Sym(*k), pos + 1),
            _ => O::Soft(0, pos),
        },
        X::OneOf(bits) => match data.get(pos) {
            Some(c) if bits & (1 << c) != 0 => O::Ok(V::Sym(*c), pos + 1),
            _ => O::Soft(0, pos),
        },
        X::FailSoft(c) => O::Soft(*c, pos),
        X::FailFatal(c) => O::Fatal(*c, pos),
        X::EatSoft => O::Soft(7, if pos < len { pos + 1 } else { pos }),
        X::Pure => O::Ok(V::Unit, pos),
        X::ManyStr(k) => {
            let mut q = pos;
            while q < len && data[q] == *k {
                q += 1;
            }
            if q == pos { O::Soft(0, pos) } else { O::Ok(V::List(vec![V::Sym(*k); q - pos]), q) }
        }
        X::OneStr(k) => match data.get(pos) {
            Some(c) if c == k => O::Ok(V::Str(chr(*k).to_string()), pos + 1),
            _ => O::Soft(0, pos),
        },
        X::ManyStrWith(m, k) => {
            let mut q = pos;
            while q < len && data[q] == *k {
                q += 1;
            }
            if q == pos { O::Soft(0, pos) } else { O::Ok(mfold_ref(*m, vec![V::Sym(*k); q - pos]), q) }
        }
        // repetition with a many-combiner: the maximal run of successes, folded
        X::ManyC(m, an, _) => {
            let mut vals = vec![];
            let mut q = pos;
            let mut rounds = 0;
            loop {
                match pass!(ch(0, q)) {
                    O::Ok(v, q2) => {
                        vals.push(v);
                        q = q2;
                    }
                    O::Soft(e, q2) => {
                        if vals.is_empty() && !*an {
                            return O::Soft(e, q2);
                        }
                        return O::Ok(mfold_ref(*m, vals), q2);
                    }
                    o => return o,
                }
                rounds += 1;
                if rounds > len + 3 {
                    return O::Hang;
                }
            }
        }
        // "If the right side fails with a soft error, parsing of the left side is undone."
        X::And(c, ..) => match pass!(ch(0, pos)) {
            O::Ok(a, p1) => match pass!(ch(1, p1)) {
                O::Ok(b, p2) => O::Ok(comb(*c, a, b), p2),
                O::Soft(e, _) => O::Soft(e, pos),
                o => o,
            },
            o => o,
        },
        // choice: the first alternative that does not fail softly *from the original position*
        X::Or2(..) | X::Or3(..) => {
            let n = x.children().len();
            let mut last = O::Hang;
            for i in 0..n {
                last = pass!(ch(i, pos));
                if !matches!(last, O::Soft(..)) {
                    break;
                }
            }
            last
        }
        // two-way or: no restore of its own (relies on the left side)
        X::OrNoBox(..) => match pass!(ch(0, pos)) {
            O::Soft(_, q) => pass!(ch(1, q)),
            o => o,
        },
        // repetition: exactly the maximal run of successes
        X::Many(an, _) | X::ManyCtx(an, _) => {
            let mut vals = vec![];
            let mut q = pos;
            let mut rounds = 0;
            loop {
                match pass!(ch(0, q)) {
                    O::Ok(v, q2) => {
                        vals.push(v);
                        q = q2;
                    }
                    O::Soft(e, q2) => {
                        if vals.is_empty() && !*an {
                            return O::Soft(e, q2);
                        }
                        return O::Ok(V::List(vals), q2);
                    }
                    o => return o,
                }
                rounds += 1;
                if rounds > len + 3 {
                    return O::Hang; // the element keeps succeeding without consuming
                }
            }
        }
        X::Filter(p, _) => match pass!(ch(0, pos)) {
            O::Ok(v, q) => {
                let keep = match p {
                    Pred::Eq(k) => v == V::Sym(*k),
                    Pred::Ne(k) => v != V::Sym(*k),
                };
                if keep { O::Ok(v, q) } else { O::Soft(0, pos) }
            }
            o => o,
        },
        X::FilterMap(k, _) => match pass!(ch(0, pos)) {
            O::Ok(v, q) => {
                if v == V::Sym(*k) { O::Ok(pair(v.clone(), v), q) } else { O::Soft(0, pos) }
            }
            o => o,
        },
        X::Peek(_) => match pass!(ch(0, pos)) {
            O::Ok(v, _) => O::Ok(v, pos),
            o => o,
        },
        X::ToOption(_) => match pass!(ch(0, pos)) {
            O::Ok(v, q) => O::Ok(some(v), q),
            O::Soft(_, q) => O::Ok(V::None, q),
            o => o,
        },
        X::OrDefault(_) => match pass!(ch(0, pos)) {
            O::Soft(_, q) => O::Ok(V::default(), q),
            o => o,
        },
        X::Surround(md, ..) => {
            let q = match pass!(ch(0, pos)) {
                O::Ok(_, q) => q,
                O::Soft(e, q) => {
                    if *md {
                        return O::Soft(e, q);
                    }
                    q
                }
                o => return o,
            };
            match pass!(ch(1, q)) {
                O::Ok(v, q1) => match pass!(ch(2, q1)) {
                    O::Ok(_, q2) => O::Ok(v, q2),
                    O::Soft(e, q2) => {
                        if *md { O::Fatal(e, q2) } else { O::Ok(v, q2) }
                    }
                    o => o,
                },
                O::Soft(e, q1) => {
                    if *md { O::Fatal(e, q1) } else { O::Soft(e, pos) }
                }
                o => o,
            }
        }
        // element (delimiter element)*; a delimiter not followed by an element is the fatal trailing error;
        // without allow-missing, a delimiter not preceded by an element is that error too
        X::Delimited(am, te, ..) => {
            let mut vals: Vec<V> = vec![];
            let mut q = pos;
            let mut after_delim = false;
            let mut rounds = 0;
            loop {
                let had_value = match pass!(ch(0, q)) {
                    O::Ok(v, q2) => {
                        vals.push(if *am { some(v) } else { v });
                        q = q2;
                        true
                    }
                    O::Soft(_, q2) => {
                        q = q2;
                        false
                    }
                    o => return o,
                };
                match pass!(ch(1, q)) {
                    O::Ok(_, q2) => {
                        q = q2;
                        if !had_value {
                            if *am {
                                vals.push(V::None);
                            } else {
                                return O::Fatal(*te, q);
                            }
                        }
                        after_delim = true;
                    }
                    O::Soft(_, q2) => {
                        return if had_value {
                            O::Ok(V::List(vals), q2)
                        } else if after_delim {
                            O::Fatal(*te, q2)
                        } else {
                            O::Soft(0, q2)
                        };
                    }
                    o => return o,
                }
                rounds += 1;
                if rounds > len + 3 {
                    return O::Hang;
                }
            }
        }
        // "the first is allowed to return incomplete but the rest are not"
        X::Seq(v) => {
            let mut vals = vec![];
            let mut q = pos;
            for i in 0..v.len() {
                match pass!(ch(i, q)) {
                    O::Ok(val, q2) => {
                        vals.push(val);
                        q = q2;
                    }
                    O::Soft(e, q2) => return if i == 0 { O::Soft(e, q2) } else { O::Fatal(e, q2) },
                    o => return o,
                }
            }
            O::Ok(V::List(vals), q)
        }
        X::ThenWith(c, ..) => match pass!(ch(0, pos)) {
            O::Ok(a, p1) => match pass!(ch(1, p1)) {
                O::Ok(b, p2) => O::Ok(comb(*c, a, b), p2),
                O::Soft(e, p2) => O::Fatal(e, p2),
                o => o,
            },
            o => o,
        },
        // "even if the mapper function returns a soft error, the input is not backtracked"
        X::AndThen(keep, code, fatal, _) => match pass!(ch(0, pos)) {
            O::Ok(v, q) => {
                if v == V::Sym(*keep) {
                    O::Ok(v, q)
                } else if *fatal {
                    O::Fatal(*code, q)
                } else {
                    O::Soft(*code, q)
                }
            }
            o => o,
        },
        X::AndThenErr(m, _) => match pass!(ch(0, pos)) {
            O::Soft(e, q) => match m {
                ErrFn::Recover => O::Ok(V::Unit, q),
                ErrFn::RecoverIf(k) => {
                    if e == *k { O::Ok(V::Unit, q) } else { O::Soft(e, q) }
                }
                ErrFn::Replace(c, f) => {
                    if *f { O::Fatal(*c, q) } else { O::Soft(*c, q) }
                }
            },
            o => o,
        },
        X::Map(f, _) => match pass!(ch(0, pos)) {
            O::Ok(v, q) => O::Ok(mapfn_ref(*f, v), q),
            o => o,
        },
        X::ToFatal(_) => match pass!(ch(0, pos)) {
            O::Soft(e, q) => O::Fatal(e, q),
            o => o,
        },
        X::WithSoftErr(c, f, _) => match pass!(ch(0, pos)) {
            O::Soft(_, q) => {
                if *f { O::Fatal(*c, q) } else { O::Soft(*c, q) }
            }
            o => o,
        },
        // "If the parser returns a soft error, the error is returned as-is.
        //  If the parser returns a fatal error, it is replaced by the given error."
        X::MapFatalErr(c, _) => match pass!(ch(0, pos)) {
            O::Fatal(_, q) => O::Fatal(*c, q),
            o => o,
        },
        X::Flatten(..) => match pass!(ch(0, pos)) {
            O::Ok(_, q) => pass!(ch(1, q)),
            o => o,
        },
        X::Lazy(_) => pass!(ch(0, pos)),
        X::Iif(b, ..) => pass!(ch(if *b { 0 } else { 1 }, pos)),
    }
}

// ------------------------------------------------------------------------------------------------
// enumeration / sampling of expressions
// ------------------------------------------------------------------------------------------------

fn b(x: &X) -> Box<X> {
    Box::new(x.clone())
}

fn leaves_full() -> Vec<X> {
    vec![
        X::One(0),
        X::One(1),
        X::Any,
        X::PeekAny,
        X::OneOf(0b110),
        X::FailSoft(3),
        X::FailFatal(4),
        X::EatSoft,
        X::Pure,
        X::ManyStr(0),
    ]
}
fn leaves_core() -> Vec<X> {
    vec![X::One(0), X::Any, X::FailSoft(3), X::FailFatal(4), X::EatSoft, X::Pure]
}

fn unary_over(e: &X, all_variants: bool) -> Vec<X> {
    let mut v = vec![
        X::Many(false, b(e)),
        X::Many(true, b(e)),
        X::Filter(Pred::Eq(0), b(e)),
        X::FilterMap(0, b(e)),
        X::Peek(b(e)),
        X::ToOption(b(e)),
        X::OrDefault(b(e)),
        X::AndThen(0, 5, false, b(e)),
        X::AndThenErr(ErrFn::Recover, b(e)),
        X::Map(MapFn::Wrap, b(e)),
        X::ToFatal(b(e)),
        X::WithSoftErr(6, false, b(e)),
        X::WithSoftErr(6, true, b(e)),
        X::MapFatalErr(8, b(e)),
    ];
    if all_variants {
        v.extend([
            X::ManyCtx(false, b(e)),
            X::ManyCtx(true, b(e)),
            X::Filter(Pred::Ne(0), b(e)),
            X::FilterMap(1, b(e)),
            X::AndThen(0, 5, true, b(e)),
            X::AndThen(1, 5, false, b(e)),
            X::AndThenErr(ErrFn::RecoverIf(0), b(e)),
            X::AndThenErr(ErrFn::Replace(2, false), b(e)),
            X::AndThenErr(ErrFn::Replace(2, true), b(e)),
            X::Map(MapFn::Unit, b(e)),
            X::Map(MapFn::Dup, b(e)),
            X::Lazy(b(e)),
        ]);
    }
    v
}

/// the value layer: every new mapper and many-combiner over `e`
fn unary_val_over(e: &X) -> Vec<X> {
    let mut v: Vec<X> = ALL_MAPFN[3..].iter().map(|f| X::Map(*f, b(e))).collect();
    for m in [MCmb::Vec, MCmb::Str, MCmb::TokStr, MCmb::Ignore] {
        v.push(X::ManyC(m, false, b(e)));
        v.push(X::ManyC(m, true, b(e)));
    }
    v
}
/// the value layer: `and` / `then_with_in_context` with every combiner struct
fn binary_val_over(l: &X, r: &X) -> Vec<X> {
    let mut v = vec![];
    for c in ALL_CMB {
        if !matches!(c, Cmb::Tuple | Cmb::Left | Cmb::Right) {
            v.push(X::And(c, b(l), b(r)));
        }
        v.push(X::ThenWith(c, b(l), b(r)));
    }
    v
}
/// sub-parsers whose values have every shape the typed combiners take: chars, strings, options of both, vectors of
/// chars, tokens, unit; failing ones
fn val_leaves() -> Vec<X> {
    let tok = X::Map(MapFn::MkTok(7), b(&X::ManyStrWith(MCmb::Str, 0)));
    vec![
        X::One(0),
        X::Any,
        X::OneStr(1),
        X::ManyStrWith(MCmb::Str, 0),
        X::ToOption(b(&X::One(1))),
        X::ToOption(b(&X::OneStr(1))),
        X::Many(true, b(&X::One(1))),
        tok,
        X::Pure,
        X::FailSoft(3),
        X::FailFatal(4),
    ]
}

fn binary_over(l: &X, r: &X, all_variants: bool) -> Vec<X> {
    let mut v = vec![
        X::And(Cmb::Tuple, b(l), b(r)),
        X::Or2(b(l), b(r)),
        X::OrNoBox(b(l), b(r)),
        X::Delimited(false, 9, b(l), b(r)),
        X::Delimited(true, 9, b(l), b(r)),
        X::Seq(vec![l.clone(), r.clone()]),
        X::ThenWith(Cmb::Tuple, b(l), b(r)),
        X::Flatten(b(l), b(r)),
    ];
    if all_variants {
        v.extend([
            X::And(Cmb::Left, b(l), b(r)),
            X::And(Cmb::Right, b(l), b(r)),
            X::ThenWith(Cmb::Left, b(l), b(r)),
            X::ThenWith(Cmb::Right, b(l), b(r)),
            X::Iif(true, b(l), b(r)),
            X::Iif(false, b(l), b(r)),
        ]);
    }
    v
}

fn ternary_over(a: &X, m: &X, c: &X) -> Vec<X> {
    vec![
        X::Or3(b(a), b(m), b(c)),
        X::Surround(false, b(a), b(m), b(c)),
        X::Surround(true, b(a), b(m), b(c)),
        X::Seq(vec![a.clone(), m.clone(), c.clone()]),
    ]
}

/// every expression of depth exactly 2: all constructors and parameter variants over the full leaf set
/// (ternary constructors over the core leaf set)
fn depth2_all() -> Vec<X> {
    let full = leaves_full();
    let core = leaves_core();
    let mut v = vec![];
    for e in &full {
        v.extend(unary_over(e, true));
    }
    for l in &full {
        for r in &full {
            v.extend(binary_over(l, r, true));
        }
    }
    for a in &core {
        for m in &core {
            for c in &core {
                v.extend(ternary_over(a, m, c));
            }
        }
    }
    v
}

/// the reduced grammar used for the exhaustive depth-3 layer: 4 leaves, one variant per combinator
fn depth_le2_reduced() -> Vec<X> {
    let lv = vec![X::One(0), X::FailFatal(4), X::EatSoft, X::Pure];
    let mut v = lv.clone();
    for e in &lv {
        v.extend(unary_over(e, false));
    }
    for l in &lv {
        for r in &lv {
            v.extend(binary_over(l, r, false));
        }
    }
    v
}

fn random_leaf(rng: &mut Rng) -> X {
    match rng.below(14) {
        0 | 1 => X::One(0),
        2 => X::One(1),
        3 => X::One(2),
        4 => X::Any,
        5 => X::PeekAny,
        6 => X::OneOf(1 + rng.below(7) as u8),
        7 => X::FailSoft(3),
        8 => X::FailFatal(4),
        9 => X::EatSoft,
        10 => X::Pure,
        11 => X::ManyStr(rng.below(3) as u8),
        12 => match rng.below(3) {
            0 => X::OneStr(rng.below(3) as u8),
            1 => X::ManyStrWith(*rng.pick(&[MCmb::Vec, MCmb::Str, MCmb::Ignore]), rng.below(3) as u8),
            _ => X::One(rng.below(3) as u8),
        },
        _ => X::One(rng.below(3) as u8),
    }
}

fn random_expr(rng: &mut Rng, depth: usize) -> X {
    if depth <= 1 || rng.chance(1, 8) {
        return random_leaf(rng);
    }
    let d = depth - 1;
    let sub = |rng: &mut Rng| Box::new(random_expr(rng, d));
    let cmb = |rng: &mut Rng| *rng.pick(&ALL_CMB);
    match rng.below(37) {
        0 | 1 => X::And(cmb(rng), sub(rng), sub(rng)),
        2 | 3 => X::Or2(sub(rng), sub(rng)),
        4 => X::Or3(sub(rng), sub(rng), sub(rng)),
        5 | 6 => X::OrNoBox(sub(rng), sub(rng)),
        7 | 8 => X::Many(rng.chance(1, 2), sub(rng)),
        9 => X::ManyCtx(rng.chance(1, 2), sub(rng)),
        10 => X::Filter(
            if rng.chance(1, 2) { Pred::Eq(rng.below(3) as u8) } else { Pred::Ne(rng.below(3) as u8) },
            sub(rng),
        ),
        11 => X::FilterMap(rng.below(3) as u8, sub(rng)),
        12 => X::Peek(sub(rng)),
        13 => X::ToOption(sub(rng)),
        14 => X::OrDefault(sub(rng)),
        15 | 16 => X::Surround(rng.chance(1, 2), sub(rng), sub(rng), sub(rng)),
        17 | 18 => X::Delimited(rng.chance(1, 2), 9, sub(rng), sub(rng)),
        19 | 20 => {
            let n = match rng.below(8) {
                0..=3 => 2,
                4 | 5 => 3,
                6 => 4,
                _ => 5 + rng.below(2) as usize,
            };
            X::Seq((0..n).map(|_| random_expr(rng, d)).collect())
        }
        21 => X::ThenWith(cmb(rng), sub(rng), sub(rng)),
        22 => X::AndThen(rng.below(3) as u8, 5, rng.chance(1, 2), sub(rng)),
        23 => X::AndThenErr(
            match rng.below(4) {
                0 => ErrFn::Recover,
                1 => ErrFn::RecoverIf(rng.below(8) as u8),
                2 => ErrFn::Replace(2, false),
                _ => ErrFn::Replace(2, true),
            },
            sub(rng),
        ),
        24 | 34 => X::Map(*rng.pick(&ALL_MAPFN), sub(rng)),
        35 | 36 => X::ManyC(*rng.pick(&[MCmb::Vec, MCmb::Str, MCmb::TokStr, MCmb::Ignore]), rng.chance(1, 2), sub(rng)),
        25 => X::ToFatal(sub(rng)),
        26 | 27 => X::WithSoftErr(6, rng.chance(1, 2), sub(rng)),
        28 | 29 => X::MapFatalErr(8, sub(rng)),
        30 => X::Flatten(sub(rng), sub(rng)),
        31 => X::Lazy(sub(rng)),
        32 => X::Iif(rng.chance(1, 2), sub(rng), sub(rng)),
        _ => X::And(cmb(rng), sub(rng), sub(rng)),
    }
}

/// all words over `0..k` of length `0..=maxlen`, by length then lexicographically (the driver's order)
fn all_inputs(k: u8, maxlen: usize) -> Vec<Vec<u8>> {
    let mut res: Vec<Vec<u8>> = vec![];
    let mut layer: Vec<Vec<u8>> = vec![vec![]];
    res.extend(layer.iter().cloned());
    for _ in 0..maxlen {
        let mut next = Vec::with_capacity(layer.len() * k as usize);
        for w in &layer {
            for c in 0..k {
                let mut w2 = w.clone();
                w2.push(c);
                next.push(w2);
            }
        }
        // lexicographic with the first symbol most significant: prefixes vary slowest
        next.sort();
        res.extend(next.iter().cloned());
        layer = next;
    }
    res
}

// ------------------------------------------------------------------------------------------------

struct Ctx {
    rep: Report,
    inputs: Vec<Vec<Vec<u8>>>, // by maxlen
    t_model: f64,
    t_real: f64,
}

struct Job {
    x: X,
    maxlen: usize,
    start: usize,
    layer: &'static str,
}

fn process(ctx: &mut Ctx, jobs: &[Job]) {
    // ask the model in batches
    for chunk in jobs.chunks(400) {
        let reqs: Vec<String> =
            chunk.iter().map(|j| format!("(pc.runall {} 3 {} {})", j.x.sx(), j.maxlen, j.start)).collect();
        let t0 = std::time::Instant::now();
        let answers = ask(&reqs);
        ctx.t_model += t0.elapsed().as_secs_f64();
        let t1 = std::time::Instant::now();
        for (j, ans) in chunk.iter().zip(answers.iter()) {
            check_job(ctx, j, ans);
        }
        ctx.t_real += t1.elapsed().as_secs_f64();
    }
}

/// splits `(r1 r2 ...)` into the top-level items
fn split_top(s: &str) -> Option<Vec<&str>> {
    let s = s.trim();
    let inner = s.strip_prefix('(')?.strip_suffix(')')?;
    let bytes = inner.as_bytes();
    let mut items = vec![];
    let mut depth = 0usize;
    let mut begin: Option<usize> = None;
    for (i, c) in bytes.iter().enumerate() {
        match c {
            b'(' => {
                if depth == 0 && begin.is_none() {
                    begin = Some(i);
                }
                depth += 1;
            }
            b')' => {
                depth = depth.checked_sub(1)?;
                if depth == 0 {
                    items.push(&inner[begin.take()?..=i]);
                }
            }
            b' ' => {
                if depth == 0 {
                    if let Some(bg) = begin.take() {
                        items.push(&inner[bg..i]);
                    }
                }
            }
            _ => {
                if begin.is_none() {
                    begin = Some(i);
                }
            }
        }
    }
    if let Some(bg) = begin {
        items.push(&inner[bg..]);
    }
    Some(items)
}


// ------------------------------------------------------------------------------------------------
// context data flow (model: RbModel.PcCtx): parsers of type Parser<In, V>
// ------------------------------------------------------------------------------------------------

#[derive(Clone, Copy, Debug, PartialEq)]
enum CtxFn {
    Id,
    Wrap,
    Const0,
}

#[derive(Clone, Debug, PartialEq)]
enum CX {
    Lift(X),
    Ctx,
    Iif(X, X),
    MapCtx(CtxFn, Box<CX>),
    NoCtx(Box<CX>),
    ThenWith(Cmb, Box<CX>, Box<CX>),
    ManyCtx(bool, Box<CX>),
    And(Cmb, Box<CX>, Box<CX>),
    Or2(Box<CX>, Box<CX>),
    Seq2(Box<CX>, Box<CX>),
    Map(MapFn, Box<CX>),
}

impl CX {
    fn name(&self) -> &'static str {
        match self {
            CX::Lift(_) => "lift",
            CX::Ctx => "ctx",
            CX::Iif(..) => "iif",
            CX::MapCtx(..) => "mapCtx",
            CX::NoCtx(_) => "noCtx",
            CX::ThenWith(..) => "thenWith",
            CX::ManyCtx(..) => "manyCtx",
            CX::And(..) => "and",
            CX::Or2(..) => "or2",
            CX::Seq2(..) => "seq2",
            CX::Map(..) => "map",
        }
    }
    fn sx(&self) -> String {
        match self {
            CX::Lift(e) => format!("(lift {})", e.sx()),
            CX::Ctx => "ctx".into(),
            CX::Iif(l, r) => format!("(iif {} {})", l.sx(), r.sx()),
            CX::MapCtx(f, c) => format!(
                "(mapCtx {} {})",
                match f {
                    CtxFn::Id => "id",
                    CtxFn::Wrap => "wrap",
                    CtxFn::Const0 => "const0",
                },
                c.sx()
            ),
            CX::NoCtx(c) => format!("(noCtx {})", c.sx()),
            CX::ThenWith(m, l, r) => format!("(thenWith {} {} {})", cmb_s(*m), l.sx(), r.sx()),
            CX::ManyCtx(an, c) => format!("(manyCtx {} {})", tf(*an), c.sx()),
            CX::And(m, l, r) => format!("(and {} {} {})", cmb_s(*m), l.sx(), r.sx()),
            CX::Or2(a, b) => format!("(or2 {} {})", a.sx(), b.sx()),
            CX::Seq2(a, b) => format!("(seq2 {} {})", a.sx(), b.sx()),
            CX::Map(f, c) => format!("(map {} {})", mapfn_s(*f), c.sx()),
        }
    }
    /// `cLeavesWB` of `Thm/C20CtxWb.lean`: every context-free part is built from well-behaved leaves
    fn leaves_wb(&self) -> bool {
        match self {
            CX::Lift(e) => e.leaves_wb(),
            CX::Ctx => true,
            CX::Iif(l, r) => l.leaves_wb() && r.leaves_wb(),
            CX::MapCtx(_, c) | CX::NoCtx(c) | CX::ManyCtx(_, c) | CX::Map(_, c) => c.leaves_wb(),
            CX::ThenWith(_, a, b) | CX::And(_, a, b) | CX::Or2(a, b) | CX::Seq2(a, b) => a.leaves_wb() && b.leaves_wb(),
        }
    }
    fn depth(&self) -> usize {
        match self {
            CX::Lift(_) | CX::Ctx | CX::Iif(..) => 1,
            CX::MapCtx(_, c) | CX::NoCtx(c) | CX::ManyCtx(_, c) | CX::Map(_, c) => 1 + c.depth(),
            CX::ThenWith(_, a, b) | CX::And(_, a, b) | CX::Or2(a, b) | CX::Seq2(a, b) => 1 + a.depth().max(b.depth()),
        }
    }
}

type CP = BoxedParser<In, V, V, E>;

fn bxc(p: impl Parser<In, V, Output = V, Error = E> + 'static) -> CP {
    p.boxed()
}
fn bxc_list(p: impl Parser<In, V, Output = Vec<V>, Error = E> + 'static) -> CP {
    p.map(V::List).boxed()
}
fn bxc_pair(p: impl Parser<In, V, Output = (V, V), Error = E> + 'static) -> CP {
    p.map(|(a, b)| V::Pair(Box::new(a), Box::new(b))).boxed()
}

fn build_c(x: &CX) -> CP {
    match x {
        CX::Lift(e) => bxc(build(e).no_context::<V>()),
        CX::Ctx => bxc(ctx_parser::<In, V, E>()),
        CX::Iif(l, r) => {
            let p = IifCtxParser::new::<In>(build(l), build(r));
            bxc(Parser::<In, bool>::map_ctx(p, |v: &V| *v == V::Sym(0)))
        }
        CX::MapCtx(f, c) => {
            let f = *f;
            bxc(Parser::<In, V>::map_ctx(build_c(c), move |v: &V| match f {
                CtxFn::Id => v.clone(),
                CtxFn::Wrap => V::Some(Box::new(v.clone())),
                CtxFn::Const0 => V::Sym(0),
            }))
        }
        CX::NoCtx(c) => bxc(build_c(c).no_context::<V>()),
        CX::ThenWith(m, l, r) => match m {
            Cmb::Tuple => bxc_pair(build_c(l).then_with_in_context(build_c(r), TupleCombiner)),
            Cmb::Left => bxc(build_c(l).then_with_in_context(build_c(r), KeepLeftCombiner)),
            Cmb::Right => bxc(build_c(l).then_with_in_context(build_c(r), KeepRightCombiner)),
            _ => panic!("the context layer uses the three basic combiners"),
        },
        CX::ManyCtx(an, c) => bxc_list(ManyCtxParser::new::<In>(
            build_c(c),
            VecManyCombiner,
            |v: &V| {
                tick_by(vsize(v));
                v.clone()
            },
            *an,
        )),
        CX::And(m, l, r) => match m {
            Cmb::Tuple => bxc_pair(build_c(l).and_tuple(build_c(r))),
            Cmb::Left => bxc(build_c(l).and_keep_left(build_c(r))),
            Cmb::Right => bxc(build_c(l).and_keep_right(build_c(r))),
            _ => panic!("the context layer uses the three basic combiners"),
        },
        CX::Or2(a, b) => bxc(OrParser::new(vec![Box::new(build_c(a)), Box::new(build_c(b))])),
        CX::Seq2(a, b) => bxc(seq2(build_c(a), build_c(b), |x, y| V::List(vec![x, y]))),
        CX::Map(f, c) => match f {
            MapFn::Unit => bxc(build_c(c).map_to_unit().map(|()| V::Unit)),
            MapFn::Wrap => bxc(build_c(c).map(|v| V::Some(Box::new(v)))),
            MapFn::Dup => bxc(build_c(c).map(|v: V| V::Pair(Box::new(v.clone()), Box::new(v)))),
            _ => panic!("the context layer uses the three basic mappers"),
        },
    }
}

/// `set_context(top)` (if any), then `parse` from `start`; a panic is a result
fn run_real_c(x: &CX, top: Option<u8>, data: &[u8], start: usize) -> O {
    let mut p = build_c(x); // context state lives in the parser: a fresh one per run
    let mut input = In { data: data.iter().map(|k| chr(*k)).collect(), pos: start };
    TICKS.with(|t| t.set(0));
    let r = catch_unwind(AssertUnwindSafe(|| {
        if let Some(k) = top {
            p.set_context(&V::Sym(k));
        }
        p.parse(&mut input)
    }));
    match r {
        Ok(Ok(v)) => O::Ok(v, input.pos),
        Ok(Err(e)) => {
            if e.fatal { O::Fatal(e.code, input.pos) } else { O::Soft(e.code, input.pos) }
        }
        Err(payload) => {
            let msg = payload
                .downcast_ref::<String>()
                .cloned()
                .or_else(|| payload.downcast_ref::<&str>().map(|s| s.to_string()))
                .unwrap_or_else(|| "?".into());
            if msg == HANG_MSG { O::Hang } else { O::Panic(msg.replace(['(', ')', ' '], "_")) }
        }
    }
}

fn cb(x: &CX) -> Box<CX> {
    Box::new(x.clone())
}

fn c_leaves() -> Vec<CX> {
    vec![
        CX::Ctx,
        CX::Lift(X::One(0)),
        CX::Lift(X::Any),
        CX::Lift(X::Pure),
        CX::Lift(X::FailSoft(3)),
        CX::Lift(X::FailFatal(4)),
        CX::Iif(X::One(0), X::Any),
        CX::Iif(X::FailSoft(3), X::PeekAny),
    ]
}
fn c_unary(c: &CX) -> Vec<CX> {
    vec![
        CX::MapCtx(CtxFn::Id, cb(c)),
        CX::MapCtx(CtxFn::Wrap, cb(c)),
        CX::MapCtx(CtxFn::Const0, cb(c)),
        CX::NoCtx(cb(c)),
        CX::ManyCtx(false, cb(c)),
        CX::ManyCtx(true, cb(c)),
        CX::Map(MapFn::Wrap, cb(c)),
    ]
}
fn c_binary(l: &CX, r: &CX) -> Vec<CX> {
    vec![
        CX::ThenWith(Cmb::Tuple, cb(l), cb(r)),
        CX::ThenWith(Cmb::Right, cb(l), cb(r)),
        CX::And(Cmb::Tuple, cb(l), cb(r)),
        CX::Or2(cb(l), cb(r)),
        CX::Seq2(cb(l), cb(r)),
    ]
}

fn random_cexpr(rng: &mut Rng, depth: usize) -> CX {
    if depth <= 1 || rng.chance(1, 8) {
        return match rng.below(10) {
            0..=2 => CX::Ctx,
            3 | 4 => CX::Iif(random_expr(rng, 2), random_expr(rng, 2)),
            _ => CX::Lift(random_expr(rng, 2)),
        };
    }
    let d = depth - 1;
    let cmb = *rng.pick(&[Cmb::Tuple, Cmb::Left, Cmb::Right]);
    match rng.below(14) {
        0 | 1 => CX::MapCtx(*rng.pick(&[CtxFn::Id, CtxFn::Wrap, CtxFn::Const0]), Box::new(random_cexpr(rng, d))),
        2 => CX::NoCtx(Box::new(random_cexpr(rng, d))),
        3..=5 => CX::ThenWith(cmb, Box::new(random_cexpr(rng, d)), Box::new(random_cexpr(rng, d))),
        6..=8 => CX::ManyCtx(rng.chance(1, 2), Box::new(random_cexpr(rng, d))),
        9 | 10 => CX::And(cmb, Box::new(random_cexpr(rng, d)), Box::new(random_cexpr(rng, d))),
        11 => CX::Or2(Box::new(random_cexpr(rng, d)), Box::new(random_cexpr(rng, d))),
        12 => CX::Seq2(Box::new(random_cexpr(rng, d)), Box::new(random_cexpr(rng, d))),
        _ => CX::Map(*rng.pick(&[MapFn::Unit, MapFn::Wrap, MapFn::Dup]), Box::new(random_cexpr(rng, d))),
    }
}

struct CJob {
    x: CX,
    top: Option<u8>,
    maxlen: usize,
    start: usize,
    layer: &'static str,
}

fn process_c(ctx: &mut Ctx, jobs: &[CJob]) {
    for chunk in jobs.chunks(400) {
        let reqs: Vec<String> = chunk
            .iter()
            .map(|j| {
                format!(
                    "(pcc.runall {} {} 3 {} {})",
                    j.x.sx(),
                    j.top.map(|k| k.to_string()).unwrap_or_else(|| "none".into()),
                    j.maxlen,
                    j.start
                )
            })
            .collect();
        let answers = ask(&reqs);
        for ((j, ans), req) in chunk.iter().zip(answers.iter()).zip(reqs.iter()) {
            let inputs = ctx.inputs[j.maxlen].clone();
            let model: Vec<&str> = match split_top(ans) {
                Some(v) if v.len() == inputs.len() => v,
                _ => {
                    ctx.rep.fail(Failure {
                        kind: Kind::ModelVsImpl,
                        signature: "driver:bad-answer".into(),
                        input: req.clone(),
                        implementation: "-".into(),
                        expected: ans.chars().take(200).collect(),
                        note: "the driver did not answer one result per input".into(),
                    });
                    continue;
                }
            };
            let xs = j.x.sx();
            ctx.rep.bump(&format!("{}.top.{}", j.layer, j.x.name()));
            ctx.rep.bump(&format!("{}.depth{}", j.layer, j.x.depth()));
            let wb_expected = j.x.leaves_wb();
            ctx.rep.bump(&format!("{}.{}", j.layer, if wb_expected { "cLeavesWB" } else { "ill-behaved-part" }));
            for (idx, data) in inputs.iter().enumerate() {
                if j.start > data.len() {
                    continue;
                }
                let got = run_real_c(&j.x, j.top, data, j.start);
                let got_s = if matches!(got, O::Panic(_)) { "panic".to_string() } else { got.canon() };
                let end = match &got {
                    O::Ok(_, q) | O::Soft(_, q) | O::Fatal(_, q) => *q as i64,
                    _ => -1,
                };
                ctx.rep.case(Some(format!("C|{}|{:?}|{}|{}|{}", xs, j.top, j.start, got.kind(), end)));
                ctx.rep.bump(&format!("ctx.outcome.{}", got.kind()));
                let case_input = format!("cexpr={} top={:?} input={:?} start={}", xs, j.top, data, j.start);
                if model[idx] != got_s {
                    ctx.rep.fail(Failure {
                        kind: Kind::ModelVsImpl,
                        signature: format!("modelctx:{}", j.x.name()),
                        input: case_input.clone(),
                        implementation: format!("{} [{}]", got_s, if let O::Panic(m) = &got { m.as_str() } else { "" }),
                        expected: model[idx].to_string(),
                        note: "RbModel.PcCtx.runTop disagrees with the real combinator (result, position afterwards)".into(),
                    });
                }
                // the backtracking contract through the context combinators, on the real results (theorems
                // runTop_mono / runTop_wb of Thm/C20CtxWb.lean): never backwards, never past the end, and over
                // well-behaved context-free parts a soft failure leaves the input where it started
                if let O::Ok(_, q) | O::Soft(_, q) | O::Fatal(_, q) = &got {
                    let mut violate = |sig: String, expected: String, note: &str| {
                        ctx.rep.fail(Failure {
                            kind: Kind::ImplVsProperty,
                            signature: sig,
                            input: case_input.clone(),
                            implementation: got_s.clone(),
                            expected,
                            note: note.into(),
                        });
                    };
                    if *q > data.len() {
                        violate(format!("ctxcontract:pos>len:{}", j.x.name()), format!("position <= {}", data.len()), "position past the end of the input (theorem runTop_mono)");
                    }
                    if *q < j.start {
                        violate(format!("ctxcontract:moved-backwards:{}", j.x.name()), format!("position >= {}", j.start), "a parse never moves the position backwards (theorem runTop_mono)");
                    }
                    if wb_expected && matches!(got, O::Soft(..)) && *q != j.start {
                        violate(
                            format!("ctxcontract:soft-not-restored:{}", j.x.name()),
                            format!("soft failure at position {}", j.start),
                            "a soft failure leaves the input where it started, through the context combinators (theorem runTop_wb)",
                        );
                    }
                }
                // the data flow itself, on the real code: `l.then_with_in_context(ctx_parser(), ..)` hands the
                // left value to the right side, which returns it without consuming
                if let CX::ThenWith(m, l, r) = &j.x {
                    if **r == CX::Ctx {
                        let left = run_real_c(l, j.top, data, j.start);
                        let expected = match left {
                            O::Ok(a, p1) => O::Ok(comb(*m, a.clone(), a), p1),
                            o => o,
                        };
                        let exp_s = if matches!(expected, O::Panic(_)) { "panic".to_string() } else { expected.canon() };
                        if exp_s != got_s {
                            ctx.rep.fail(Failure {
                                kind: Kind::ImplVsProperty,
                                signature: "ctxflow:thenWith".into(),
                                input: case_input.clone(),
                                implementation: got_s.clone(),
                                expected: exp_s,
                                note: "then_with_in_context sets the right side's context to the left side's value".into(),
                            });
                        }
                    }
                }
                // `many_ctx` over the context switch: every round runs under the previous element (the default
                // context, the empty list, first) — stepped here with the two context-free branches run separately
                if let CX::ManyCtx(an, body) = &j.x {
                    if let CX::Iif(l, r) = &**body {
                        let (mut pl, mut pr) = (build(l), build(r));
                        let mut prev = V::default();
                        let mut vals: Vec<V> = vec![];
                        let mut q = j.start;
                        let mut rounds = 0;
                        let expected = loop {
                            let o = if prev == V::Sym(0) { run_real(&mut pl, data, q) } else { run_real(&mut pr, data, q) };
                            match o {
                                O::Ok(v, q2) => {
                                    vals.push(v.clone());
                                    prev = v;
                                    q = q2;
                                }
                                O::Soft(e, q2) => {
                                    break if vals.is_empty() && !*an { O::Soft(e, q2) } else { O::Ok(V::List(vals), q2) };
                                }
                                o => break o,
                            }
                            rounds += 1;
                            if rounds > 2 * data.len() + 5 {
                                break O::Hang;
                            }
                        };
                        if expected.canon() != got_s && !matches!(expected, O::Panic(_)) {
                            ctx.rep.fail(Failure {
                                kind: Kind::ImplVsProperty,
                                signature: "ctxflow:manyCtx".into(),
                                input: case_input.clone(),
                                implementation: got_s.clone(),
                                expected: expected.canon(),
                                note: "many_ctx sets the body's context to the previous element before every round".into(),
                            });
                        }
                    }
                }
                if idx == 7 && ctx.rep.samples.len() < 12 && j.x.depth() >= 2 {
                    ctx.rep.sample(J::s(format!("{} top={:?} on {:?} -> {}", xs, j.top, data, got_s)));
                }
            }
        }
    }
}

// ------------------------------------------------------------------------------------------------
// token.rs: the pure functions of `Token` (model: RbModel.Pc.Token), panics included
// ------------------------------------------------------------------------------------------------

fn panic_msg(payload: Box<dyn std::any::Any + Send>) -> String {
    payload
        .downcast_ref::<String>()
        .cloned()
        .or_else(|| payload.downcast_ref::<&str>().map(|s| s.to_string()))
        .unwrap_or_else(|| "?".into())
}

fn token_layer(ctx: &mut Ctx) {
    let kinds: [u8; 4] = [0, 19, 42, 255];
    let texts = all_inputs(3, 3);
    let mut reqs = vec![];
    let mut cases = vec![];
    for k in kinds {
        for t in &texts {
            reqs.push(format!(
                "(pc.token {} ({}))",
                k,
                t.iter().map(|c| c.to_string()).collect::<Vec<_>>().join(" ")
            ));
            cases.push((k, t.clone()));
        }
    }
    let answers = ask(&reqs);
    for (((k, t), ans), req) in cases.iter().zip(answers.iter()).zip(reqs.iter()) {
        let text: String = t.iter().map(|c| chr(*c)).collect();
        let enc = |s: &str| s.chars().map(|c| format!(" {}", (c as u8).wrapping_sub(b'a'))).collect::<String>();
        let real = match catch_unwind(AssertUnwindSafe(|| Token::new(*k, text.clone()))) {
            Err(p) => {
                let m = panic_msg(p);
                if m.contains("Token text cannot be empty") { "panic".to_string() } else { format!("(panic {})", m) }
            }
            Ok(tok) => {
                let tr = match tok.try_as_single_char() {
                    Some(c) => ((c as u8).wrapping_sub(b'a')).to_string(),
                    None => "none".into(),
                };
                let dm = match catch_unwind(AssertUnwindSafe(|| tok.demand_single_char())) {
                    Ok(c) => ((c as u8).wrapping_sub(b'a')).to_string(),
                    Err(p) => {
                        let m = panic_msg(p);
                        if m.contains("Token is not single char") { "panic".to_string() } else { format!("(panic {})", m) }
                    }
                };
                // as_str, Display and to_text must agree (all three are "the text")
                let shown = tok.to_string();
                let as_str = tok.as_str().to_string();
                let kind = tok.kind();
                let owned = tok.to_text();
                if shown != as_str || as_str != owned {
                    format!("(texts-differ {} {} {})", shown, as_str, owned)
                } else {
                    format!("(tok {} (str{}) {} {})", kind, enc(&owned), tr, dm)
                }
            }
        };
        ctx.rep.case(Some(format!("token|{}|{}", k, t.len().min(2))));
        ctx.rep.bump("token.cases");
        if &real != ans {
            ctx.rep.fail(Failure {
                kind: Kind::ModelVsImpl,
                signature: "model:token".into(),
                input: req.clone(),
                implementation: real.clone(),
                expected: ans.clone(),
                note: "RbModel.Pc.Token disagrees with token.rs (new / kind / as_str / to_text / Display / try_as_single_char / demand_single_char)".into(),
            });
        }
        // the documented contract, directly
        let expect_panic = t.is_empty();
        if expect_panic != (real == "panic") {
            ctx.rep.fail(Failure {
                kind: Kind::ImplVsProperty,
                signature: "token:new-empty".into(),
                input: req.clone(),
                implementation: real.clone(),
                expected: if expect_panic { "panic".into() } else { "a token".into() },
                note: "Token::new asserts a non-empty text".into(),
            });
        }
    }
    ctx.rep.exhaustive_parts.push(format!(
        "token.rs: Token::new / kind / as_str / to_text / Display / try_as_single_char / demand_single_char on all {} (kind in 0/19/42/255) x (texts of length <= 3 over three letters), panics included",
        cases.len()
    ));
}

// ------------------------------------------------------------------------------------------------
// recursive grammars through the real `lazy` (model: RbModel.PcRec)
// ------------------------------------------------------------------------------------------------

#[derive(Clone, Debug, PartialEq)]
enum GX {
    Lift(X),
    Ref(usize),
    And(Cmb, Box<GX>, Box<GX>),
    Or2(Box<GX>, Box<GX>),
    OrNoBox(Box<GX>, Box<GX>),
    Seq2(Box<GX>, Box<GX>),
    Seq3(Box<GX>, Box<GX>, Box<GX>),
    Many(bool, Box<GX>),
    Surround(bool, Box<GX>, Box<GX>, Box<GX>),
    Delimited(bool, u8, Box<GX>, Box<GX>),
    Map(MapFn, Box<GX>),
    ToOption(Box<GX>),
}

impl GX {
    fn sx(&self) -> String {
        match self {
            GX::Lift(e) => format!("(lift {})", e.sx()),
            GX::Ref(i) => format!("(ref {})", i),
            GX::And(c, l, r) => format!("(and {} {} {})", cmb_s(*c), l.sx(), r.sx()),
            GX::Or2(a, b) => format!("(or2 {} {})", a.sx(), b.sx()),
            GX::OrNoBox(a, b) => format!("(orNoBox {} {})", a.sx(), b.sx()),
            GX::Seq2(a, b) => format!("(seq2 {} {})", a.sx(), b.sx()),
            GX::Seq3(a, b, c) => format!("(seq3 {} {} {})", a.sx(), b.sx(), c.sx()),
            GX::Many(an, e) => format!("(many {} {})", tf(*an), e.sx()),
            GX::Surround(md, l, m, r) => format!("(surround {} {} {} {})", tf(*md), l.sx(), m.sx(), r.sx()),
            GX::Delimited(am, te, e, d) => format!("(delimited {} {} {} {})", tf(*am), te, e.sx(), d.sx()),
            GX::Map(f, e) => format!("(map {} {})", mapfn_s(*f), e.sx()),
            GX::ToOption(e) => format!("(toOption {})", e.sx()),
        }
    }
    fn name(&self) -> &'static str {
        match self {
            GX::Lift(_) => "lift",
            GX::Ref(_) => "ref",
            GX::And(..) => "and",
            GX::Or2(..) => "or2",
            GX::OrNoBox(..) => "orNoBox",
            GX::Seq2(..) => "seq2",
            GX::Seq3(..) => "seq3",
            GX::Many(..) => "many",
            GX::Surround(..) => "surround",
            GX::Delimited(..) => "delimited",
            GX::Map(..) => "map",
            GX::ToOption(_) => "toOption",
        }
    }
    /// `gLeavesWB` of `Thm/C20Rec.lean`
    fn leaves_wb(&self) -> bool {
        match self {
            GX::Lift(e) => e.leaves_wb(),
            GX::Ref(_) => true,
            GX::And(_, a, b) | GX::Or2(a, b) | GX::OrNoBox(a, b) | GX::Seq2(a, b) | GX::Delimited(_, _, a, b) => {
                a.leaves_wb() && b.leaves_wb()
            }
            GX::Seq3(a, b, c) | GX::Surround(_, a, b, c) => a.leaves_wb() && b.leaves_wb() && c.leaves_wb(),
            GX::Many(_, e) | GX::Map(_, e) | GX::ToOption(e) => e.leaves_wb(),
        }
    }
}

/// harness-only wrapper around the parser a `lazy` factory returns: counts the nesting of descents, so that
/// unbounded recursion ends in the outcome `hang` instead of a stack overflow
struct DepthGuard(BP);
impl Parser<In, ()> for DepthGuard {
    type Output = V;
    type Error = E;
    fn parse(&mut self, input: &mut In) -> Result<V, E> {
        let d = DEPTH.with(|d| {
            let n = d.get() + 1;
            d.set(n);
            n
        });
        MAX_DEPTH_SEEN.with(|m| m.set(m.get().max(d.min(DEPTH_BUDGET))));
        if d > DEPTH_BUDGET {
            panic!("{}", HANG_MSG);
        }
        let r = self.0.parse(input);
        DEPTH.with(|d| d.set(d.get() - 1));
        r
    }
    fn set_context(&mut self, _ctx: &()) {}
}

/// every `Ref(i)` is the REAL `lazy(|| <parser of table entry i>)`: the parser of an entry is built when the
/// descent first reaches it, one level per recursive descent
fn build_g(tbl: &Rc<Vec<GX>>, g: &GX) -> BP {
    match g {
        GX::Lift(e) => build(e),
        GX::Ref(i) => {
            let tbl = tbl.clone();
            let i = *i;
            bx(lazy::<In, (), _, _>(move || {
                tick();
                DepthGuard(build_g(&tbl, &tbl[i]))
            }))
        }
        GX::And(c, l, r) => with_cmb!(*c, build_g(tbl, l), build_g(tbl, r), go_and),
        GX::Or2(a, b) => bx(OrParser::new(vec![Box::new(build_g(tbl, a)), Box::new(build_g(tbl, b))])),
        GX::OrNoBox(a, b) => bx(build_g(tbl, a).or(build_g(tbl, b))),
        GX::Seq2(a, b) => bx(seq2(build_g(tbl, a), build_g(tbl, b), |a, b| V::List(vec![a, b]))),
        GX::Seq3(a, b, c) => {
            bx(seq3(build_g(tbl, a), build_g(tbl, b), build_g(tbl, c), |a, b, c| V::List(vec![a, b, c])))
        }
        GX::Many(an, e) => {
            if *an {
                bx_list(build_g(tbl, e).zero_or_more())
            } else {
                bx_list(build_g(tbl, e).one_or_more())
            }
        }
        GX::Surround(md, l, m, r) => bx(surround(
            build_g(tbl, l),
            build_g(tbl, m),
            build_g(tbl, r),
            if *md { SurroundMode::Mandatory } else { SurroundMode::Optional },
        )),
        GX::Delimited(am, te, e, d) => {
            let te = E { code: *te, fatal: true };
            if *am {
                bx(build_g(tbl, e).delimited_by_allow_missing(build_g(tbl, d), te).map(|l: Vec<Option<V>>| {
                    V::List(
                        l.into_iter()
                            .map(|o| match o {
                                Some(v) => V::Some(Box::new(v)),
                                None => V::None,
                            })
                            .collect(),
                    )
                }))
            } else {
                bx_list(build_g(tbl, e).delimited_by(build_g(tbl, d), te))
            }
        }
        GX::Map(f, e) => build_map(*f, build_g(tbl, e)),
        GX::ToOption(e) => bx(build_g(tbl, e).to_option().map(|o| match o {
            Some(v) => V::Some(Box::new(v)),
            None => V::None,
        })),
    }
}

fn gb(g: &GX) -> Box<GX> {
    Box::new(g.clone())
}
fn lift1(k: u8) -> GX {
    GX::Lift(X::One(k))
}

/// hand-written tables: (name, table, alphabet, maxlen)
fn fixed_grammars() -> Vec<(&'static str, Vec<GX>, u8, usize)> {
    let r0 = GX::Ref(0);
    let r1 = GX::Ref(1);
    let pure = GX::Lift(X::Pure);
    vec![
        // P ::= '(' P ')' | eps   (a = '(', b = ')'); seq3: errors after '(' are fatal
        ("parens-seq3", vec![GX::Or2(gb(&GX::Seq3(gb(&lift1(0)), gb(&r0), gb(&lift1(1)))), gb(&pure))], 3, 6),
        // the same with and (undo) instead of seq3: P ::= '(' P ')' | eps, backtracking
        (
            "parens-and",
            vec![GX::Or2(
                gb(&GX::And(Cmb::Tuple, gb(&lift1(0)), gb(&GX::And(Cmb::Left, gb(&r0), gb(&lift1(1)))))),
                gb(&pure),
            )],
            3,
            6,
        ),
        // P ::= (mandatory surround) '(' P? ')'
        ("parens-surround", vec![GX::Surround(true, gb(&lift1(0)), gb(&GX::ToOption(gb(&r0))), gb(&lift1(1)))], 3, 6),
        // E ::= T ('+' E)? ; T ::= 'a' | '(' E ')'   (a, b = '+', c = '(', d = ')'): right-recursive
        (
            "expr",
            vec![
                GX::And(
                    Cmb::Tuple,
                    gb(&r1),
                    gb(&GX::ToOption(gb(&GX::And(Cmb::Right, gb(&lift1(1)), gb(&r0))))),
                ),
                GX::Or2(gb(&lift1(0)), gb(&GX::Surround(true, gb(&lift1(2)), gb(&r0), gb(&lift1(3))))),
            ],
            4,
            5,
        ),
        // L ::= '(' (L (',' L)*)? ')'   lists of lists (a = '(', b = ')', c = ',')
        (
            "lists",
            vec![GX::Surround(
                true,
                gb(&lift1(0)),
                gb(&GX::ToOption(gb(&GX::Delimited(false, 9, gb(&r0), gb(&lift1(2)))))),
                gb(&lift1(1)),
            )],
            3,
            6,
        ),
        // A ::= a A | eps, with the boxed and the two-way choice; A ::= a+ through many over a reference
        ("right-or2", vec![GX::Or2(gb(&GX::And(Cmb::Tuple, gb(&lift1(0)), gb(&r0))), gb(&pure))], 3, 6),
        ("right-orNoBox", vec![GX::OrNoBox(gb(&GX::And(Cmb::StrCat, gb(&lift1(0)), gb(&r0))), gb(&GX::Lift(X::OneStr(1))))], 3, 6),
        ("many-ref", vec![GX::Many(true, gb(&r1)), GX::Or2(gb(&lift1(0)), gb(&GX::Seq2(gb(&lift1(1)), gb(&r0))))], 3, 5),
        // left recursion: A ::= A a ; A ::= A? a ; A ::= B a, B ::= A b | b ; hidden behind a nullable prefix
        ("left-direct", vec![GX::And(Cmb::Tuple, gb(&r0), gb(&lift1(0)))], 3, 3),
        ("left-option", vec![GX::And(Cmb::Tuple, gb(&GX::ToOption(gb(&r0))), gb(&lift1(0)))], 3, 3),
        (
            "left-mutual",
            vec![
                GX::And(Cmb::Tuple, gb(&r1), gb(&lift1(0))),
                GX::Or2(gb(&GX::And(Cmb::Tuple, gb(&r0), gb(&lift1(1)))), gb(&lift1(1))),
            ],
            3,
            3,
        ),
        ("left-hidden", vec![GX::And(Cmb::Tuple, gb(&pure), gb(&r0))], 3, 3),
        // left recursion only on the second alternative: answers when the first alternative does
        ("left-second-alt", vec![GX::Or2(gb(&lift1(0)), gb(&GX::And(Cmb::Tuple, gb(&r0), gb(&lift1(1)))))], 3, 4),
    ]
}

fn random_gx(rng: &mut Rng, depth: usize, n: usize) -> GX {
    if depth <= 1 || rng.chance(1, 6) {
        return if rng.chance(2, 5) {
            GX::Ref(rng.below(n as u64) as usize)
        } else {
            GX::Lift(match rng.below(9) {
                0 | 1 => X::One(0),
                2 => X::One(1),
                3 => X::One(2),
                4 => X::Any,
                5 => X::Pure,
                6 => X::FailSoft(3),
                7 => X::FailFatal(4),
                _ => {
                    if rng.chance(1, 4) { X::EatSoft } else { X::PeekAny }
                }
            })
        };
    }
    let d = depth - 1;
    let sub = |rng: &mut Rng| Box::new(random_gx(rng, d, n));
    match rng.below(14) {
        0 | 1 => GX::And(*rng.pick(&ALL_CMB), sub(rng), sub(rng)),
        2 | 3 => GX::Or2(sub(rng), sub(rng)),
        4 => GX::OrNoBox(sub(rng), sub(rng)),
        5 => GX::Seq2(sub(rng), sub(rng)),
        6 => GX::Seq3(sub(rng), sub(rng), sub(rng)),
        7 | 8 => GX::Many(rng.chance(1, 2), sub(rng)),
        9 => GX::Surround(rng.chance(1, 2), sub(rng), sub(rng), sub(rng)),
        10 => GX::Delimited(rng.chance(1, 2), 9, sub(rng), sub(rng)),
        11 => GX::Map(*rng.pick(&ALL_MAPFN), sub(rng)),
        _ => GX::ToOption(sub(rng)),
    }
}

fn grammar_layer(ctx: &mut Ctx, rng: &mut Rng, thorough: bool) {
    struct GJob {
        name: String,
        tbl: Vec<GX>,
        k: u8,
        maxlen: usize,
        start: usize,
    }
    let mut jobs: Vec<GJob> = vec![];
    for (name, tbl, k, maxlen) in fixed_grammars() {
        jobs.push(GJob { name: name.to_string(), tbl: tbl.clone(), k, maxlen, start: 0 });
        jobs.push(GJob { name: name.to_string(), tbl, k, maxlen: maxlen.min(4), start: 1 });
    }
    let n_fixed = jobs.len();
    let n_rnd = if thorough { 6000 } else { 1200 };
    for i in 0..n_rnd {
        let n = 1 + rng.below(3) as usize;
        let tbl: Vec<GX> = (0..n).map(|_| random_gx(rng, 3, n)).collect();
        jobs.push(GJob { name: "rnd".into(), tbl, k: 3, maxlen: if thorough { 5 } else { 4 }, start: i % 2 });
    }
    for chunk in jobs.chunks(200) {
        let reqs: Vec<String> = chunk
            .iter()
            .map(|j| {
                format!(
                    "(pcg.runall ({}) (ref 0) {} {} {})",
                    j.tbl.iter().map(|g| g.sx()).collect::<Vec<_>>().join(" "),
                    j.k,
                    j.maxlen,
                    j.start
                )
            })
            .collect();
        let answers = ask(&reqs);
        for ((j, ans), req) in chunk.iter().zip(answers.iter()).zip(reqs.iter()) {
            let inputs = all_inputs(j.k, j.maxlen);
            let model: Vec<&str> = match split_top(ans) {
                Some(v) if v.len() == inputs.len() => v,
                _ => {
                    ctx.rep.fail(Failure {
                        kind: Kind::ModelVsImpl,
                        signature: "driver:bad-answer".into(),
                        input: req.clone(),
                        implementation: "-".into(),
                        expected: ans.chars().take(200).collect(),
                        note: "the driver did not answer one result per input".into(),
                    });
                    continue;
                }
            };
            let tbl = Rc::new(j.tbl.clone());
            let start_g = GX::Ref(0);
            let wb_expected = j.tbl.iter().all(|g| g.leaves_wb());
            let mut top = build_g(&tbl, &start_g);
            ctx.rep.bump(&format!("rec.table.{}", j.name));
            ctx.rep.bump(&format!("rec.entries{}", j.tbl.len()));
            ctx.rep.bump(&format!("rec.top.{}", j.tbl[0].name()));
            ctx.rep.bump(if wb_expected { "rec.gLeavesWB" } else { "rec.ill-behaved-part" });
            for (idx, data) in inputs.iter().enumerate() {
                if j.start > data.len() {
                    continue;
                }
                // the state of a `lazy` is the parser it built: a fresh one per run keeps the descent count exact
                let got = run_real(&mut top, data, j.start);
                if matches!(got, O::Hang | O::Panic(_)) {
                    top = build_g(&tbl, &start_g);
                }
                let got_s = got.canon();
                let end = match &got {
                    O::Ok(_, q) | O::Soft(_, q) | O::Fatal(_, q) => *q as i64,
                    _ => -1,
                };
                let tbl_s = j.tbl.iter().map(|g| g.sx()).collect::<Vec<_>>().join(" ");
                ctx.rep.case(Some(format!("G|{}|{}|{}|{}", tbl_s, j.start, got.kind(), end)));
                ctx.rep.bump(&format!("rec.outcome.{}", got.kind()));
                let case_input = format!("table=({}) start-expr=(ref 0) input={:?} start={}", tbl_s, data, j.start);
                if model[idx] != got_s {
                    ctx.rep.fail(Failure {
                        kind: Kind::ModelVsImpl,
                        signature: format!("modelrec:{}", j.tbl[0].name()),
                        input: case_input.clone(),
                        implementation: got_s.clone(),
                        expected: model[idx].to_string(),
                        note: "RbModel.PcRec.runG (descent fuel driverFuel) disagrees with the recursive parser built with the real lazy".into(),
                    });
                }
                if let O::Ok(_, q) | O::Soft(_, q) | O::Fatal(_, q) = &got {
                    let mut violate = |sig: String, expected: String, note: &str| {
                        ctx.rep.fail(Failure {
                            kind: Kind::ImplVsProperty,
                            signature: sig,
                            input: case_input.clone(),
                            implementation: got_s.clone(),
                            expected,
                            note: note.into(),
                        });
                    };
                    if *q > data.len() || *q < j.start {
                        violate(
                            format!("reccontract:position:{}", j.tbl[0].name()),
                            format!("{} <= position <= {}", j.start, data.len()),
                            "a parse never moves the position backwards or past the end (theorem runG_mono)",
                        );
                    }
                    if wb_expected && matches!(got, O::Soft(..)) && *q != j.start {
                        violate(
                            format!("reccontract:soft-not-restored:{}", j.tbl[0].name()),
                            format!("soft failure at position {}", j.start),
                            "a soft failure leaves the input where it started, through lazy recursion (theorem runG_wb)",
                        );
                    }
                }
                if let O::Panic(m) = &got {
                    ctx.rep.fail(Failure {
                        kind: Kind::ImplVsProperty,
                        signature: format!("recpanic:{}", j.tbl[0].name()),
                        input: case_input.clone(),
                        implementation: got_s.clone(),
                        expected: "no panic".into(),
                        note: format!("the library panicked: {}", m),
                    });
                }
                if idx == 30 && j.name != "rnd" && j.start == 0 {
                    ctx.rep.sample(J::s(format!("grammar {} on {:?} -> {}", j.name, data, got_s)));
                }
            }
        }
    }
    ctx.rep.exhaustive_parts.push(format!(
        "recursive grammars through the real lazy: {} hand-written tables (nested parentheses x3, a right-recursive expression grammar over 4 letters, lists of lists, right recursion x2, many over a reference, five left-recursive ones) x all inputs up to length 6 (expression grammar: 1365 inputs of length <= 5 over 4 letters) from positions 0 and 1",
        n_fixed / 2
    ));
    ctx.rep.notes.push(format!(
        "recursive grammars: {} seeded random tables of 1-3 entries (depth <= 3, references to random entries) x all inputs of length <= {}; unbounded recursion of the real parser is observed as `more than {} nested lazy descents` (deepest terminating run: {})",
        n_rnd,
        if thorough { 5 } else { 4 },
        DEPTH_BUDGET,
        MAX_DEPTH_SEEN.with(|m| m.get())
    ));
}

fn check_job(ctx: &mut Ctx, j: &Job, answer: &str) {
    let x = &j.x;
    let xs = x.sx();
    let inputs = ctx.inputs[j.maxlen].clone();
    let model: Vec<&str> = match split_top(answer) {
        Some(v) if v.len() == inputs.len() => v,
        _ => {
            ctx.rep.fail(Failure {
                kind: Kind::ModelVsImpl,
                signature: "driver:bad-answer".into(),
                input: format!("(pc.runall {} 3 {} {})", xs, j.maxlen, j.start),
                implementation: "-".into(),
                expected: answer.chars().take(200).collect(),
                note: "the driver did not answer one result per input".into(),
            });
            return;
        }
    };
    let mut top = build(x);
    let kids: Vec<X> = x.children().into_iter().cloned().collect();
    let mut kid_parsers: Vec<BP> = kids.iter().map(build).collect();
    let wb_expected = x.leaves_wb();
    ctx.rep.bump(&format!("{}.top.{}", j.layer, x.name()));
    ctx.rep.bump(&format!("{}.depth{}", j.layer, x.depth()));
    ctx.rep.bump(&format!("{}.{}", j.layer, if wb_expected { "leavesWB" } else { "ill-behaved-part" }));
    for (idx, data) in inputs.iter().enumerate() {
        if j.start > data.len() {
            continue;
        }
        let got = run_real(&mut top, data, j.start);
        if matches!(got, O::Hang | O::Panic(_)) {
            top = build(x); // do not reuse a parser that was unwound
        }
        let got_s = got.canon();
        let case_input = || format!("expr={} input={:?} start={}", xs, data, j.start);
        let end = match &got {
            O::Ok(_, q) | O::Soft(_, q) | O::Fatal(_, q) => *q as i64,
            _ => -1,
        };
        // a case is trivial when the input is empty and the expression is a leaf
        ctx.rep.case(if kids.is_empty() && data.is_empty() {
            None
        } else {
            Some(format!("{}|{}|{}|{}", xs, j.start, got.kind(), end))
        });
        ctx.rep.bump(&format!("outcome.{}", got.kind()));
        ctx.rep.bump(&format!("input.len{}", data.len()));

        // ---- model vs implementation ------------------------------------------------------------
        if model[idx] != got_s {
            ctx.rep.fail(Failure {
                kind: Kind::ModelVsImpl,
                signature: format!("model:{}", x.name()),
                input: case_input(),
                implementation: got_s.clone(),
                expected: model[idx].to_string(),
                note: "RbModel.Pc.run disagrees with the real combinator (result, position afterwards)".into(),
            });
        }

        // ---- implementation vs the property -----------------------------------------------------
        let len = data.len();
        let mut violate = |sig: String, expected: String, note: &str| {
            ctx.rep.fail(Failure {
                kind: Kind::ImplVsProperty,
                signature: sig,
                input: case_input(),
                implementation: got_s.clone(),
                expected,
                note: note.into(),
            });
        };
        match &got {
            O::Panic(m) => violate(format!("panic:{}", x.name()), "no panic".into(), &format!("the library panicked: {}", m)),
            O::Hang => {}
            O::Ok(_, q) | O::Soft(_, q) | O::Fatal(_, q) => {
                if *q > len {
                    violate(format!("contract:pos>len:{}", x.name()), format!("position <= {}", len), "position past the end of the input");
                }
                if *q < j.start {
                    violate(
                        format!("contract:moved-backwards:{}", x.name()),
                        format!("position >= {}", j.start),
                        "a parse never moves the position backwards (theorem run_mono)",
                    );
                }
                if wb_expected {
                    if let O::Soft(_, q) = &got {
                        if *q != j.start {
                            violate(
                                format!("contract:soft-not-restored:{}", x.name()),
                                format!("soft failure at position {}", j.start),
                                "a soft failure leaves the input where it started (theorem run_wb)",
                            );
                        }
                    }
                }
            }
        }
        // the combinator's documented contract over the real sub-parsers run separately
        let mut unwound: Vec<usize> = vec![];
        let expected = {
            let kp = &mut kid_parsers;
            let uw = &mut unwound;
            let mut ch = |i: usize, pos: usize| -> O {
                let o = run_real(&mut kp[i], data, pos);
                if matches!(o, O::Hang | O::Panic(_)) {
                    uw.push(i);
                }
                o
            };
            spec(x, data, j.start, &mut ch)
        };
        for i in unwound {
            kid_parsers[i] = build(&kids[i]);
        }
        if expected != got && !matches!(expected, O::Panic(_)) {
            let aspect = match (&expected, &got) {
                (O::Fatal(..), O::Ok(..)) | (O::Fatal(..), O::Soft(..)) => "fatal-downgraded",
                (O::Soft(..), O::Fatal(..)) => "soft-upgraded",
                (O::Soft(_, a), O::Soft(_, c)) if a != c => "soft-position",
                (O::Ok(_, a), O::Ok(_, c)) if a != c => "ok-position",
                (O::Ok(..), O::Ok(..)) => "ok-value",
                (O::Hang, _) | (_, O::Hang) => "termination",
                _ => "result",
            };
            violate(
                format!("spec:{}:{}", x.name(), aspect),
                expected.canon(),
                "the documented contract of the top-level combinator, evaluated over the real results of its sub-parsers run separately",
            );
        }
        if idx == 40 && ctx.rep.samples.len() < 12 && !kids.is_empty() {
            ctx.rep.sample(J::s(format!("{} on {:?} from {} -> {}", xs, data, j.start, got_s)));
        }
    }
}

fn main() {
    std::panic::set_hook(Box::new(|_| {}));
    let mut rng = Rng::from_env();
    let rep = Report::new(
        "C20",
        "parser expressions (serialised; real combinator built from the public rusty_pc API, model interpreted by the \
         Lean driver) x input words over a three-letter alphabet; compared: (result, position afterwards). Layers: \
         [d2] EVERY expression of depth <= 2 (all leaves; every constructor and parameter variant over the full leaf \
         set, ternary constructors over the 6 core leaves) x EVERY input of length <= 6 from position 0, and of length \
         <= 4 from position 1; [d3r] EVERY depth-3 expression of a reduced grammar (4 leaves, one variant per unary/binary \
         combinator) x every input of length <= 3 (quick: a seeded sample of them; thorough: all, length <= 4); [rnd] seeded random \
         expressions of depth 3, 4 (thorough: up to 5) x every input of length <= 5 (thorough: 6) from positions 0 and 1. \
         [val] the value-combining layer: every new mapper / many-combiner over leaves and value-shaped sub-parsers, `and` / \
         `then_with_in_context` with each of the 12 combiners over all pairs of 11 value-shaped sub-parsers x every input of \
         length <= 5 (values compared); [tok] token.rs on 4 kinds x all texts of length <= 3, panics included; [rec] recursive \
         grammars built with the real `lazy` (13 hand-written tables, seeded random tables of 1-3 entries) x every input up to \
         length 6 / 4, model RbModel.PcRec. \
         class = (expression, start, outcome kind, end position); a leaf on the empty input is trivial.",
    );
    let thorough = rep.is_thorough();
    let mut ctx = Ctx { rep, inputs: (0..=6).map(|m| all_inputs(3, m)).collect(), t_model: 0.0, t_real: 0.0 };

    // ---- layer d2: bounded-exhaustive ---------------------------------------------------------
    let mut d2: Vec<X> = leaves_full();
    d2.extend([X::One(2), X::OneOf(0b001), X::OneOf(0b111), X::ManyStr(1)]);
    d2.extend([X::OneStr(0), X::OneStr(2)]);
    for m in [MCmb::Vec, MCmb::Str, MCmb::Ignore] {
        d2.extend([X::ManyStrWith(m, 0), X::ManyStrWith(m, 1)]);
    }
    d2.extend(depth2_all());
    // seq4..seq6 are the same macro as seq2/seq3: a targeted set over the core leaves in every position
    let core = leaves_core();
    for n in 4..=6usize {
        for pos in 0..n {
            for l in &core {
                let mut v: Vec<X> = vec![X::Any; n];
                v[pos] = l.clone();
                d2.push(X::Seq(v));
            }
        }
    }
    let n_d2 = d2.len();
    let mut jobs: Vec<Job> = vec![];
    for x in &d2 {
        jobs.push(Job { x: x.clone(), maxlen: 6, start: 0, layer: "d2" });
        jobs.push(Job { x: x.clone(), maxlen: 4, start: 1, layer: "d2" });
    }
    process(&mut ctx, &jobs);
    eprintln!("d2: model {:.1}s real {:.1}s", ctx.t_model, ctx.t_real);
    ctx.rep.exhaustive_parts.push(format!(
        "all {} parser expressions of depth <= 2 (every constructor/variant; ternaries over 6 core leaves; seq4-6 targeted) x all 1093 inputs of length <= 6 over 3 letters from position 0, and all 121 inputs of length <= 4 from position 1",
        n_d2
    ));

    // ---- layer val: the value-combining layer ------------------------------------------------------
    let vl = val_leaves();
    let mut val: Vec<X> = vec![];
    for e in &vl {
        val.extend(unary_val_over(e));
    }
    for e in &leaves_full() {
        val.extend(unary_val_over(e));
    }
    for l in &vl {
        for r in &vl {
            val.extend(binary_val_over(l, r));
        }
    }
    let n_val = val.len();
    let mut jobs: Vec<Job> = vec![];
    for x in val {
        jobs.push(Job { x: x.clone(), maxlen: 5, start: 0, layer: "val" });
        jobs.push(Job { x, maxlen: 3, start: 1, layer: "val" });
    }
    process(&mut ctx, &jobs);
    ctx.rep.exhaustive_parts.push(format!(
        "value layer: all {} expressions `new mapper (charStr, mkTok, tokKind, tokText, tokChar, tokShow) or many-combiner (Vec, String over chars, String over tokens, ignoring; many / many_allow_none) over a leaf or a value-shaped sub-parser` and `and / then_with_in_context with each of the 12 combiners (tuple, keep-left, keep-right, ignoring, closure, VecCombiner x2, StringCombiner x5) over two of 11 value-shaped sub-parsers` x all 364 inputs of length <= 5 from position 0 and all 40 of length <= 3 from position 1; values compared",
        n_val
    ));
    token_layer(&mut ctx);
    grammar_layer(&mut ctx, &mut rng, thorough);

    // ---- layer d3r: depth 3 over a reduced grammar ----------------------------------------------
    let base = depth_le2_reduced();
    let mut d3: Vec<X> = vec![];
    for e in &base {
        if e.depth() == 2 {
            d3.extend(unary_over(e, false));
        }
    }
    for l in &base {
        for r in &base {
            if l.depth().max(r.depth()) == 2 {
                d3.extend(binary_over(l, r, false));
            }
        }
    }
    let total_d3 = d3.len();
    let (take, maxlen) = if thorough { (total_d3, 4) } else { (20_000.min(total_d3), 3) };
    let mut jobs: Vec<Job> = vec![];
    if take == total_d3 {
        for x in d3 {
            jobs.push(Job { x, maxlen, start: 0, layer: "d3r" });
        }
        ctx.rep.exhaustive_parts.push(format!(
            "all {} depth-3 expressions of the reduced grammar (leaves one/failFatal/eatSoft/pure, 14 unary and 8 binary combinators) x all inputs of length <= {}",
            total_d3, maxlen
        ));
    } else {
        for _ in 0..take {
            let i = rng.below(d3.len() as u64) as usize;
            jobs.push(Job { x: d3[i].clone(), maxlen, start: 0, layer: "d3r" });
        }
        ctx.rep.notes.push(format!(
            "quick tier: {} of the {} depth-3 expressions of the reduced grammar were sampled (thorough runs all of them)",
            take, total_d3
        ));
    }
    process(&mut ctx, &jobs);

    // ---- layer rnd: random expressions of depth 3..5 over the full grammar -----------------------
    let plan: Vec<(usize, usize)> =
        if thorough { vec![(3, 20_000), (4, 20_000), (5, 5_000)] } else { vec![(3, 5000), (4, 5000)] };
    let maxlen = if thorough { 6 } else { 5 };
    let mut jobs: Vec<Job> = vec![];
    for (depth, n) in plan {
        for k in 0..n {
            let x = random_expr(&mut rng, depth);
            jobs.push(Job { x, maxlen, start: k % 2, layer: "rnd" });
        }
    }
    process(&mut ctx, &jobs);
    ctx.rep.notes.push(format!(
        "step budget per run {}; the longest terminating run took {} steps",
        TICK_BUDGET,
        MAX_TICKS.with(|m| m.get())
    ));

    // ---- layer ctx: context data flow (RbModel.PcCtx) --------------------------------------------
    let lv = c_leaves();
    let mut cx: Vec<CX> = lv.clone();
    for c in &lv {
        cx.extend(c_unary(c));
    }
    for l in &lv {
        for r in &lv {
            cx.extend(c_binary(l, r));
        }
    }
    let n_cx = cx.len();
    let mut cjobs: Vec<CJob> = vec![];
    for x in &cx {
        for top in [None, Some(0u8), Some(1u8)] {
            cjobs.push(CJob { x: x.clone(), top, maxlen: 4, start: 0, layer: "ctx2" });
        }
    }
    // depth 3, systematically: every unary context combinator over every depth-2 expression (all of them), and the
    // binary ones with a depth-2 expression on one side and a leaf on the other (quick: every 10th, thorough: all)
    let d2: Vec<CX> = cx.iter().filter(|x| x.depth() == 2).cloned().collect();
    let mut d3: Vec<CX> = vec![];
    for c in &d2 {
        d3.extend(c_unary(c));
    }
    let n_d3_unary = d3.len();
    let mut d3b: Vec<CX> = vec![];
    for c in &d2 {
        for l in &lv {
            d3b.extend(c_binary(c, l));
            d3b.extend(c_binary(l, c));
        }
    }
    let n_d3_binary_all = d3b.len();
    let stride = if thorough { 1 } else { 10 };
    let off = (rng.below(stride as u64)) as usize;
    let d3b: Vec<CX> = d3b.into_iter().skip(off).step_by(stride).collect();
    let n_d3_binary = d3b.len();
    for x in d3.iter().chain(d3b.iter()) {
        for top in [None, Some(0u8), Some(1u8)] {
            cjobs.push(CJob { x: x.clone(), top, maxlen: 3, start: 0, layer: "ctx3" });
        }
    }
    let n_rnd = if thorough { 30_000 } else { 2_000 };
    for k in 0..n_rnd {
        let x = random_cexpr(&mut rng, 3 + (k % 2));
        let top = match rng.below(3) {
            0 => None,
            1 => Some(0u8),
            _ => Some(1u8),
        };
        cjobs.push(CJob { x, top, maxlen: 4, start: k % 2, layer: "ctxrnd" });
    }
    process_c(&mut ctx, &cjobs);
    ctx.rep.exhaustive_parts.push(format!(
        "context layer: all {} context expressions of depth <= 2 (8 leaves; map_ctx x3, no_context, many_ctx x2, map; then_with x2, and, OrParser, seq2) x top context none/0/1 x all 121 inputs of length <= 4",
        n_cx
    ));
    ctx.rep.exhaustive_parts.push(format!(
        "context layer, depth 3: all {} expressions `unary context combinator over a depth-2 context expression` and {} of the {} `binary combinator with a depth-2 expression on one side and a leaf on the other` x top context none/0/1 x all 40 inputs of length <= 3; on every real result the contract of runTop_mono / runTop_wb is evaluated directly",
        n_d3_unary, n_d3_binary, n_d3_binary_all
    ));
    eprintln!("max ticks of a terminating run: {}", MAX_TICKS.with(|m| m.get()));
    eprintln!("total: model {:.1}s real {:.1}s", ctx.t_model, ctx.t_real);
    ctx.rep.notes.push(
        "full depth-3 enumeration over the whole grammar is combinatorially out of reach (>10^9 expressions with the ternary \
         constructors); depth 3 is covered exhaustively for the reduced grammar and by seeded sampling for the full one"
            .into(),
    );
    ctx.rep.notes.push(
        "non-termination: `many`/`many_ctx`/`delimited_by` over a sub-parser that succeeds without consuming loop forever in the real \
         code; the harness observes this through a step budget on the input (outcome `hang`), the model answers `hang` (theorem many_nonprogress_hangs)"
            .into(),
    );
    ctx.rep.finish();
}
