//! C02 — loops and branches mean the same wherever they are nested or however written.
//!
//! Metamorphic check of the implementation against itself: every accepted program (generated core
//! programs + every program text of the repository's own tests and fixtures the block segmenter can
//! handle) x every rewrite site x every rewrite rule. The rewritten text must be accepted by the real
//! front end and must run (through the in-memory hook) to the same stdout bytes and the same outcome
//! kind (normal / error code; the position of an error may differ between spellings).
//! For core programs the Lean driver applies the model's rewrite at the same site and the model's
//! before/after runs (`RbModel.Ref`) are compared with the real before/after runs.

use std::collections::HashMap;

use rb_harness::corpus;
use rb_harness::driver::ask;
use rb_harness::gen_prog::{generate, Opts};
use rb_harness::hdr_calls;
use rb_harness::json::J;
use rb_harness::refrun::{core_ast, parse_ref_answer, run_real, Observed};
use rb_harness::report::{Failure, Kind, Report};
use rb_harness::rng::Rng;
use rusty_parser::{
    CaseBlock, Expression, ExpressionPos, ExpressionType, GlobalStatement, HasExpressionType, Operator, Statement,
    Statements, TypeQualifier, UnaryOperator,
};

const FUEL: u64 = 4000;
const BUDGET: u64 = 400_000;

// ---------------------------------------------------------------------------------------------
// a small statement tree over program text (one statement per line, block keywords on their own lines)

#[derive(Clone, Debug)]
enum Node {
    Line(String),
    If { row: usize, arms: Vec<(String, Vec<Node>)>, els: Option<Vec<Node>> },
    For { row: usize, var: String, lo: String, hi: String, step: Option<String>, body: Vec<Node>, next: String },
    While { row: usize, cond: String, body: Vec<Node> },
    /// `cond`: (until, text); `top`: the condition follows DO (else LOOP)
    Do { row: usize, top: bool, cond: Option<(bool, String)>, body: Vec<Node> },
    Select { row: usize, expr: String, cases: Vec<(String, Vec<Node>)>, els: Option<Vec<Node>> },
}

/// the words of a line outside string literals, upper-cased, with their byte offsets
fn words(line: &str) -> Vec<(usize, String)> {
    let mut out = vec![];
    let mut in_str = false;
    let mut cur = String::new();
    let mut start = 0;
    for (i, c) in line.char_indices() {
        if in_str {
            if c == '"' {
                in_str = false;
            }
            continue;
        }
        if c == '"' {
            in_str = true;
            if !cur.is_empty() {
                out.push((start, std::mem::take(&mut cur)));
            }
            continue;
        }
        if c.is_ascii_alphanumeric() || c == '_' || c == '.' {
            if cur.is_empty() {
                start = i;
            }
            cur.push(c.to_ascii_uppercase());
        } else if !cur.is_empty() {
            out.push((start, std::mem::take(&mut cur)));
        }
    }
    if !cur.is_empty() {
        out.push((start, cur));
    }
    out
}

fn has_outside_strings(line: &str, ch: char) -> bool {
    let mut in_str = false;
    for c in line.chars() {
        if c == '"' {
            in_str = !in_str;
        } else if c == ch && !in_str {
            return true;
        }
    }
    false
}

/// splits at top-level commas (outside strings and parentheses)
fn split_commas(s: &str) -> Vec<String> {
    let mut out = vec![];
    let mut cur = String::new();
    let mut depth = 0;
    let mut in_str = false;
    for c in s.chars() {
        if in_str {
            cur.push(c);
            if c == '"' {
                in_str = false;
            }
            continue;
        }
        match c {
            '"' => {
                in_str = true;
                cur.push(c);
            }
            '(' => {
                depth += 1;
                cur.push(c);
            }
            ')' => {
                depth -= 1;
                cur.push(c);
            }
            ',' if depth == 0 => out.push(std::mem::take(&mut cur).trim().to_owned()),
            _ => cur.push(c),
        }
    }
    out.push(cur.trim().to_owned());
    out
}


struct Seg<'a> {
    lines: Vec<&'a str>,
    i: usize,
}

enum Stop {
    Eof,
    /// a closing / separating keyword line (index of the line, its words)
    Key(usize, Vec<(usize, String)>),
}

impl<'a> Seg<'a> {
    /// parses statements until a line that closes or separates the enclosing block
    fn block(&mut self) -> Option<(Vec<Node>, Stop)> {
        let mut out = vec![];
        loop {
            if self.i >= self.lines.len() {
                return Some((out, Stop::Eof));
            }
            let idx = self.i;
            let raw = self.lines[idx];
            let line = raw.trim();
            self.i += 1;
            let w = words(line);
            let first = w.first().map(|x| x.1.as_str()).unwrap_or("");
            let second = w.get(1).map(|x| x.1.as_str()).unwrap_or("");
            let last = w.last().map(|x| x.1.as_str()).unwrap_or("");
            let comment = line.starts_with('\'') || first == "REM";
            if comment || w.is_empty() {
                out.push(Node::Line(line.to_owned()));
                continue;
            }
            // anything we cannot segment safely: comments after code, several statements with block keywords
            let has_colon = has_outside_strings(line, ':');
            let has_quote = has_outside_strings(line, '\'');
            let is_close = matches!(first, "NEXT" | "WEND" | "LOOP" | "ELSEIF" | "ELSE" | "CASE")
                || (first == "END" && (second == "IF" || second == "SELECT"))
                || first == "ENDIF";
            let is_open = matches!(first, "FOR" | "WHILE" | "DO")
                || (first == "SELECT" && second == "CASE")
                || (first == "IF" && last == "THEN");
            if is_close || is_open {
                if has_colon || has_quote {
                    return None;
                }
            } else {
                // an opaque line must not hide block keywords (multi-statement lines, single-line IF with loops)
                let inner: Vec<&str> = w.iter().skip(1).map(|x| x.1.as_str()).collect();
                let single_if = first == "IF";
                for k in inner.iter() {
                    if matches!(*k, "FOR" | "NEXT" | "WHILE" | "WEND" | "DO" | "LOOP" | "SELECT" | "CASE" | "ELSEIF" | "ENDIF") {
                        // `OPEN f FOR INPUT`, `LINE INPUT`, `ON ERROR`, `EXIT DO` are not ours to judge: give up
                        return None;
                    }
                }
                if !single_if && inner.iter().any(|k| *k == "THEN") {
                    return None;
                }
                if first == "END" && (second == "IF" || second == "SELECT") {
                    return None;
                }
                out.push(Node::Line(line.to_owned()));
                continue;
            }
            if is_close {
                return Some((out, Stop::Key(idx, w)));
            }
            let row = idx + 1;
            match first {
                "IF" => {
                    let then_at = w.last().unwrap().0;
                    let cond = line[2..then_at].trim().to_owned();
                    let mut arms = vec![];
                    let mut els = None;
                    let mut cur_cond = cond;
                    loop {
                        let (b, stop) = self.block()?;
                        let Stop::Key(k, kw) = stop else { return None };
                        let kl = self.lines[k].trim();
                        let k0 = kw[0].1.as_str();
                        let k1 = kw.get(1).map(|x| x.1.as_str()).unwrap_or("");
                        if k0 == "ELSEIF" && kw.last().unwrap().1 == "THEN" && els.is_none() {
                            arms.push((cur_cond, b));
                            cur_cond = kl[6..kw.last().unwrap().0].trim().to_owned();
                        } else if k0 == "ELSE" && kw.len() == 1 && els.is_none() {
                            arms.push((cur_cond.clone(), b));
                            let (e, stop2) = self.block()?;
                            let Stop::Key(_, kw2) = stop2 else { return None };
                            let e0 = kw2[0].1.as_str();
                            let e1 = kw2.get(1).map(|x| x.1.as_str()).unwrap_or("");
                            if !((e0 == "END" && e1 == "IF" && kw2.len() == 2) || (e0 == "ENDIF" && kw2.len() == 1)) {
                                return None;
                            }
                            els = Some(e);
                            break;
                        } else if (k0 == "END" && k1 == "IF" && kw.len() == 2) || (k0 == "ENDIF" && kw.len() == 1) {
                            arms.push((cur_cond.clone(), b));
                            break;
                        } else {
                            return None;
                        }
                    }
                    out.push(Node::If { row, arms, els });
                }
                "FOR" => {
                    let eq = line.find('=')?;
                    let var = line[3..eq].trim().to_owned();
                    let to_at = w.iter().find(|x| x.1 == "TO" && x.0 > eq)?.0;
                    let step_at = w.iter().find(|x| x.1 == "STEP" && x.0 > to_at).map(|x| x.0);
                    let lo = line[eq + 1..to_at].trim().to_owned();
                    let (hi, step) = match step_at {
                        Some(s) => (line[to_at + 2..s].trim().to_owned(), Some(line[s + 4..].trim().to_owned())),
                        None => (line[to_at + 2..].trim().to_owned(), None),
                    };
                    if var.is_empty() || lo.is_empty() || hi.is_empty() || var.contains(' ') || var.contains('(') {
                        return None;
                    }
                    let (body, stop) = self.block()?;
                    let Stop::Key(k, kw) = stop else { return None };
                    if kw[0].1 != "NEXT" || has_outside_strings(self.lines[k], ',') {
                        return None;
                    }
                    let next = self.lines[k].trim().to_owned();
                    out.push(Node::For { row, var, lo, hi, step, body, next });
                }
                "WHILE" => {
                    let cond = line[5..].trim().to_owned();
                    let (body, stop) = self.block()?;
                    let Stop::Key(_, kw) = stop else { return None };
                    if kw[0].1 != "WEND" || kw.len() != 1 {
                        return None;
                    }
                    out.push(Node::While { row, cond, body });
                }
                "DO" => {
                    let top_cond = if w.len() > 1 {
                        match second {
                            "WHILE" => Some((false, line[w[1].0 + 5..].trim().to_owned())),
                            "UNTIL" => Some((true, line[w[1].0 + 5..].trim().to_owned())),
                            _ => return None,
                        }
                    } else {
                        None
                    };
                    let (body, stop) = self.block()?;
                    let Stop::Key(k, kw) = stop else { return None };
                    if kw[0].1 != "LOOP" {
                        return None;
                    }
                    let kl = self.lines[k].trim();
                    let bottom_cond = if kw.len() > 1 {
                        match kw[1].1.as_str() {
                            "WHILE" => Some((false, kl[kw[1].0 + 5..].trim().to_owned())),
                            "UNTIL" => Some((true, kl[kw[1].0 + 5..].trim().to_owned())),
                            _ => return None,
                        }
                    } else {
                        None
                    };
                    match (top_cond, bottom_cond) {
                        (Some(c), None) => out.push(Node::Do { row, top: true, cond: Some(c), body }),
                        (None, Some(c)) => out.push(Node::Do { row, top: false, cond: Some(c), body }),
                        (None, None) => out.push(Node::Do { row, top: true, cond: None, body }),
                        _ => return None,
                    }
                }
                "SELECT" => {
                    let expr = line[w[1].0 + 4..].trim().to_owned();
                    // lines before the first CASE must be blank / comments
                    let (pre, mut stop) = self.block()?;
                    if pre.iter().any(|n| !matches!(n, Node::Line(l) if l.is_empty() || l.starts_with('\''))) {
                        return None;
                    }
                    let mut cases = vec![];
                    let mut els = None;
                    loop {
                        let Stop::Key(k, kw) = stop else { return None };
                        let kl = self.lines[k].trim();
                        let k0 = kw[0].1.as_str();
                        let k1 = kw.get(1).map(|x| x.1.as_str()).unwrap_or("");
                        if k0 == "END" && k1 == "SELECT" && kw.len() == 2 {
                            break;
                        }
                        if k0 != "CASE" || els.is_some() {
                            return None;
                        }
                        let (b, s2) = self.block()?;
                        if k1 == "ELSE" && kw.len() == 2 {
                            els = Some(b);
                        } else {
                            cases.push((kl[4..].trim().to_owned(), b));
                        }
                        stop = s2;
                    }
                    out.push(Node::Select { row, expr, cases, els });
                }
                _ => return None,
            }
        }
    }
}

fn segment(text: &str) -> Option<Vec<Node>> {
    let lines: Vec<&str> = text.lines().collect();
    let mut s = Seg { lines, i: 0 };
    let (nodes, stop) = s.block()?;
    match stop {
        Stop::Eof => Some(nodes),
        _ => None,
    }
}

fn print_nodes(nodes: &[Node], ind: usize, out: &mut Vec<String>) {
    let pad = "  ".repeat(ind);
    for n in nodes {
        match n {
            Node::Line(l) => out.push(format!("{}{}", pad, l)),
            Node::If { row, arms, els } => {
                // in a synthesised chain (row 0) an ELSE branch that is exactly one IF is printed as ELSEIF
                let mut arms_v: Vec<(String, Vec<Node>)> = arms.clone();
                let mut els_v: Option<Vec<Node>> = els.clone();
                loop {
                    let flatten = *row == 0 && matches!(&els_v, Some(e) if e.len() == 1 && matches!(e[0], Node::If { row: 0, .. }));
                    if !flatten {
                        break;
                    }
                    let Some(e) = els_v.take() else { break };
                    if let Node::If { arms: a2, els: e2, .. } = e.into_iter().next().unwrap() {
                        arms_v.extend(a2);
                        els_v = e2;
                    }
                }
                for (k, (c, b)) in arms_v.iter().enumerate() {
                    out.push(format!("{}{} {} THEN", pad, if k == 0 { "IF" } else { "ELSEIF" }, c));
                    print_nodes(b, ind + 1, out);
                }
                if let Some(e) = &els_v {
                    out.push(format!("{}ELSE", pad));
                    print_nodes(e, ind + 1, out);
                }
                out.push(format!("{}END IF", pad));
            }
            Node::For { var, lo, hi, step, body, next, .. } => {
                match step {
                    Some(s) => out.push(format!("{}FOR {} = {} TO {} STEP {}", pad, var, lo, hi, s)),
                    None => out.push(format!("{}FOR {} = {} TO {}", pad, var, lo, hi)),
                }
                print_nodes(body, ind + 1, out);
                out.push(format!("{}{}", pad, next));
            }
            Node::While { cond, body, .. } => {
                out.push(format!("{}WHILE {}", pad, cond));
                print_nodes(body, ind + 1, out);
                out.push(format!("{}WEND", pad));
            }
            Node::Do { top, cond, body, .. } => {
                let c = cond.as_ref().map(|(u, c)| format!(" {} {}", if *u { "UNTIL" } else { "WHILE" }, c)).unwrap_or_default();
                out.push(format!("{}DO{}", pad, if *top { c.as_str() } else { "" }));
                print_nodes(body, ind + 1, out);
                out.push(format!("{}LOOP{}", pad, if *top { "" } else { c.as_str() }));
            }
            Node::Select { expr, cases, els, .. } => {
                out.push(format!("{}SELECT CASE {}", pad, expr));
                for (items, b) in cases {
                    out.push(format!("{}CASE {}", pad, items));
                    print_nodes(b, ind + 1, out);
                }
                if let Some(e) = els {
                    out.push(format!("{}CASE ELSE", pad));
                    print_nodes(e, ind + 1, out);
                }
                out.push(format!("{}END SELECT", pad));
            }
        }
    }
}

fn to_text(nodes: &[Node]) -> String {
    let mut out = vec![];
    print_nodes(nodes, 0, &mut out);
    out.join("\n") + "\n"
}

// ---------------------------------------------------------------------------------------------
// what the real (linted) syntax tree says about the block statements, keyed by source row

#[derive(Clone, Debug)]
enum StepInfo {
    None,
    /// whole-number literal: its sign (0 = zero)
    Lit(i64),
    /// anything else, with its static type
    Dyn(Option<TypeQualifier>),
}

#[derive(Default)]
struct Info {
    fors: HashMap<u32, (Option<TypeQualifier>, StepInfo)>,
    selects: HashMap<u32, Option<TypeQualifier>>,
    do_cmp: HashMap<u32, bool>,
    /// rows holding more than one block statement (cannot be keyed)
    clash: bool,
}

fn qual_of(e: &ExpressionPos) -> Option<TypeQualifier> {
    match e.element.expression_type() {
        ExpressionType::BuiltIn(q) => Some(q),
        _ => None,
    }
}

fn is_cmp(e: &Expression) -> bool {
    match e {
        Expression::BinaryExpression(op, _, _, _) => matches!(
            op,
            Operator::Less | Operator::LessOrEqual | Operator::Equal | Operator::GreaterOrEqual | Operator::Greater | Operator::NotEqual
        ),
        Expression::Parenthesis(c) => is_cmp(&c.element),
        Expression::UnaryExpression(UnaryOperator::Not, c) => is_cmp(&c.element),
        _ => false,
    }
}

fn walk(stmts: &Statements, info: &mut Info) {
    for s in stmts {
        let row = s.pos.row();
        match &s.element {
            Statement::IfBlock(i) => {
                walk(&i.if_block.statements, info);
                for eb in &i.else_if_blocks {
                    walk(&eb.statements, info);
                }
                if let Some(e) = &i.else_block {
                    walk(e, info);
                }
            }
            Statement::SelectCase(sc) => {
                if info.selects.insert(row, qual_of(&sc.expr)).is_some() {
                    info.clash = true;
                }
                for cb in &sc.case_blocks {
                    let cb: &CaseBlock = cb;
                    walk(cb.statements(), info);
                }
                if let Some(e) = &sc.else_block {
                    walk(e, info);
                }
            }
            Statement::ForLoop(f) => {
                let cq = match &f.variable_name.element {
                    Expression::Variable(_, ExpressionType::BuiltIn(q)) => Some(*q),
                    _ => None,
                };
                let st = match &f.step {
                    None => StepInfo::None,
                    Some(e) => match &e.element {
                        Expression::IntegerLiteral(i) => StepInfo::Lit((*i as i64).signum()),
                        Expression::LongLiteral(l) => StepInfo::Lit((*l as i64).signum()),
                        _ => StepInfo::Dyn(qual_of(e)),
                    },
                };
                if info.fors.insert(row, (cq, st)).is_some() {
                    info.clash = true;
                }
                walk(&f.statements, info);
            }
            Statement::While(w) => walk(&w.statements, info),
            Statement::DoLoop(d) => {
                if info.do_cmp.insert(row, is_cmp(&d.condition.element)).is_some() {
                    info.clash = true;
                }
                walk(&d.statements, info);
            }
            _ => {}
        }
    }
}

struct Front {
    info: Info,
    /// Debug rendering of the linted program with positions erased
    shape: String,
}

fn erase_positions(d: &str) -> String {
    let mut out = String::with_capacity(d.len());
    let mut rest = d;
    while let Some(i) = rest.find("Position {") {
        out.push_str(&rest[..i]);
        out.push('P');
        match rest[i..].find('}') {
            Some(j) => rest = &rest[i + j + 1..],
            None => {
                rest = "";
            }
        }
    }
    out.push_str(rest);
    out
}

fn front(text: &str) -> Option<Front> {
    let t = text.to_owned();
    std::panic::catch_unwind(move || {
        let p = rusty_parser::parse_main_str(t).ok()?;
        let (linted, _ctx) = rusty_linter::core::lint(p).ok()?;
        let mut info = Info::default();
        for gs in &linted {
            match &gs.element {
                GlobalStatement::Statement(s) => {
                    let v = vec![rusty_common::Positioned { element: s.clone(), pos: gs.pos }];
                    walk(&v, &mut info);
                }
                GlobalStatement::FunctionImplementation(f) => walk(&f.body, &mut info),
                GlobalStatement::SubImplementation(f) => walk(&f.body, &mut info),
                _ => {}
            }
        }
        Some(Front { info, shape: erase_positions(&format!("{:?}", linted)) })
    })
    .ok()
    .flatten()
}

fn suffix(q: TypeQualifier) -> &'static str {
    match q {
        TypeQualifier::BangSingle => "!",
        TypeQualifier::HashDouble => "#",
        TypeQualifier::DollarString => "$",
        TypeQualifier::PercentInteger => "%",
        TypeQualifier::AmpersandLong => "&",
    }
}

// ---------------------------------------------------------------------------------------------
// rewrite sites and rules

#[derive(Clone, Copy, PartialEq, Eq, Debug)]
enum Rule {
    WhileDo,
    UntilNot,
    ForStep1,
    WrapLoop,
    SelectIf,
    ForWhile,
    IfSingle,
    IfBlock,
}

impl Rule {
    fn name(self) -> &'static str {
        match self {
            Rule::WhileDo => "while-do",
            Rule::UntilNot => "until-not",
            Rule::ForStep1 => "for-step1",
            Rule::WrapLoop => "wrap-loop",
            Rule::SelectIf => "select-if",
            Rule::ForWhile => "for-while",
            Rule::IfSingle => "if-single-line",
            Rule::IfBlock => "if-block",
        }
    }
    fn in_model(self) -> bool {
        !matches!(self, Rule::IfSingle | Rule::IfBlock)
    }
}

#[derive(Clone, Debug)]
struct Site {
    /// pre-order index among all nodes (lines included)
    node: usize,
    rule: Rule,
    /// index among the nodes of the rule's kind (while / do / for / select / any loop), source order
    kind_idx: usize,
    /// innermost enclosing construct ("top" if none)
    within: &'static str,
    detail: &'static str,
}

#[derive(Default)]
struct Counters {
    node: usize,
    whiles: usize,
    dos: usize,
    fors: usize,
    selects: usize,
    loops: usize,
}

fn simple_lines_only(b: &[Node]) -> bool {
    !b.is_empty()
        && b.iter().all(|n| match n {
            Node::Line(l) => {
                let w = words(l);
                let f = w.first().map(|x| x.1.as_str()).unwrap_or("");
                !l.is_empty()
                    && !l.starts_with('\'')
                    && f != "REM"
                    && f != "IF"
                    && f != "DATA"
                    && f != "DIM"
                    && !l.ends_with(':')
                    && !f.chars().next().map(|c| c.is_ascii_digit()).unwrap_or(true)
                    && !has_outside_strings(l, '\'')
            }
            _ => false,
        })
}

/// `IF c THEN a ELSE b` on one line: (cond, then-part, else-part) when it can be split safely
fn split_single_if(l: &str) -> Option<(String, String, Option<String>)> {
    let w = words(l);
    if w.first()?.1 != "IF" || has_outside_strings(l, '\'') {
        return None;
    }
    if w.iter().filter(|x| x.1 == "IF").count() != 1 || w.iter().filter(|x| x.1 == "THEN").count() != 1 {
        return None;
    }
    let then_at = w.iter().find(|x| x.1 == "THEN")?.0;
    let cond = l[2..then_at].trim().to_owned();
    let rest = &l[then_at + 4..];
    let rw = words(rest);
    let elses: Vec<usize> = rw.iter().filter(|x| x.1 == "ELSE").map(|x| x.0).collect();
    if elses.len() > 1 {
        return None;
    }
    let (t, e) = match elses.first() {
        Some(&k) => (rest[..k].trim().to_owned(), Some(rest[k + 4..].trim().to_owned())),
        None => (rest.trim().to_owned(), None),
    };
    let bad = |s: &str| s.is_empty() || s.chars().next().unwrap().is_ascii_digit();
    if bad(&t) || e.as_ref().map(|x| bad(x)).unwrap_or(false) || cond.is_empty() {
        return None;
    }
    Some((cond, t, e))
}

/// a label line (`Name:`) anywhere below
fn holds_label(b: &[Node]) -> bool {
    b.iter().any(|n| match n {
        Node::Line(l) => l.ends_with(':') && words(l).len() == 1 && !l.starts_with('\''),
        Node::If { arms, els, .. } => arms.iter().any(|(_, x)| holds_label(x)) || els.as_ref().map(|e| holds_label(e)).unwrap_or(false),
        Node::For { body, .. } | Node::While { body, .. } | Node::Do { body, .. } => holds_label(body),
        Node::Select { cases, els, .. } => cases.iter().any(|(_, x)| holds_label(x)) || els.as_ref().map(|e| holds_label(e)).unwrap_or(false),
    })
}

fn collect_sites(nodes: &[Node], within: &'static str, info: &Info, c: &mut Counters, out: &mut Vec<Site>) {
    for n in nodes {
        let me = c.node;
        c.node += 1;
        match n {
            Node::Line(l) => {
                if split_single_if(l).is_some() {
                    out.push(Site { node: me, rule: Rule::IfBlock, kind_idx: 0, within, detail: "" });
                }
            }
            Node::If { arms, els, .. } => {
                if arms.len() == 1 && simple_lines_only(&arms[0].1) && els.as_ref().map(|e| simple_lines_only(e)).unwrap_or(true) {
                    out.push(Site { node: me, rule: Rule::IfSingle, kind_idx: 0, within, detail: "" });
                }
                for (_, b) in arms {
                    collect_sites(b, "if", info, c, out);
                }
                if let Some(e) = els {
                    collect_sites(e, "if", info, c, out);
                }
            }
            Node::For { row, step, body, .. } => {
                let (k, l) = (c.fors, c.loops);
                c.fors += 1;
                c.loops += 1;
                if step.is_none() {
                    out.push(Site { node: me, rule: Rule::ForStep1, kind_idx: k, within, detail: "" });
                }
                out.push(Site { node: me, rule: Rule::WrapLoop, kind_idx: l, within, detail: "for" });
                if let Some((Some(_), st)) = info.fors.get(&(*row as u32)) {
                    let detail = match st {
                        StepInfo::None => Some("no-step"),
                        StepInfo::Lit(s) if *s > 0 => Some("const-positive-step"),
                        StepInfo::Lit(s) if *s < 0 => Some("const-negative-step"),
                        StepInfo::Lit(_) => None,
                        // the WHILE spelling of a computed step holds the body twice (one copy per direction): a body
                        // with a label in it cannot be written twice, so there is no such spelling of this loop
                        StepInfo::Dyn(Some(_)) if holds_label(body) => None,
                        StepInfo::Dyn(Some(_)) => Some("computed-step"),
                        StepInfo::Dyn(None) => None,
                    };
                    if let Some(d) = detail {
                        out.push(Site { node: me, rule: Rule::ForWhile, kind_idx: k, within, detail: d });
                    }
                }
                collect_sites(body, if step.is_some() { "for-step" } else { "for" }, info, c, out);
            }
            Node::While { body, .. } => {
                let (k, l) = (c.whiles, c.loops);
                c.whiles += 1;
                c.loops += 1;
                out.push(Site { node: me, rule: Rule::WhileDo, kind_idx: k, within, detail: "" });
                out.push(Site { node: me, rule: Rule::WrapLoop, kind_idx: l, within, detail: "while" });
                collect_sites(body, "while", info, c, out);
            }
            Node::Do { row, cond, body, .. } => {
                let (k, l) = (c.dos, c.loops);
                // DO … LOOP without a condition is not a DoLoop node of the core syntax: only count conditioned ones
                if cond.is_some() {
                    c.dos += 1;
                    c.loops += 1;
                    if matches!(cond, Some((true, _))) && info.do_cmp.get(&(*row as u32)).copied().unwrap_or(false) {
                        out.push(Site { node: me, rule: Rule::UntilNot, kind_idx: k, within, detail: "" });
                    }
                    out.push(Site { node: me, rule: Rule::WrapLoop, kind_idx: l, within, detail: "do" });
                }
                collect_sites(body, "do", info, c, out);
            }
            Node::Select { row, cases, els, .. } => {
                let k = c.selects;
                c.selects += 1;
                if let Some(Some(_)) = info.selects.get(&(*row as u32)) {
                    out.push(Site { node: me, rule: Rule::SelectIf, kind_idx: k, within, detail: "" });
                }
                for (_, b) in cases {
                    collect_sites(b, "select", info, c, out);
                }
                if let Some(e) = els {
                    collect_sites(e, "select", info, c, out);
                }
            }
        }
    }
}

struct Fresh {
    base: String,
}

impl Fresh {
    fn new(text: &str) -> Fresh {
        let u = text.to_ascii_uppercase();
        let mut k = 1;
        loop {
            let base = format!("ZQ{}", k);
            if !u.contains(&base) {
                return Fresh { base };
            }
            k += 1;
        }
    }
    fn name(&self, role: &str, q: TypeQualifier) -> String {
        format!("{}{}{}", self.base, role, suffix(q))
    }
}

fn line(s: String) -> Node {
    Node::Line(s)
}

/// the IF chain of one CASE line: every test guards a copy of the block, `lo TO hi` tests the upper
/// bound only after the lower one held (mirrors `RbModel.Rewrite.chainItems`)
fn chain_items(z: &str, items: &[String], body: &[Node], rest: Vec<Node>) -> Option<Vec<Node>> {
    let Some((first, more)) = items.split_first() else { return Some(rest) };
    let tail = chain_items(z, more, body, rest)?;
    let w = words(first);
    if w.first().map(|x| x.1.as_str()) == Some("IS") {
        let r = first.trim()[2..].trim();
        return Some(vec![Node::If { row: 0, arms: vec![(format!("{} {}", z, r), body.to_vec())], els: Some(tail) }]);
    }
    if let Some(t) = w.iter().find(|x| x.1 == "TO") {
        let lo = first[..t.0].trim();
        let hi = first[t.0 + 2..].trim();
        let inner = Node::If { row: 0, arms: vec![(format!("{} <= {}", z, hi), body.to_vec())], els: Some(tail.clone()) };
        return Some(vec![Node::If { row: 0, arms: vec![(format!("{} >= {}", z, lo), vec![inner])], els: Some(tail) }]);
    }
    if first.is_empty() {
        return None;
    }
    Some(vec![Node::If { row: 0, arms: vec![(format!("{} = {}", z, first), body.to_vec())], els: Some(tail) }])
}

fn apply_rule(n: &Node, rule: Rule, info: &Info, fresh: &Fresh) -> Option<Vec<Node>> {
    match (rule, n) {
        (Rule::WhileDo, Node::While { row, cond, body }) => {
            Some(vec![Node::Do { row: *row, top: true, cond: Some((false, cond.clone())), body: body.clone() }])
        }
        (Rule::UntilNot, Node::Do { row, top, cond: Some((true, c)), body }) => {
            Some(vec![Node::Do { row: *row, top: *top, cond: Some((false, format!("NOT ({})", c))), body: body.clone() }])
        }
        (Rule::ForStep1, Node::For { row, var, lo, hi, step: None, body, next }) => Some(vec![Node::For {
            row: *row,
            var: var.clone(),
            lo: lo.clone(),
            hi: hi.clone(),
            step: Some("1".into()),
            body: body.clone(),
            next: next.clone(),
        }]),
        (Rule::WrapLoop, _) => {
            let wrap = |b: &Vec<Node>| vec![Node::If { row: 0, arms: vec![("-1".to_owned(), b.clone())], els: None }];
            match n {
                Node::For { row, var, lo, hi, step, body, next } => Some(vec![Node::For {
                    row: *row,
                    var: var.clone(),
                    lo: lo.clone(),
                    hi: hi.clone(),
                    step: step.clone(),
                    body: wrap(body),
                    next: next.clone(),
                }]),
                Node::While { row, cond, body } => Some(vec![Node::While { row: *row, cond: cond.clone(), body: wrap(body) }]),
                Node::Do { row, top, cond, body } => Some(vec![Node::Do { row: *row, top: *top, cond: cond.clone(), body: wrap(body) }]),
                _ => None,
            }
        }
        (Rule::SelectIf, Node::Select { row, expr, cases, els }) => {
            let q = (*info.selects.get(&(*row as u32))?)?;
            let z = fresh.name("S", q);
            let mut rest: Vec<Node> = els.clone().unwrap_or_default();
            for (items, body) in cases.iter().rev() {
                rest = chain_items(&z, &split_commas(items), body, rest)?;
            }
            let mut out = vec![line(format!("{} = {}", z, expr))];
            out.extend(rest);
            Some(out)
        }
        (Rule::ForWhile, Node::For { row, var, lo, hi, step, body, .. }) => {
            let (cq, st) = info.fors.get(&(*row as u32))?;
            let cq = (*cq)?;
            let zl = fresh.name("L", cq);
            let mut out = vec![line(format!("{} = {}", var, lo)), line(format!("{} = {}", zl, hi))];
            let count = |up: bool, inc: String| {
                let mut b = body.clone();
                b.push(line(format!("{} = {} + {}", var, var, inc)));
                Node::While { row: 0, cond: format!("{} {} {}", var, if up { "<=" } else { ">=" }, zl), body: b }
            };
            match (st, step) {
                (StepInfo::None, None) => out.push(count(true, "1".into())),
                (StepInfo::Lit(s), Some(text)) if *s != 0 => out.push(count(*s > 0, format!("({})", text))),
                (StepInfo::Dyn(Some(sq)), Some(text)) => {
                    let zs = fresh.name("T", *sq);
                    out.push(line(format!("{} = {}", zs, text)));
                    out.push(Node::If {
                        row: 0,
                        arms: vec![(format!("{} < 0", zs), vec![count(false, zs.clone())]), (format!("{} > 0", zs), vec![count(true, zs.clone())])],
                        els: None,
                    });
                }
                _ => return None,
            }
            Some(out)
        }
        (Rule::IfSingle, Node::If { arms, els, .. }) => {
            let join = |b: &Vec<Node>| {
                b.iter().map(|n| if let Node::Line(l) = n { l.clone() } else { String::new() }).collect::<Vec<_>>().join(" : ")
            };
            let mut s = format!("IF {} THEN {}", arms[0].0, join(&arms[0].1));
            if let Some(e) = els {
                s.push_str(&format!(" ELSE {}", join(e)));
            }
            Some(vec![line(s)])
        }
        (Rule::IfBlock, Node::Line(l)) => {
            let (c, t, e) = split_single_if(l)?;
            Some(vec![Node::If { row: 0, arms: vec![(c, vec![line(t)])], els: e.map(|x| vec![line(x)]) }])
        }
        _ => None,
    }
}

fn rewrite(nodes: &[Node], target: usize, rule: Rule, info: &Info, fresh: &Fresh, c: &mut usize, ok: &mut bool) -> Vec<Node> {
    let mut out = vec![];
    for n in nodes {
        let me = *c;
        *c += 1;
        if me == target {
            // count the nodes below so that the numbering stays aligned
            let mut skip = 0;
            count_nodes(std::slice::from_ref(n), &mut skip);
            *c += skip - 1;
            match apply_rule(n, rule, info, fresh) {
                Some(v) => {
                    *ok = true;
                    out.extend(v);
                }
                None => out.push(n.clone()),
            }
            continue;
        }
        out.push(match n {
            Node::Line(l) => Node::Line(l.clone()),
            Node::If { row, arms, els } => Node::If {
                row: *row,
                arms: arms.iter().map(|(k, b)| (k.clone(), rewrite(b, target, rule, info, fresh, c, ok))).collect(),
                els: els.as_ref().map(|e| rewrite(e, target, rule, info, fresh, c, ok)),
            },
            Node::For { row, var, lo, hi, step, body, next } => Node::For {
                row: *row,
                var: var.clone(),
                lo: lo.clone(),
                hi: hi.clone(),
                step: step.clone(),
                body: rewrite(body, target, rule, info, fresh, c, ok),
                next: next.clone(),
            },
            Node::While { row, cond, body } => Node::While { row: *row, cond: cond.clone(), body: rewrite(body, target, rule, info, fresh, c, ok) },
            Node::Do { row, top, cond, body } => {
                Node::Do { row: *row, top: *top, cond: cond.clone(), body: rewrite(body, target, rule, info, fresh, c, ok) }
            }
            Node::Select { row, expr, cases, els } => Node::Select {
                row: *row,
                expr: expr.clone(),
                cases: cases.iter().map(|(k, b)| (k.clone(), rewrite(b, target, rule, info, fresh, c, ok))).collect(),
                els: els.as_ref().map(|e| rewrite(e, target, rule, info, fresh, c, ok)),
            },
        });
    }
    out
}

fn count_nodes(nodes: &[Node], c: &mut usize) {
    for n in nodes {
        *c += 1;
        match n {
            Node::Line(_) => {}
            Node::If { arms, els, .. } => {
                for (_, b) in arms {
                    count_nodes(b, c);
                }
                if let Some(e) = els {
                    count_nodes(e, c);
                }
            }
            Node::For { body, .. } | Node::While { body, .. } | Node::Do { body, .. } => count_nodes(body, c),
            Node::Select { cases, els, .. } => {
                for (_, b) in cases {
                    count_nodes(b, c);
                }
                if let Some(e) = els {
                    count_nodes(e, c);
                }
            }
        }
    }
}

// ---------------------------------------------------------------------------------------------

fn core_opts(faults: bool) -> Opts {
    Opts {
        max_depth: 3,
        max_block: 3,
        top_stmts: 8,
        subs: false,
        gosub: false,
        goto_fwd: false,
        on_error: false,
        data: true,
        strings: true,
        floats: true,
        select: true,
        division: true,
        faults,
        jumps_out: false,
        relayout: false,
    }
}

/// richer programs (SUB/FUNCTION, GOSUB, GOTO out of loops): implementation-vs-itself only
fn full_opts() -> Opts {
    Opts { faults: false, on_error: false, ..Opts::default() }
}

fn kind_of(o: &Observed) -> String {
    o.outcome.split(' ').take(2).collect::<Vec<_>>().join(" ")
}

/// top-level elements of `(a b c)`
fn top_elems(s: &str) -> Vec<String> {
    let s = s.trim();
    if !s.starts_with('(') || !s.ends_with(')') {
        return vec![];
    }
    let inner = &s[1..s.len() - 1];
    let mut out = vec![];
    let mut depth = 0;
    let mut cur = String::new();
    for c in inner.chars() {
        match c {
            '(' => {
                depth += 1;
                cur.push(c);
            }
            ')' => {
                depth -= 1;
                cur.push(c);
            }
            ' ' if depth == 0 => {
                if !cur.is_empty() {
                    out.push(std::mem::take(&mut cur));
                }
            }
            _ => cur.push(c),
        }
    }
    if !cur.is_empty() {
        out.push(cur);
    }
    out
}


// ---------------------------------------------------------------------------------------------
// directed family: a block construct inside a FUNCTION / SUB, each of its blocks in turn holding a way
// out (EXIT FUNCTION / EXIT SUB, GOTO to a label after the construct), the procedure called in an
// operand position with a pending left operand, for argument values that select each block.
// (EXIT FOR / EXIT DO are not in the language of this parser.)

const D_KINDS: usize = 11;
const D_WAYS: usize = 2;
const D_BLOCKS: usize = 3;
const D_PROCS: usize = 2;
const D_WRAPS: usize = 5;

fn directed_program(kind: usize, way: usize, blk: usize, proc_: usize, wrap: usize) -> String {
    let is_fn = proc_ == 0;
    let w = if way == 0 { if is_fn { "EXIT FUNCTION".to_owned() } else { "EXIT SUB".to_owned() } } else { "GOTO Lb9".to_owned() };
    let act = |k: &str| if is_fn { format!("F% = F% + {}", k) } else { format!("PRINT {};", k) };
    let mut c: Vec<String> = vec![];
    match kind {
        0 | 1 => {
            c.push("SELECT CASE X%".into());
            let items: [&str; 2] = if kind == 0 { ["1", "2"] } else { ["IS < 1", "1 TO 1, 2"] };
            for (i, it) in items.iter().enumerate() {
                c.push(format!("CASE {}", it));
                c.push(format!("  {}", act(&format!("{}", 10 * (i + 1)))));
                if blk == i {
                    c.push(format!("  {}", w));
                }
            }
            c.push("CASE ELSE".into());
            c.push(format!("  {}", act("30")));
            if blk == 2 {
                c.push(format!("  {}", w));
            }
            c.push("END SELECT".into());
        }
        2 => {
            let heads = ["IF X% = 1 THEN", "ELSEIF X% = 2 THEN", "ELSE"];
            for (i, h) in heads.iter().enumerate() {
                c.push((*h).into());
                c.push(format!("  {}", act(&format!("{}", 10 * (i + 1)))));
                if blk == i {
                    c.push(format!("  {}", w));
                }
            }
            c.push("END IF".into());
        }
        _ => {
            // loops: three rounds, the way out is taken in round X%
            let (head, tail): (Vec<String>, String) = match kind {
                3 => (vec!["FOR I% = 1 TO 3".into()], "NEXT".into()),
                4 => (vec!["FOR I% = 3 TO 1 STEP -1".into()], "NEXT".into()),
                5 => (vec!["S% = 1".into(), "FOR I% = 1 TO 3 STEP S%".into()], "NEXT".into()),
                6 => (vec!["I% = 0".into(), "WHILE I% < 3".into(), "  I% = I% + 1".into()], "WEND".into()),
                7 => (vec!["I% = 0".into(), "DO WHILE I% < 3".into(), "  I% = I% + 1".into()], "LOOP".into()),
                8 => (vec!["I% = 0".into(), "DO UNTIL I% >= 3".into(), "  I% = I% + 1".into()], "LOOP".into()),
                9 => (vec!["I% = 0".into(), "DO".into(), "  I% = I% + 1".into()], "LOOP WHILE I% < 3".into()),
                _ => (vec!["I% = 0".into(), "DO".into(), "  I% = I% + 1".into()], "LOOP UNTIL I% >= 3".into()),
            };
            c.extend(head);
            c.push(format!("  {}", act("I%")));
            match blk {
                0 => {
                    c.push("  IF I% = X% THEN".into());
                    c.push(format!("    {}", w));
                    c.push("  END IF".into());
                }
                1 => c.push(format!("  IF I% = X% THEN {}", w)),
                _ => {
                    c.push("  SELECT CASE I%".into());
                    c.push("  CASE IS <> X%".into());
                    c.push(format!("    {}", act("1")));
                    c.push("  CASE ELSE".into());
                    c.push(format!("    {}", w));
                    c.push("  END SELECT".into());
                }
            }
            c.push(tail);
        }
    }
    let (open, close): (Vec<&str>, Vec<&str>) = match wrap {
        0 => (vec![], vec![]),
        1 => (vec!["FOR J% = 1 TO 2"], vec!["NEXT"]),
        2 => (vec!["SELECT CASE 9", "CASE 1", "CASE ELSE"], vec!["END SELECT"]),
        3 => (vec!["IF X% < -5 THEN", "ELSE"], vec!["END IF"]),
        _ => (vec!["K% = 0", "DO", "  K% = K% + 1"], vec!["LOOP UNTIL K% >= 2"]),
    };
    let mut body: Vec<String> = vec![];
    if is_fn {
        body.push("F% = 1".into());
    }
    body.extend(open.iter().map(|l| (*l).to_owned()));
    body.extend(c.into_iter().map(|l| if wrap == 0 { l } else { format!("  {}", l) }));
    body.extend(close.iter().map(|l| (*l).to_owned()));
    body.push(act("5"));
    body.push("Lb9:".into());
    body.push(act("100"));
    let mut out: Vec<String> = vec![];
    if is_fn {
        out.push("DECLARE FUNCTION F% (X%)".into());
    } else {
        out.push("DECLARE SUB P (X%)".into());
        out.push("DECLARE FUNCTION G% (X%)".into());
    }
    let f = if is_fn { "F%" } else { "G%" };
    out.push("FOR N% = 0 TO 3".into());
    out.push(format!("  PRINT 100 + {}(N%)", f));
    out.push(format!("  A% = 7 * {}(N%) + 1", f));
    out.push("  PRINT A%".into());
    out.push("NEXT".into());
    out.push("PRINT \"done\"".into());
    if is_fn {
        out.push("FUNCTION F% (X%)".into());
        out.extend(body.into_iter().map(|l| format!("  {}", l)));
        out.push("END FUNCTION".into());
    } else {
        out.push("FUNCTION G% (X%)".into());
        out.push("  P X%".into());
        out.push("  G% = X% + 1".into());
        out.push("END FUNCTION".into());
        out.push("SUB P (X%)".into());
        out.extend(body.into_iter().map(|l| format!("  {}", l)));
        out.push("END SUB".into());
    }
    out.join("\n") + "\n"
}

/// quick: every (construct, way out, block) in a FUNCTION without wrapper + a random sample of the rest;
/// thorough: the whole cross product
fn directed_programs(rng: &mut Rng, thorough: bool) -> Vec<Prog> {
    let mut out = vec![];
    let mut push = |k, w, b, p, r| out.push(Prog { text: directed_program(k, w, b, p, r), origin: "directed", core: false, hc: None });
    if thorough {
        for k in 0..D_KINDS {
            for w in 0..D_WAYS {
                for b in 0..D_BLOCKS {
                    for p in 0..D_PROCS {
                        for r in 0..D_WRAPS {
                            push(k, w, b, p, r);
                        }
                    }
                }
            }
        }
    } else {
        for k in 0..D_KINDS {
            for w in 0..D_WAYS {
                for b in 0..D_BLOCKS {
                    push(k, w, b, 0, 0);
                }
            }
        }
        for _ in 0..36 {
            let (k, w, b) = (rng.below(D_KINDS as u64) as usize, rng.below(D_WAYS as u64) as usize, rng.below(D_BLOCKS as u64) as usize);
            let p = rng.below(D_PROCS as u64) as usize;
            let r = if p == 0 { 1 + rng.below(D_WRAPS as u64 - 1) as usize } else { rng.below(D_WRAPS as u64) as usize };
            push(k, w, b, p, r);
        }
    }
    out
}

struct Prog {
    text: String,
    origin: &'static str,
    core: bool,
    /// header-calls family: (header position, callee shape, enclosing context)
    hc: Option<(usize, usize, usize)>,
}

/// the `header-calls` family (harness/src/hdr_calls.rs): a user FUNCTION called from every header position of every
/// construct, the callee using every register- / stack-holding construct at its top level and nested.
/// quick: every (position, callee shape) in one context drawn at random; thorough: the whole cross product
fn header_call_programs(rng: &mut Rng, thorough: bool) -> Vec<Prog> {
    let mut out = vec![];
    for pos in 0..hdr_calls::N_POS {
        for shape in 0..hdr_calls::N_SHAPES {
            let ctxs: Vec<usize> = if thorough { (0..hdr_calls::N_CTX).collect() } else { vec![rng.below(hdr_calls::N_CTX as u64) as usize] };
            for ctx in ctxs {
                out.push(Prog { text: hdr_calls::program(pos, shape, ctx), origin: "header-calls", core: false, hc: Some((pos, shape, ctx)) });
            }
        }
    }
    out
}

// ---------------------------------------------------------------------------------------------
// directed family `loop-labels` (after the wave-10 seed `label_resolver resolves a jump to the CLOSEST definition of a
// label`, which the check missed: no respelled program had a user label inside a FOR body): FOR loops whose body
// holds user labels and jumps, so that FOR without STEP / FOR ... STEP 1 / the WHILE spelling (and STEP 2, a LONG
// counter, a computed positive step, STEP -1 and their WHILE spellings) are compared on them. A FOR ... STEP body is
// emitted twice, so a label in it is defined twice, and which definition a jump gets depends on instruction
// distances: the number of statements between the jump and the label runs over 1..12.
// A label inside the body of a DOWNWARD loop is the recorded finding C05-a on the unchanged tree (it resolves to the
// upward copy): downward loops are in the family only with their labels outside the body (GOTO out, GOSUB).

const LL_KINDS: [&str; 7] =
    ["continue", "skip-part", "backward", "goto-out", "gosub-routine", "continue+gosub", "continue-from-inner"];
const LL_HEADS: [&str; 6] = ["no-step", "step-1", "step-2", "step-long", "computed-step", "step-neg1"];
const LL_NESTS: [&str; 6] = ["plain", "in-if", "in-select", "jump-from-if", "in-outer-for", "in-while"];

fn ll_valid(kind: usize, head: usize) -> bool {
    // downward loop: only the kinds whose label lies outside the body
    head != 5 || kind == 3 || kind == 4
}

/// one body statement; every flavour leaves a trace in the output
fn ll_stmt(j: usize, flavour: u64, v: &str) -> String {
    match flavour % 6 {
        0 => format!("PRINT \"s{}\"; {}", j, v),
        1 => format!("T% = T% + {} + {}", v, j),
        2 => format!("PRINT \"t{}\"; T%; {} * 2", j, v),
        3 => format!("IF {} > 1 THEN PRINT \"g{}\";", v, j),
        4 => format!("A$ = A$ + \"{}\"", (b'a' + (j % 26) as u8) as char),
        _ => format!("PRINT \"u{}\", {} + T%", j, v),
    }
}

fn loop_label_program(kind: usize, head: usize, nest: usize, n: usize, pre: usize, rng: &mut Rng) -> String {
    let v = if head == 3 { "I&" } else { "I%" };
    // (header, a value in the middle of the range, the first value)
    let (header, mid, first) = match head {
        0 => (format!("FOR {} = 1 TO 5", v), 3, 1),
        1 => (format!("FOR {} = 1 TO 5 STEP 1", v), 3, 1),
        2 => (format!("FOR {} = 1 TO 9 STEP 2", v), 5, 1),
        3 => (format!("FOR {} = 2 TO 11 STEP 3", v), 5, 2),
        4 => (format!("FOR {} = 1 TO 9 STEP S%", v), 5, 1),
        _ => (format!("FOR {} = 5 TO 1 STEP -1", v), 3, 5),
    };
    let cond = match rng.below(4) {
        0 => format!("{} = {}", v, mid),
        1 => format!("{} >= {}", v, mid),
        2 => format!("{} MOD 3 = 0", v),
        _ => format!("{} <> {}", v, first),
    };
    let stmts = |from: usize, count: usize, rng: &mut Rng| -> Vec<String> {
        (0..count).map(|j| ll_stmt(from + j, rng.below(6), v)).collect()
    };
    // the jump: a single-line IF, or (jump-from-if) a block IF holding it
    let jump = |what: &str, cond: &str| -> Vec<String> {
        if nest == 3 {
            vec![format!("IF {} THEN", cond), format!("  PRINT \"j\"; {}", v), format!("  {}", what), "END IF".into()]
        } else {
            vec![format!("IF {} THEN {}", cond, what)]
        }
    };
    let mut core: Vec<String> = stmts(90, pre, rng);
    let mut after: Vec<String> = vec![];
    let mut routines: Vec<String> = vec![];
    match kind {
        0 | 5 => {
            core.extend(jump("GOTO Lc", &cond));
            let mut b = stmts(0, n, rng);
            if kind == 5 {
                let at = rng.below(b.len() as u64 + 1) as usize;
                b.insert(at, "GOSUB Rt".into());
                routines.extend(["Rt:".to_owned(), format!("PRINT \"r\"; {}", v), "T% = T% + 1".into(), "RETURN".into()]);
            }
            core.extend(b);
            core.push("Lc:".into());
        }
        1 => {
            core.extend(jump("GOTO Lm", &cond));
            core.extend(stmts(0, n, rng));
            core.push("Lm:".into());
            core.push(format!("PRINT \"m\"; {}", v));
            core.extend(stmts(40, 1 + rng.below(2) as usize, rng));
        }
        2 => {
            core.push("K% = 0".into());
            core.push("Lb:".into());
            core.push("K% = K% + 1".into());
            core.push(format!("PRINT \"b\"; {}; K%", v));
            core.extend(stmts(0, n, rng));
            core.extend(jump("GOTO Lb", &format!("K% < 2 AND ({})", cond)));
            core.push(format!("PRINT \"e\"; {}", v));
        }
        3 => {
            core.extend(jump("GOTO Lo", &format!("{} = {}", v, mid)));
            core.extend(stmts(0, n, rng));
            after.push("PRINT \"ran to the end\"".into());
            after.push("Lo:".into());
            after.push(format!("PRINT \"out\"; {}", v));
            after.push("FOR J% = 1 TO 2".into());
            after.push("  PRINT \"j\"; J%;".into());
            after.push("NEXT".into());
        }
        4 => {
            core.extend(jump("GOSUB Rt", &cond));
            core.extend(stmts(0, 1 + rng.below(3) as usize, rng));
            routines.push("Rt:".into());
            routines.extend(stmts(20, n, rng));
            routines.push("RETURN".into());
        }
        _ => {
            core.push("FOR J% = 1 TO 3".into());
            core.push(format!("  IF J% = 2 AND ({}) THEN GOTO Lc", cond));
            core.push(format!("  PRINT \"j\"; J%; {}", v));
            core.push("NEXT".into());
            core.extend(stmts(0, n, rng));
            core.push("Lc:".into());
        }
    }
    // nesting of the body: the jump and the label inside an IF / a CASE block of the FOR body
    let ind = |ls: Vec<String>| -> Vec<String> { ls.into_iter().map(|l| if l.ends_with(':') { l } else { format!("  {}", l) }).collect() };
    let body: Vec<String> = match nest {
        1 => {
            let mut b = vec![format!("IF {} > 0 THEN", v)];
            b.extend(ind(core));
            if kind != 3 && kind != 4 {
                b.push(format!("  PRINT \"i\"; {}", v));
            }
            b.push("END IF".into());
            b
        }
        2 => {
            let mut b = vec!["SELECT CASE 1".to_owned(), "CASE 1".into()];
            b.extend(ind(core));
            b.push(format!("  PRINT \"c\"; {}", v));
            b.push("CASE ELSE".into());
            b.push("  PRINT \"never\"".into());
            b.push("END SELECT".into());
            b
        }
        _ => core,
    };
    let mut the_loop = vec![header];
    the_loop.extend(ind(body));
    the_loop.push("NEXT".into());
    the_loop.extend(after);
    let mut out: Vec<String> = vec!["T% = 0".into(), "A$ = \"\"".into()];
    if head == 4 {
        out.push("S% = 2".into());
    }
    match nest {
        4 => {
            out.push("FOR O% = 1 TO 2".into());
            out.push("  PRINT \"o\"; O%".into());
            out.extend(ind(the_loop));
            out.push("NEXT".into());
        }
        5 => {
            out.push("W% = 0".into());
            out.push("WHILE W% < 2".into());
            out.push("  W% = W% + 1".into());
            out.extend(ind(the_loop));
            out.push("WEND".into());
        }
        _ => out.extend(the_loop),
    }
    out.push(format!("PRINT \"end\"; {}; T%; K%; A$", v));
    if !routines.is_empty() {
        out.push("END".into());
        out.extend(routines);
    }
    out.join("\n") + "\n"
}

/// quick: the forward jumps (continue, skip-part) in the three upward spellings with every distance 1..12, plus a random
/// sample of the rest; thorough: kind x header x nesting x distance (statements in front of the jump drawn at random)
fn loop_label_programs(rng: &mut Rng, thorough: bool) -> Vec<(Prog, String)> {
    let mut out = vec![];
    let mut push = |k: usize, h: usize, ne: usize, n: usize, pre: usize, rng: &mut Rng| {
        let text = loop_label_program(k, h, ne, n, pre, rng);
        out.push((Prog { text, origin: "loop-labels", core: false, hc: None }, format!("{}|{}|{}", LL_KINDS[k], LL_HEADS[h], LL_NESTS[ne])));
    };
    if thorough {
        for k in 0..LL_KINDS.len() {
            for h in 0..LL_HEADS.len() {
                for ne in 0..LL_NESTS.len() {
                    for n in 1..=12 {
                        if ll_valid(k, h) {
                            let pre = rng.below(3) as usize;
                            push(k, h, ne, n, pre, rng);
                        }
                    }
                }
            }
        }
    } else {
        for k in 0..2 {
            for h in 0..3 {
                for n in 1..=12 {
                    let pre = rng.below(3) as usize;
                    push(k, h, 0, n, pre, rng);
                }
            }
        }
        let mut left = 230;
        while left > 0 {
            let (k, h) = (rng.below(LL_KINDS.len() as u64) as usize, rng.below(LL_HEADS.len() as u64) as usize);
            if !ll_valid(k, h) {
                continue;
            }
            let (ne, n, pre) = (rng.below(LL_NESTS.len() as u64) as usize, rng.range(1, 12) as usize, rng.below(3) as usize);
            push(k, h, ne, n, pre, rng);
            left -= 1;
        }
    }
    out
}

/// a program ready for rewriting
struct Prepared {
    tree: Vec<Node>,
    re: String,
    fr: Front,
    sites: Vec<Site>,
    before: Observed,
    core_re: Option<String>,
}

enum PairOutcome {
    NotExpressible,
    TooLong,
    Rejected { new_text: String },
    Ran { new_text: String, shape_differs: bool, after: Observed },
}

fn par_map<T: Sync, R: Send>(items: &[T], f: impl Fn(&T) -> R + Sync) -> Vec<R> {
    let n = std::thread::available_parallelism().map(|x| x.get()).unwrap_or(4).clamp(1, 12);
    let mut slots: Vec<Option<R>> = (0..items.len()).map(|_| None).collect();
    let chunks: Vec<Vec<(usize, R)>> = std::thread::scope(|sc| {
        let hs: Vec<_> = (0..n)
            .map(|t| {
                let f = &f;
                sc.spawn(move || {
                    let mut v = vec![];
                    let mut i = t;
                    while i < items.len() {
                        v.push((i, f(&items[i])));
                        i += n;
                    }
                    v
                })
            })
            .collect();
        hs.into_iter().map(|h| h.join().expect("worker")).collect()
    });
    for ch in chunks {
        for (i, r) in ch {
            slots[i] = Some(r);
        }
    }
    slots.into_iter().map(|x| x.unwrap()).collect()
}

fn prepare(p: &Prog) -> Result<Prepared, &'static str> {
    let Some(fr) = front(&p.text) else { return Err("skipped.rejected-by-front-end") };
    let Some(tree) = segment(&p.text) else { return Err("skipped.cannot-segment") };
    if fr.info.clash {
        return Err("skipped.several-blocks-on-a-row");
    }
    // the identity rewrite must reproduce the program (same tree up to positions)
    let re = to_text(&tree);
    let fr_re = match front(&re) {
        Some(fr2) if fr2.shape == fr.shape => fr2,
        _ => {
            if std::env::var("C02_DUMP_REPRINT").is_ok() {
                eprintln!("=== reprint differs\n{}\n--- reprinted\n{}", p.text, re);
            }
            return Err("skipped.reprint-differs");
        }
    };
    // rows of the reprinted text: re-segment it
    let Some(tree_re) = segment(&re) else { return Err("skipped.cannot-segment") };
    let mut sites = vec![];
    let mut cn = Counters::default();
    collect_sites(&tree_re, "top", &fr_re.info, &mut cn, &mut sites);
    if sites.is_empty() {
        return Err("no-site");
    }
    let before = run_real(&re, b"", BUDGET);
    if before.outcome == "budget" {
        return Err("skipped.original-exceeds-budget");
    }
    if run_real(&re, b"", BUDGET) != before {
        return Err("skipped.nondeterministic");
    }
    let core_re = if p.core { core_ast(&re) } else { None };
    Ok(Prepared { tree: tree_re, re, fr: fr_re, sites, before, core_re })
}

fn run_pairs(p: &(&Prog, &Prepared, usize)) -> Vec<PairOutcome> {
    let (prog, pr, take) = *p;
    let fresh = Fresh::new(&prog.text);
    pr.sites
        .iter()
        .take(take)
        .map(|site| {
            let mut c = 0;
            let mut ok = false;
            let new_tree = rewrite(&pr.tree, site.node, site.rule, &pr.fr.info, &fresh, &mut c, &mut ok);
            if !ok {
                return PairOutcome::NotExpressible;
            }
            let new_text = to_text(&new_tree);
            if new_text.len() > 60_000 {
                return PairOutcome::TooLong;
            }
            let mut shape_differs = false;
            if matches!(site.rule, Rule::IfSingle | Rule::IfBlock) {
                match front(&new_text) {
                    None => return PairOutcome::Rejected { new_text },
                    Some(f) => shape_differs = f.shape != pr.fr.shape,
                }
            }
            let after = run_real(&new_text, b"", BUDGET);
            if after.outcome.starts_with("front-end") {
                return PairOutcome::Rejected { new_text };
            }
            PairOutcome::Ran { new_text, shape_differs, after }
        })
        .collect()
}

struct Pending {
    prog: usize,
    core: String,
    site: Site,
    new_text: String,
    before: Observed,
    after: Observed,
}

// ---------------------------------------------------------------------------------------------
// shrinking a failing pair: statements (whole nodes of the segmented tree) are deleted while the same rule at the
// same site still changes what the program prints

fn subtree_size(n: &Node) -> usize {
    let mut c = 0;
    count_nodes(std::slice::from_ref(n), &mut c);
    c
}

/// the tree without the node with pre-order index `victim` (and everything below it)
fn remove_node(nodes: &[Node], victim: usize, c: &mut usize) -> Vec<Node> {
    let mut out = vec![];
    for n in nodes {
        let me = *c;
        if me == victim {
            *c += subtree_size(n);
            continue;
        }
        *c += 1;
        out.push(match n {
            Node::Line(l) => Node::Line(l.clone()),
            Node::If { row, arms, els } => Node::If {
                row: *row,
                arms: arms.iter().map(|(k, b)| (k.clone(), remove_node(b, victim, c))).collect(),
                els: els.as_ref().map(|e| remove_node(e, victim, c)),
            },
            Node::For { row, var, lo, hi, step, body, next } => Node::For {
                row: *row,
                var: var.clone(),
                lo: lo.clone(),
                hi: hi.clone(),
                step: step.clone(),
                body: remove_node(body, victim, c),
                next: next.clone(),
            },
            Node::While { row, cond, body } => Node::While { row: *row, cond: cond.clone(), body: remove_node(body, victim, c) },
            Node::Do { row, top, cond, body } => Node::Do { row: *row, top: *top, cond: cond.clone(), body: remove_node(body, victim, c) },
            Node::Select { row, expr, cases, els } => Node::Select {
                row: *row,
                expr: expr.clone(),
                cases: cases.iter().map(|(k, b)| (k.clone(), remove_node(b, victim, c))).collect(),
                els: els.as_ref().map(|e| remove_node(e, victim, c)),
            },
        });
    }
    out
}

/// sizes of all subtrees, by pre-order index
fn all_sizes(nodes: &[Node], out: &mut Vec<usize>) {
    for n in nodes {
        out.push(subtree_size(n));
        match n {
            Node::Line(_) => {}
            Node::If { arms, els, .. } => {
                for (_, b) in arms {
                    all_sizes(b, out);
                }
                if let Some(e) = els {
                    all_sizes(e, out);
                }
            }
            Node::For { body, .. } | Node::While { body, .. } | Node::Do { body, .. } => all_sizes(body, out),
            Node::Select { cases, els, .. } => {
                for (_, b) in cases {
                    all_sizes(b, out);
                }
                if let Some(e) = els {
                    all_sizes(e, out);
                }
            }
        }
    }
}

struct FailingPair {
    tree: Vec<Node>,
    text: String,
    new_text: String,
    before: Observed,
    after: Observed,
}

/// `Some` when the text is accepted, has a site of `rule` at node `target`, and the respelling is accepted and ends
/// differently (the comparison of the main loop, nothing weaker)
fn failing_pair(text: &str, target: usize, rule: Rule) -> Option<FailingPair> {
    let fr = front(text)?;
    if fr.info.clash {
        return None;
    }
    let tree = segment(text)?;
    if to_text(&tree) != text {
        return None;
    }
    let mut sites = vec![];
    let mut cn = Counters::default();
    collect_sites(&tree, "top", &fr.info, &mut cn, &mut sites);
    let site = sites.iter().find(|s| s.node == target && s.rule == rule)?;
    let before = run_real(text, b"", BUDGET);
    if before.outcome == "budget" || before.outcome.starts_with("front-end") {
        return None;
    }
    let fresh = Fresh::new(text);
    let (mut c, mut ok) = (0, false);
    let new_tree = rewrite(&tree, site.node, site.rule, &fr.info, &fresh, &mut c, &mut ok);
    if !ok {
        return None;
    }
    let new_text = to_text(&new_tree);
    let after = run_real(&new_text, b"", BUDGET);
    if after.outcome == "budget" || after.outcome.starts_with("front-end") {
        return None;
    }
    if rule == Rule::ForWhile && kind_of(&before) == "error 258" {
        return None;
    }
    if kind_of(&after) == kind_of(&before) && after.out == before.out {
        return None;
    }
    Some(FailingPair { tree, text: text.to_owned(), new_text, before, after })
}

fn shrink_pair(text: &str, target: usize, rule: Rule) -> Option<FailingPair> {
    let deadline = std::time::Instant::now() + std::time::Duration::from_secs(15);
    let mut best = failing_pair(text, target, rule)?;
    let mut target = target;
    let mut changed = true;
    while changed && std::time::Instant::now() < deadline {
        changed = false;
        let mut sizes = vec![];
        all_sizes(&best.tree, &mut sizes);
        let mut j = sizes.len();
        while j > 0 && std::time::Instant::now() < deadline {
            j -= 1;
            if j >= sizes.len() {
                continue;
            }
            // never the site itself nor anything enclosing it
            if j <= target && target < j + sizes[j] {
                continue;
            }
            let cand_tree = remove_node(&best.tree, j, &mut 0);
            let cand_target = if j < target { target - sizes[j] } else { target };
            if let Some(fp) = failing_pair(&to_text(&cand_tree), cand_target, rule) {
                best = fp;
                target = cand_target;
                changed = true;
                sizes.clear();
                all_sizes(&best.tree, &mut sizes);
            }
        }
    }
    Some(best)
}

fn main() {
    std::panic::set_hook(Box::new(|_| {}));
    if let Ok(f) = std::env::var("C02_SHAPE") {
        let t = std::fs::read_to_string(f).unwrap();
        println!("{}", front(&t).map(|f| f.shape).unwrap_or("rejected".into()));
        return;
    }
    if let Ok(dir) = std::env::var("C02_HC_DUMP") {
        // debugging aid: the whole header-calls family as files <position>.<callee>.<context>.bas
        for p in header_call_programs(&mut Rng::from_env(), true) {
            let (a, b, c) = p.hc.unwrap();
            let name = format!("{}/{}.{}.{}.bas", dir, hdr_calls::pos_name(a), hdr_calls::shape_name(b), hdr_calls::ctx_name(c));
            std::fs::write(name, &p.text).unwrap();
        }
        return;
    }
    if let Ok(dir) = std::env::var("C02_LL_DUMP") {
        // debugging aid: the loop-labels family (quick selection) as files <k>.<jump>.<header>.<nesting>.bas
        for (k, (p, tag)) in loop_label_programs(&mut Rng::from_env(), std::env::var("C02_LL_ALL").is_ok()).into_iter().enumerate() {
            std::fs::write(format!("{}/{}.{}.bas", dir, k, tag.replace('|', ".")), &p.text).unwrap();
        }
        return;
    }
    let mut rng = Rng::from_env();
    let mut rep = Report::new(
        "C02",
        "every accepted program (type-directed random core programs: IF/ELSEIF/ELSE, SELECT CASE with simple/IS/range lists, FOR with no / \
         constant positive / constant negative / run-time computed STEP, WHILE, DO top/bottom WHILE/UNTIL, nesting <= 3, a third with an \
         injected run-time fault; random programs with SUB/FUNCTION, GOSUB and GOTO out of loops; a directed family: each block construct \
         (SELECT CASE with simple / IS / range / multi-item lists, IF/ELSEIF/ELSE, FOR without / negative / computed STEP, WHILE, the four \
         DO forms) inside a FUNCTION or a SUB, optionally wrapped in FOR / CASE ELSE / ELSE / DO, each of its blocks in turn holding EXIT \
         FUNCTION / EXIT SUB or a GOTO past the construct, the procedure called with a pending left operand (PRINT 100 + F%(N%), A% = 7 * \
         F%(N%) + 1) for arguments selecting every block; a directed family header-calls: a user FUNCTION called from every header \
         position (FOR lower / upper bound / STEP in eleven forms, WHILE, the four DO conditions, IF / ELSEIF block and single-line, \
         SELECT selector, CASE items simple / IS / range, PRINT items, array subscripts, DIM bounds) x 16 callee bodies using, at their \
         top level and nested, FOR without / with positive / negative / computed / SINGLE / LONG step, SELECT CASE, calls in their own \
         FOR header, GOSUB, EXIT FUNCTION inside FOR, STATIC, recursion x 8 enclosing contexts (top, FOR, FOR STEP -1, CASE block, \
         WHILE, FUNCTION called with a pending operand, SUB, ELSE), callee and construct printing what they do; a directed family \
         loop-labels: FOR loops whose body holds user labels and jumps (continue-style forward GOTO to a label in front of NEXT, \
         forward GOTO over part of the body, backward GOTO bounded by a counter, GOTO out of the loop, GOSUB to a routine, GOTO from \
         an inner loop to the outer continue label) x header (no STEP, STEP 1, STEP 2, LONG counter STEP 3, computed positive step, \
         STEP -1 only with the label outside the body: the other case is finding C05-a) x 1..12 statements between jump and label x \
         nesting (plain, jump and label inside an IF / a CASE block of the body, jump from a block IF, loop inside an outer FOR / \
         WHILE), every statement printing; every program text of the repository's tests and fixtures the block segmenter \
         handles) x every rewrite site x every rule (while-do, until-not, for-step1, wrap-loop, \
         select-if, for-while, if-single-line, if-block): the rewritten text is accepted by the real front end and runs to the same \
         stdout bytes and outcome kind (error code) as the original; for core programs the Lean model's rewrite at the same site is run \
         on RbModel.Ref and both model runs are compared with both real runs. class = (rule, rule detail, enclosing construct, outcome \
         kind, origin); a case = one (program, site, rule).",
    );
    let thorough = rep.is_thorough();
    let pair_budget: usize =
        if thorough { 60_000 } else { std::env::var("C02_PAIRS").ok().and_then(|x| x.parse().ok()).unwrap_or(4_400) };
    let n_core = if thorough { 2_800 } else { 210 };
    let n_full = if thorough { 950 } else { 70 };

    // programs: corpus first (all of it), then generated ones
    let cands = corpus::candidate_texts();
    let classes = par_map(&cands, |t| corpus::classify(t) == corpus::Class::Accepted);
    let mut progs: Vec<Prog> = vec![];
    for (t, acc) in cands.into_iter().zip(classes) {
        if !acc {
            continue;
        }
        if corpus::needs_real_devices(&t) {
            rep.bump("corpus.skipped.needs-keyboard");
            continue;
        }
        let u = t.to_ascii_uppercase();
        if ["OPEN ", "KILL ", "NAME ", "FILES", "ENVIRON", "TIMER", "RANDOMIZE"].iter().any(|k| u.contains(k)) {
            rep.bump("corpus.skipped.files-env-clock");
            continue;
        }
        progs.push(Prog { text: t, origin: "corpus", core: true, hc: None });
    }
    rep.bump_by("corpus.accepted-programs", progs.len() as u64);
    // the directed family comes right after the corpus, so that a pair budget never cuts it
    let directed = directed_programs(&mut rng, thorough);
    rep.bump_by("directed.programs", directed.len() as u64);
    progs.extend(directed);
    // the header-calls family has a pair budget of its own (all its sites): the generated families keep theirs.
    // Its choices come from a stream of their own, so that the generated programs stay what they were
    let header_calls = header_call_programs(&mut Rng(rng.seed() ^ 0x4843_414c_4c53), thorough);
    rep.bump_by("header-calls.programs", header_calls.len() as u64);
    progs.extend(header_calls);
    // the loop-labels family: a stream and a pair budget of its own, like header-calls
    let loop_labels = loop_label_programs(&mut Rng(rng.seed() ^ 0x4c4f_4f50_4c42), thorough);
    rep.bump_by("loop-labels.programs", loop_labels.len() as u64);
    let mut ll_tag: HashMap<usize, String> = HashMap::new();
    for (p, tag) in loop_labels {
        ll_tag.insert(progs.len(), tag);
        progs.push(p);
    }
    let mut gens: Vec<Prog> = vec![];
    for k in 0..n_core {
        let (text, _) = generate(&mut rng, &core_opts(k % 3 == 0));
        gens.push(Prog { text, origin: "gen-core", core: true, hc: None });
    }
    for _ in 0..n_full {
        let (text, _) = generate(&mut rng, &full_opts());
        gens.push(Prog { text, origin: "gen-full", core: false, hc: None });
    }
    // interleave the two generated families so that a pair budget cuts both evenly
    let (mut a, mut b): (Vec<Prog>, Vec<Prog>) = gens.into_iter().partition(|p| p.origin == "gen-core");
    a.reverse();
    b.reverse();
    let ratio = (n_core / n_full.max(1)).max(1);
    while !a.is_empty() || !b.is_empty() {
        for _ in 0..ratio {
            if let Some(p) = a.pop() {
                progs.push(p);
            }
        }
        if let Some(p) = b.pop() {
            progs.push(p);
        }
    }

    let prepared = par_map(&progs, prepare);
    // choose the pairs, in program order, up to the budget
    let mut jobs: Vec<(&Prog, &Prepared, usize)> = vec![];
    let mut job_prog: Vec<usize> = vec![];
    let mut pairs = 0usize;
    let mut hc_pairs = 0usize;
    let mut ll_pairs = 0usize;
    for (pi, (p, pr)) in progs.iter().zip(prepared.iter()).enumerate() {
        match pr {
            Err(why) => rep.bump(&format!("{}.{}", p.origin, why)),
            Ok(pr) => {
                if let Some((pos, shape, ctx)) = p.hc {
                    hc_pairs += pr.sites.len();
                    rep.bump("header-calls.programs-with-sites");
                    rep.bump(&format!("header-calls.position.{}", hdr_calls::pos_name(pos)));
                    rep.bump(&format!("header-calls.callee.{}", hdr_calls::shape_name(shape)));
                    rep.bump(&format!("header-calls.context.{}", hdr_calls::ctx_name(ctx)));
                    jobs.push((p, pr, pr.sites.len()));
                    job_prog.push(pi);
                    continue;
                }
                if let Some(tag) = ll_tag.get(&pi) {
                    ll_pairs += pr.sites.len();
                    rep.bump("loop-labels.programs-with-sites");
                    for (what, part) in ["jump", "header", "nesting"].iter().zip(tag.split('|')) {
                        rep.bump(&format!("loop-labels.{}.{}", what, part));
                    }
                    jobs.push((p, pr, pr.sites.len()));
                    job_prog.push(pi);
                    continue;
                }
                if pairs >= pair_budget {
                    rep.bump(&format!("{}.not-reached-pair-budget", p.origin));
                    continue;
                }
                let take = pr.sites.len().min(pair_budget - pairs);
                pairs += take;
                rep.bump(&format!("{}.programs-with-sites", p.origin));
                jobs.push((p, pr, take));
                job_prog.push(pi);
            }
        }
    }
    let results = par_map(&jobs, run_pairs);

    let mut pending: Vec<Pending> = vec![];
    let mut samples = 0;
    let mut shrunk = 0;
    for ((job, outs), pi) in jobs.iter().zip(results.into_iter()).zip(job_prog.iter()) {
        let (p, pr, _) = *job;
        let okind = kind_of(&pr.before);
        for (site, out) in pr.sites.iter().zip(outs.into_iter()) {
            let site = site.clone();
            match out {
                PairOutcome::NotExpressible => rep.bump(&format!("rule.{}.not-expressible-in-text", site.rule.name())),
                PairOutcome::TooLong => rep.bump(&format!("rule.{}.skipped.rewritten-too-long", site.rule.name())),
                PairOutcome::Rejected { new_text } => {
                    if p.origin == "corpus" {
                        // blocks holding labels / DIM / DATA cannot be duplicated or moved: not a rewrite site
                        rep.bump(&format!("rule.{}.skipped.rewritten-rejected(corpus)", site.rule.name()));
                    } else {
                        rep.case(Some(format!("{}|{}|{}|rejected|{}", site.rule.name(), site.detail, site.within, p.origin)));
                        rep.fail(Failure {
                            kind: Kind::ImplVsProperty,
                            signature: format!("rewritten-rejected:{}", site.rule.name()),
                            input: new_text.clone(),
                            implementation: "the front end rejects the respelled program".into(),
                            expected: format!("accepted like the original:\n{}", pr.re),
                            note: format!("rule {} inside {}", site.rule.name(), site.within),
                        });
                    }
                }
                PairOutcome::Ran { new_text, shape_differs, after } => {
                    if shape_differs {
                        rep.fail(Failure {
                            kind: Kind::ImplVsProperty,
                            signature: format!("if-spelling-tree:{}", site.rule.name()),
                            input: new_text.clone(),
                            implementation: "single-line IF and block IF parse + lint to different trees".into(),
                            expected: format!("the same IfBlock tree (positions erased) as\n{}", pr.re),
                            note: format!("inside {}", site.within),
                        });
                    }
                    rep.case(Some(format!("{}|{}|{}|{}|{}", site.rule.name(), site.detail, site.within, okind, p.origin)));
                    rep.bump(&format!("rule.{}", site.rule.name()));
                    if site.rule == Rule::ForWhile {
                        rep.bump(&format!("for-while.{}", site.detail));
                    }
                    rep.bump(&format!("within.{}", site.within));
                    rep.bump(&format!("outcome.{}", okind));
                    rep.bump(&format!("origin.{}", p.origin));
                    // a FOR with a zero step raises error 258 before its first round; WHILE has no such error
                    if site.rule == Rule::ForWhile && okind == "error 258" {
                        rep.bump("for-while.discarded.zero-step-has-no-while-spelling");
                    } else if after.outcome == "budget" {
                        rep.bump("discarded.rewritten-exceeds-budget");
                    } else if kind_of(&after) != okind || after.out != pr.before.out {
                        let what = if kind_of(&after) != okind { "outcome" } else { "output" };
                        // the first few failing pairs are shrunk (statements deleted while the same rule at the same site
                        // still changes the result); signature and comparison are those of the unshrunk pair
                        let small = if shrunk < 4 && p.origin != "corpus" {
                            shrunk += 1;
                            shrink_pair(&pr.re, site.node, site.rule)
                        } else {
                            None
                        };
                        let family = match p.hc {
                            Some((a, b, c)) => format!(
                                "; header-calls: position {}, callee {}, context {}",
                                hdr_calls::pos_name(a),
                                hdr_calls::shape_name(b),
                                hdr_calls::ctx_name(c)
                            ),
                            None => match ll_tag.get(pi) {
                                Some(tag) => format!("; loop-labels: {}", tag),
                                None => String::new(),
                            },
                        };
                        let (orig_t, new_t, bef, aft, shr) = match &small {
                            Some(fp) => (&fp.text, &fp.new_text, &fp.before, &fp.after, " (shrunk)"),
                            None => (&pr.re, &new_text, &pr.before, &after, ""),
                        };
                        rep.fail(Failure {
                            kind: Kind::ImplVsProperty,
                            signature: format!("{}:{}:in-{}", site.rule.name(), what, site.within),
                            input: format!("{}\n--- respelled ({} at site {}) ---\n{}", orig_t, site.rule.name(), site.kind_idx, new_t),
                            implementation: format!("{} / {:?}", aft.outcome, String::from_utf8_lossy(&aft.out)),
                            expected: format!("{} / {:?}", bef.outcome, String::from_utf8_lossy(&bef.out)),
                            note: format!("original vs respelled program on the real implementation{}{}", shr, family),
                        });
                    }
                    if samples < 3 && p.origin != "corpus" && matches!(site.rule, Rule::ForWhile | Rule::SelectIf) && new_text.len() < 1500 {
                        samples += 1;
                        rep.sample(J::s(format!("{} @{} in {}:\n{}", site.rule.name(), site.kind_idx, site.within, new_text)));
                    }
                    if let (Some(core), true) = (&pr.core_re, site.rule.in_model()) {
                        pending.push(Pending { prog: *pi, core: core.clone(), site, new_text, before: pr.before.clone(), after });
                    }
                }
            }
        }
    }
    rep.bump_by("pairs", (pairs + hc_pairs + ll_pairs) as u64);
    rep.bump_by("header-calls.pairs", hc_pairs as u64);
    rep.bump_by("loop-labels.pairs", ll_pairs as u64);

    // the model's rewrite at the same sites
    let reqs: Vec<String> =
        pending.iter().map(|q| format!("(rw.apply {} {} {} {})", FUEL, q.site.rule.name(), q.site.kind_idx, q.core)).collect();
    let answers = ask(&reqs);
    for (q, a) in pending.iter().zip(answers.iter()) {
        let parts = top_elems(a);
        let mv = |sig: &str, imp: String, exp: String, rep: &mut Report| {
            rep.fail(Failure {
                kind: Kind::ModelVsImpl,
                signature: format!("model:{}:{}", q.site.rule.name(), sig),
                input: format!("{}\n--- respelled ---\n{}", progs[q.prog].text, q.new_text),
                implementation: imp,
                expected: exp,
                note: format!("site {} of rule {}", q.site.kind_idx, q.site.rule.name()),
            });
        };
        if parts.first().map(|s| s.as_str()) == Some("na") {
            rep.bump(&format!("model.{}.not-applicable", q.site.rule.name()));
            mv("site", "the harness found the site applicable".into(), "(na) from the model".into(), &mut rep);
            continue;
        }
        if parts.len() != 3 || parts[0] != "both" {
            mv("unreadable", a.chars().take(200).collect(), "(both <before> <after>)".into(), &mut rep);
            continue;
        }
        let (Some(mb), Some(ma)) = (parse_ref_answer(&parts[1]), parse_ref_answer(&parts[2])) else {
            mv("unreadable", a.chars().take(200).collect(), "two ref.run answers".into(), &mut rep);
            continue;
        };
        rep.bump("model.compared");
        if mb.0 == "inexact" || ma.0 == "inexact" {
            rep.bump("model.discarded.inexact-float");
            continue;
        }
        if mb.0 == "outOfFuel" || ma.0 == "outOfFuel" {
            rep.bump("model.discarded.out-of-fuel");
            continue;
        }
        let mk = |o: &str| o.split(' ').take(2).collect::<Vec<_>>().join(" ");
        // before: exact (C01's comparison); after: outcome kind + output
        if mb.0 != q.before.outcome || mb.1 != q.before.out {
            mv(
                "before",
                format!("{} / {:?}", q.before.outcome, String::from_utf8_lossy(&q.before.out)),
                format!("{} / {:?}", mb.0, String::from_utf8_lossy(&mb.1)),
                &mut rep,
            );
        }
        if q.site.rule == Rule::ForWhile && mk(&mb.0) == "error 258" {
            continue;
        }
        if mk(&ma.0) != kind_of(&q.after) || ma.1 != q.after.out {
            mv(
                "after",
                format!("{} / {:?}", q.after.outcome, String::from_utf8_lossy(&q.after.out)),
                format!("{} / {:?}", ma.0, String::from_utf8_lossy(&ma.1)),
                &mut rep,
            );
        }
        // the model itself: before and after agree (what the theorems say)
        if mk(&ma.0) != mk(&mb.0) || ma.1 != mb.1 {
            mv(
                "model-rewrite-changes-result",
                format!("{} / {:?}", ma.0, String::from_utf8_lossy(&ma.1)),
                format!("{} / {:?}", mb.0, String::from_utf8_lossy(&mb.1)),
                &mut rep,
            );
        }
    }
    rep.notes.push(
        "single-line IF vs block IF is checked on the parsed + linted trees (Debug rendering, positions erased) and by running both; \
         it is a parser fact, not a Lean theorem"
            .into(),
    );
    rep.finish();
}
