//! C16 — PRINT lays text out by the column rules, on screen, printer and files alike.
//!
//! Real code (through the in-memory hook, source level and instruction level) vs
//!   * the Lean model `RbModel.Print` (driver request `print.run`)          -> `Kind::ModelVsImpl`
//!   * the column rules written down independently below (`reference`)      -> `Kind::ImplVsProperty`
//! All four sinks (stdout, LPT1, two files) are compared byte for byte, plus the termination status.

use std::collections::BTreeMap;
use std::path::PathBuf;

use rb_harness::driver::ask;
use rb_harness::json::J;
use rb_harness::report::{Failure, Kind, Report};
use rb_harness::rng::Rng;
use rusty_basic::instruction_generator::{Instruction, InstructionGeneratorResult, PrinterType};
use rusty_basic::interpreter::InterpreterTrait;
use rusty_basic::interpreter::verif::{compile, run_instructions};
use rusty_common::{Position, Positioned};
use rusty_variant::Variant;

// ------------------------------------------------------------------------------------------------
// programs
// ------------------------------------------------------------------------------------------------

#[derive(Clone, Debug, PartialEq)]
enum Val {
    /// INTEGER or LONG (by magnitude, as the lexer decides)
    Int(i64),
    /// SINGLE: sign, mantissa, scale (value = ± mant / 10^scale)
    Single(bool, u64, u32),
    /// DOUBLE
    Double(bool, u64, u32),
    Str(Vec<char>),
}

#[derive(Clone, Debug, PartialEq)]
enum Arg {
    Expr(Val),
    Comma,
    Semi,
    /// a call `F<j+1>%(n)` of the case's function number `j`; the function returns `n + 1`
    Call(usize, i64),
    /// an item whose evaluation raises a run-time error as long as its variable has its initial value
    /// (family `trapped`: the statement is abandoned in the middle of its list under an active error trap)
    Fail(FailKind),
}

#[derive(Clone, Copy, Debug, PartialEq)]
enum FailKind {
    /// `10 / Z%` with Z% = 0 (Division by zero); 2 once the handler has set Z% = 5
    DivZero,
    /// `M% * 2` with M% = 20000 (Overflow); 6 once the handler has set M% = 3
    Overflow,
    /// `CHR$(C%)` with C% = 300 (Illegal function call); "A" once the handler has set C% = 65
    Ifc,
}

impl FailKind {
    fn source(self) -> &'static str {
        match self {
            FailKind::DivZero => "10 / Z%",
            FailKind::Overflow => "M% * 2",
            FailKind::Ifc => "CHR$(C%)",
        }
    }
    fn repaired(self) -> Val {
        match self {
            FailKind::DivZero => Val::Int(2),
            FailKind::Overflow => Val::Int(6),
            FailKind::Ifc => Val::Str(vec!['A']),
        }
    }
}

/// how the error raised inside a PRINT list is trapped
#[derive(Clone, Copy, Debug, PartialEq)]
enum Trap {
    /// ON ERROR RESUME NEXT
    ResumeNext,
    /// ON ERROR GOTO Trap, the handler ends in RESUME NEXT
    HandlerResumeNext,
    /// ON ERROR GOTO Trap, the handler repairs the operands and ends in RESUME: the statement runs again from its start
    HandlerRepairResume,
}

impl Trap {
    fn name(self) -> &'static str {
        match self {
            Trap::ResumeNext => "on-error-resume-next",
            Trap::HandlerResumeNext => "handler-resume-next",
            Trap::HandlerRepairResume => "handler-repair-resume",
        }
    }
}

/// a history with failing items, run under an error trap; `handler`: PRINT statements the handler executes first
#[derive(Clone, Debug)]
struct TrapCase {
    case: Case,
    trap: Trap,
    handler: Vec<Stmt>,
    fam: &'static str,
}

#[derive(Clone, Copy, Debug, PartialEq, Eq, PartialOrd, Ord)]
enum Dev {
    Screen,
    Lpt1,
    File(u8),
}

#[derive(Clone, Debug)]
struct Stmt {
    dev: Dev,
    fmt: Option<Vec<char>>,
    args: Vec<Arg>,
}

#[derive(Clone, Copy, Debug, PartialEq)]
enum Level {
    /// BASIC source through parser, linter, instruction generator and VM
    Source,
    /// hand-built `Print*` instruction sequence (as the generator lowers it) through the VM
    Instr,
}

#[derive(Clone, Debug)]
struct Case {
    part: &'static str,
    level: Level,
    open: Vec<u8>,
    stmts: Vec<Stmt>,
    /// bodies of the FUNCTIONs the item lists may call: PRINT statements of their own
    funcs: Vec<Vec<Stmt>>,
}

fn dec_literal(neg: bool, mant: u64, scale: u32) -> String {
    let mut digits = mant.to_string();
    while digits.len() < scale as usize + 1 {
        digits.insert(0, '0');
    }
    let cut = digits.len() - scale as usize;
    let (ip, fp) = digits.split_at(cut);
    let fp = if fp.is_empty() { "0" } else { fp };
    format!("{}{}.{}", if neg { "-" } else { "" }, ip, fp)
}

fn str_expr(s: &[char]) -> String {
    if s.is_empty() {
        return "\"\"".to_owned();
    }
    let mut parts: Vec<String> = vec![];
    let mut cur = String::new();
    for &c in s {
        if (' '..='~').contains(&c) && c != '"' {
            if cur.len() >= 30 {
                parts.push(format!("\"{}\"", cur));
                cur.clear();
            }
            cur.push(c);
        } else {
            if !cur.is_empty() {
                parts.push(format!("\"{}\"", cur));
                cur.clear();
            }
            parts.push(format!("CHR$({})", c as u32));
        }
    }
    if !cur.is_empty() {
        parts.push(format!("\"{}\"", cur));
    }
    parts.join(" + ")
}

fn val_source(v: &Val) -> String {
    match v {
        Val::Int(n) => n.to_string(),
        Val::Single(neg, m, s) => dec_literal(*neg, *m, *s),
        Val::Double(neg, m, s) => format!("{}#", dec_literal(*neg, *m, *s)),
        Val::Str(s) => str_expr(s),
    }
}

fn stmt_source(s: &Stmt) -> String {
    let mut t = match s.dev {
        Dev::Screen => "PRINT".to_owned(),
        Dev::Lpt1 => "LPRINT".to_owned(),
        Dev::File(h) => format!("PRINT #{},", h),
    };
    if let Some(f) = &s.fmt {
        t.push_str(&format!(" USING {};", str_expr(f)));
    }
    for a in &s.args {
        t.push(' ');
        match a {
            Arg::Expr(v) => t.push_str(&val_source(v)),
            Arg::Comma => t.push(','),
            Arg::Semi => t.push(';'),
            Arg::Call(j, n) => t.push_str(&format!("F{}%({})", j + 1, n)),
            Arg::Fail(k) => t.push_str(k.source()),
        }
    }
    t
}

/// the program of a trapped history: trap, operands of the failing items, files, statements, END, handler, functions
fn trap_source(tc: &TrapCase, worker: usize) -> String {
    let c = &tc.case;
    let mut t = String::new();
    for j in 0..c.funcs.len() {
        t.push_str(&format!("DECLARE FUNCTION F{}% (X%)\n", j + 1));
    }
    t.push_str(if tc.trap == Trap::ResumeNext { "ON ERROR RESUME NEXT\n" } else { "ON ERROR GOTO Trap\n" });
    t.push_str("Z% = 0\nM% = 20000\nC% = 300\n");
    for &h in &c.open {
        t.push_str(&format!("OPEN \"{}\" FOR OUTPUT AS #{}\n", file_name(h, worker), h));
    }
    for s in &c.stmts {
        t.push_str(&stmt_source(s));
        t.push('\n');
    }
    t.push_str("END\n");
    if tc.trap != Trap::ResumeNext {
        t.push_str("Trap:\n");
        for s in &tc.handler {
            t.push_str(&stmt_source(s));
            t.push('\n');
        }
        if tc.trap == Trap::HandlerRepairResume {
            t.push_str("Z% = 5\nM% = 3\nC% = 65\nRESUME\n");
        } else {
            t.push_str("RESUME NEXT\n");
        }
    }
    for (j, body) in c.funcs.iter().enumerate() {
        t.push_str(&format!("FUNCTION F{}% (X%)\n", j + 1));
        for s in body {
            t.push_str("  ");
            t.push_str(&stmt_source(s));
            t.push('\n');
        }
        t.push_str(&format!("  F{}% = X% + 1\nEND FUNCTION\n", j + 1));
    }
    t
}

fn file_name(h: u8, worker: usize) -> String {
    format!("{}{}.txt", if h == 1 { "a" } else { "b" }, worker)
}

fn case_source(c: &Case, worker: usize) -> String {
    let mut t = String::new();
    for j in 0..c.funcs.len() {
        t.push_str(&format!("DECLARE FUNCTION F{}% (X%)\n", j + 1));
    }
    for &h in &c.open {
        t.push_str(&format!("OPEN \"{}\" FOR OUTPUT AS #{}\n", file_name(h, worker), h));
    }
    for s in &c.stmts {
        t.push_str(&stmt_source(s));
        t.push('\n');
    }
    for (j, body) in c.funcs.iter().enumerate() {
        t.push_str(&format!("FUNCTION F{}% (X%)\n", j + 1));
        for s in body {
            t.push_str("  ");
            t.push_str(&stmt_source(s));
            t.push('\n');
        }
        t.push_str(&format!("  F{}% = X% + 1\nEND FUNCTION\n", j + 1));
    }
    t
}

fn cps(s: &[char]) -> String {
    s.iter().map(|c| (*c as u32).to_string()).collect::<Vec<_>>().join(" ")
}

fn val_sx(v: &Val) -> String {
    let b = |x: bool| if x { "t" } else { "f" };
    match v {
        Val::Int(n) if (-32768..=32767).contains(n) => format!("(i {})", n),
        Val::Int(n) => format!("(l {})", n),
        Val::Single(neg, m, s) => format!("(f {} {} {})", b(*neg), m, s),
        Val::Double(neg, m, s) => format!("(d {} {} {})", b(*neg), m, s),
        Val::Str(s) => format!("(t {})", cps(s)),
    }
}

fn stmt_sx(s: &Stmt) -> String {
    let mut t = String::from("(");
    match s.dev {
        Dev::Screen => t.push('s'),
        Dev::Lpt1 => t.push('l'),
        Dev::File(h) => t.push_str(&format!("(f {})", h)),
    }
    match &s.fmt {
        None => t.push_str(" n ("),
        Some(f) => t.push_str(&format!(" (u {}) (", cps(f))),
    }
    for (k, a) in s.args.iter().enumerate() {
        if k > 0 {
            t.push(' ');
        }
        match a {
            Arg::Expr(v) => t.push_str(&val_sx(v)),
            Arg::Comma => t.push('c'),
            Arg::Semi => t.push('s'),
            Arg::Call(j, n) => t.push_str(&format!("(k {} {})", j, n)),
            // the model has no failing items: the trapped family lays the history out (`trap_sx`), a failing item that
            // is reached there has its repaired value
            Arg::Fail(k) => t.push_str(&val_sx(&k.repaired())),
        }
    }
    t.push_str("))");
    t
}

fn case_sx(c: &Case) -> String {
    let handles = c.open.iter().map(|h| h.to_string()).collect::<Vec<_>>().join(" ");
    let stmts = c.stmts.iter().map(stmt_sx).collect::<Vec<_>>().join("");
    if c.funcs.is_empty() {
        format!("(print.run ({}) ({}))", handles, stmts)
    } else {
        let funcs: String =
            c.funcs.iter().map(|b| format!("({})", b.iter().map(stmt_sx).collect::<Vec<_>>().join(""))).collect();
        format!("(print.runf ({}) ({}) ({}))", handles, funcs, stmts)
    }
}

// ------------------------------------------------------------------------------------------------
// what a run yields (real code, model, reference alike)
// ------------------------------------------------------------------------------------------------

#[derive(Clone, Debug, PartialEq, Default)]
struct Outcome {
    status: String,
    /// screen, LPT1, then the open files in order: bytes written
    sinks: Vec<Vec<u8>>,
}

fn utf8(s: &[char]) -> Vec<u8> {
    s.iter().collect::<String>().into_bytes()
}

fn show(b: &[u8]) -> String {
    format!("{:?}", String::from_utf8_lossy(b))
}

fn sink_name(k: usize) -> &'static str {
    match k {
        0 => "screen",
        1 => "lpt1",
        _ => "file",
    }
}

// ------------------------------------------------------------------------------------------------
// the real code
// ------------------------------------------------------------------------------------------------

fn status_of(result: &Result<(), rusty_basic::RuntimeErrorPos>) -> String {
    match result {
        Ok(()) => "ok".to_owned(),
        Err(e) => {
            let d = format!("{:?}", e);
            if d.contains("IllegalFunctionCall") {
                "illegal-function-call".to_owned()
            } else if d.contains("TypeMismatch") {
                "type-mismatch".to_owned()
            } else if d.contains("FileNotFound") || d.contains("BadFileMode") {
                "file-not-open".to_owned()
            } else {
                format!("runtime:{}", d.chars().take(80).collect::<String>())
            }
        }
    }
}

fn instr_tags(r: &InstructionGeneratorResult) -> Vec<String> {
    let mut v = vec![];
    for i in &r.instructions {
        match &i.element {
            Instruction::PrintSetPrinterType(PrinterType::Print) => v.push("Tp".to_owned()),
            Instruction::PrintSetPrinterType(PrinterType::LPrint) => v.push("Tl".to_owned()),
            Instruction::PrintSetPrinterType(PrinterType::File) => v.push("Tf".to_owned()),
            Instruction::PrintSetFileHandle(h) => v.push(format!("H{}", i32::from(*h))),
            Instruction::PrintSetFormatStringFromA => v.push("F".to_owned()),
            Instruction::PrintComma => v.push("C".to_owned()),
            Instruction::PrintSemicolon => v.push("S".to_owned()),
            Instruction::PrintValueFromA => v.push("V".to_owned()),
            Instruction::PrintEnd => v.push("E".to_owned()),
            _ => {}
        }
    }
    v
}

fn variant_of(v: &Val) -> Variant {
    match v {
        Val::Int(n) if (-32768..=32767).contains(n) => Variant::VInteger(*n as i32),
        Val::Int(n) => Variant::VLong(*n),
        Val::Single(neg, m, s) => Variant::VSingle(dec_literal(*neg, *m, *s).parse::<f32>().unwrap()),
        Val::Double(neg, m, s) => Variant::VDouble(dec_literal(*neg, *m, *s).parse::<f64>().unwrap()),
        Val::Str(s) => Variant::VString(s.iter().collect()),
    }
}

/// The instruction sequence `generate_print_instructions` emits, with constants in place of expression code.
fn hand_lowered(c: &Case) -> InstructionGeneratorResult {
    let mut ins: Vec<Positioned<Instruction>> = vec![];
    let mut addrs = vec![];
    for (row, s) in c.stmts.iter().enumerate() {
        let pos = Position::new(row as u32 + 1, 1);
        addrs.push(ins.len());
        let mut push = |i: Instruction| ins.push(Positioned::new(i, pos));
        match s.dev {
            Dev::Screen => push(Instruction::PrintSetPrinterType(PrinterType::Print)),
            Dev::Lpt1 => push(Instruction::PrintSetPrinterType(PrinterType::LPrint)),
            Dev::File(h) => {
                push(Instruction::PrintSetPrinterType(PrinterType::File));
                push(Instruction::PrintSetFileHandle(h.into()));
            }
        }
        match &s.fmt {
            Some(f) => push(Instruction::LoadIntoA(Variant::VString(f.iter().collect()))),
            None => push(Instruction::LoadIntoA(rusty_variant::V_FALSE)),
        }
        push(Instruction::PrintSetFormatStringFromA);
        for a in &s.args {
            match a {
                Arg::Expr(v) => {
                    push(Instruction::LoadIntoA(variant_of(v)));
                    push(Instruction::PrintValueFromA);
                }
                Arg::Comma => push(Instruction::PrintComma),
                Arg::Semi => push(Instruction::PrintSemicolon),
                Arg::Call(..) | Arg::Fail(_) => unreachable!("calls and failing items are exercised at source level only"),
            }
        }
        push(Instruction::PrintEnd);
    }
    InstructionGeneratorResult { instructions: ins, statement_addresses: addrs, label_depths: Default::default() }
}

/// Runs the case on the real code. Returns the outcome and (source level) the lowering tags.
fn run_real(c: &Case, worker: usize) -> (Outcome, Option<Vec<String>>, String) {
    for &h in &[1u8, 2] {
        let _ = std::fs::remove_file(file_name(h, worker));
    }
    let (text, compiled) = match c.level {
        Level::Source => {
            let text = case_source(c, worker);
            let r = std::panic::catch_unwind(|| compile(&text));
            (text, r)
        }
        Level::Instr => (
            c.stmts.iter().map(stmt_source).collect::<Vec<_>>().join("\n") + "\n[hand-lowered instructions]",
            Ok(Ok((hand_lowered(c), Default::default()))),
        ),
    };
    let mut out = Outcome::default();
    let mut tags = None;
    match compiled {
        Err(_) => out.status = "panic:front-end".to_owned(),
        Ok(Err(e)) => out.status = format!("front-end:{}", format!("{:?}", e).chars().take(80).collect::<String>()),
        Ok(Ok((igr, udt))) => {
            if c.level == Level::Source {
                tags = Some(instr_tags(&igr));
            }
            let r = std::panic::catch_unwind(std::panic::AssertUnwindSafe(|| {
                run_instructions(igr, udt, b"", 2_000_000, None, false)
            }));
            match r {
                Err(_) => out.status = "panic".to_owned(),
                Ok(r) => {
                    out.status = status_of(&r.result);
                    out.sinks.push(r.stdout);
                    out.sinks.push(r.lpt1);
                    for &h in &c.open {
                        out.sinks.push(std::fs::read(file_name(h, worker)).unwrap_or_else(|_| b"<no file>".to_vec()));
                    }
                }
            }
        }
    }
    (out, tags, text)
}

/// Runs a program text (source level) on the real code; the sinks are stdout, LPT1 and the files `open`.
fn run_real_text(text: &str, open: &[u8], worker: usize) -> Outcome {
    for &h in &[1u8, 2] {
        let _ = std::fs::remove_file(file_name(h, worker));
    }
    let mut out = Outcome::default();
    match std::panic::catch_unwind(|| compile(text)) {
        Err(_) => out.status = "panic:front-end".to_owned(),
        Ok(Err(e)) => out.status = format!("front-end:{}", format!("{:?}", e).chars().take(80).collect::<String>()),
        Ok(Ok((igr, udt))) => {
            match std::panic::catch_unwind(std::panic::AssertUnwindSafe(|| run_instructions(igr, udt, b"", 2_000_000, None, false))) {
                Err(_) => out.status = "panic".to_owned(),
                Ok(r) => {
                    out.status = status_of(&r.result);
                    out.sinks.push(r.stdout);
                    out.sinks.push(r.lpt1);
                    for &h in open {
                        out.sinks.push(std::fs::read(file_name(h, worker)).unwrap_or_else(|_| b"<no file>".to_vec()));
                    }
                }
            }
        }
    }
    out
}

// ------------------------------------------------------------------------------------------------
// the model's answer
// ------------------------------------------------------------------------------------------------

struct ModelAnswer {
    outcome: Outcome,
    tags: Vec<String>,
    cols: Vec<usize>,
}

fn parse_answer(a: &str) -> Option<ModelAnswer> {
    // (status (tags...) (col cp ...) ...)
    let mut toks: Vec<&str> = vec![];
    let mut start: Option<usize> = None;
    for (k, ch) in a.char_indices() {
        if ch == '(' || ch == ')' || ch == ' ' {
            if let Some(s0) = start.take() {
                toks.push(&a[s0..k]);
            }
            if ch != ' ' {
                toks.push(&a[k..k + 1]);
            }
        } else if start.is_none() {
            start = Some(k);
        }
    }
    if let Some(s0) = start {
        toks.push(&a[s0..]);
    }
    let mut i = 0;
    if toks.get(i) != Some(&"(") {
        return None;
    }
    i += 1;
    let status = toks.get(i)?.to_string();
    i += 1;
    let mut groups: Vec<Vec<&str>> = vec![];
    while toks.get(i) == Some(&"(") {
        i += 1;
        let mut g = vec![];
        while *toks.get(i)? != ")" {
            g.push(toks[i]);
            i += 1;
        }
        i += 1;
        groups.push(g);
    }
    if toks.get(i) != Some(&")") || groups.is_empty() {
        return None;
    }
    let tags = groups[0].iter().map(|s| s.to_string()).collect();
    let mut sinks = vec![];
    let mut cols = vec![];
    for g in &groups[1..] {
        cols.push(g.first()?.parse::<usize>().ok()?);
        let chars: Option<Vec<char>> = g[1..].iter().map(|t| t.parse::<u32>().ok().and_then(char::from_u32)).collect();
        sinks.push(utf8(&chars?));
    }
    Some(ModelAnswer { outcome: Outcome { status, sinks }, tags, cols })
}

// ------------------------------------------------------------------------------------------------
// the column rules, written down independently (the property's oracle)
// ------------------------------------------------------------------------------------------------

mod reference {
    use super::{Arg, Case, Dev, Outcome, Stmt, Val, utf8};
    use std::collections::BTreeMap;

    #[derive(Default)]
    pub struct Sink {
        pub out: Vec<char>,
        pub col: usize,
    }

    impl Sink {
        /// text goes out verbatim, except that a CR or an LF each ends the line (CR LF is written, the column restarts)
        fn text(&mut self, s: &[char]) {
            for &c in s {
                if c == '\r' || c == '\n' {
                    self.newline();
                } else {
                    self.out.push(c);
                    self.col += 1;
                }
            }
        }
        fn newline(&mut self) {
            self.out.push('\r');
            self.out.push('\n');
            self.col = 0;
        }
        /// a comma pads to the next multiple of 14
        fn zone(&mut self) {
            loop {
                self.out.push(' ');
                self.col += 1;
                if self.col % 14 == 0 {
                    break;
                }
            }
        }
    }

    /// decimal expansion of ± mant / 10^scale without trailing zeros
    pub fn dec_plain(neg: bool, mant: u64, scale: u32) -> String {
        let mut digits = mant.to_string();
        while digits.len() < scale as usize + 1 {
            digits.insert(0, '0');
        }
        let cut = digits.len() - scale as usize;
        let ip = digits[..cut].to_owned();
        let fp = digits[cut..].trim_end_matches('0').to_owned();
        let body = if fp.is_empty() { ip } else { format!("{}.{}", ip, fp) };
        if neg { format!("-{}", body) } else { body }
    }

    /// a number: minus sign or a space, the digits, a space; a string: verbatim
    pub fn plain_text(v: &Val) -> Vec<char> {
        let s = match v {
            Val::Int(n) => {
                if *n < 0 {
                    format!("{} ", n)
                } else {
                    format!(" {} ", n)
                }
            }
            Val::Single(neg, m, s) | Val::Double(neg, m, s) => {
                // a zero of either sign is just 0
                let negative = *neg && *m != 0;
                let t = dec_plain(negative, *m, *s);
                if negative { format!("{} ", t) } else { format!(" {} ", t) }
            }
            Val::Str(s) => return s.clone(),
        };
        s.chars().collect()
    }

    #[derive(Debug, PartialEq)]
    pub enum E {
        Ifc,
        Tm,
        NoFile,
        /// a failing item (`Arg::Fail`) was reached before the handler repaired its operand
        Fail,
    }

    /// ± mant/10^scale rounded to k fractional digits -> (negative, integer digits, k fraction digits)
    fn rounded(neg: bool, mant: u64, scale: u32, k: u32, half_even: bool) -> (bool, String, String) {
        let mant = mant as u128;
        let m = if scale <= k {
            mant * 10u128.pow(k - scale)
        } else {
            let p = 10u128.pow(scale - k);
            let (q, r) = (mant / p, mant % p);
            if 2 * r > p || (2 * r == p && (!half_even || q % 2 == 1)) { q + 1 } else { q }
        };
        let p = 10u128.pow(k);
        let ip = (m / p).to_string();
        let fp = if k == 0 { String::new() } else { format!("{:0width$}", m % p, width = k as usize) };
        (neg, ip, fp)
    }

    /// the digits a numeric field shows for a value: (integer part with sign, fraction digits)
    fn number_parts(v: &Val, k: u32) -> Result<(String, String), E> {
        match v {
            Val::Int(n) => Ok((n.to_string(), "0".repeat(k as usize))),
            Val::Single(neg, m, s) | Val::Double(neg, m, s) => {
                if k == 0 {
                    // nearest whole number, halves away from zero; no "-0"
                    let (neg, ip, _) = rounded(*neg, *m, *s, 0, false);
                    Ok((if neg && ip != "0" { format!("-{}", ip) } else { ip }, String::new()))
                } else {
                    let (neg, ip, fp) = rounded(*neg, *m, *s, k, true);
                    Ok((if neg { format!("-{}", ip) } else { ip }, fp))
                }
            }
            Val::Str(_) => Err(E::Tm),
        }
    }

    /// `#`/`,` picture filled from the right; digits that do not fit are kept in front
    fn picture(pic: &[char], digits: &str) -> String {
        let mut ds: Vec<char> = digits.chars().collect();
        let mut out: Vec<char> = vec![];
        for &p in pic.iter().rev() {
            if p == ',' {
                out.push(if ds.is_empty() { ' ' } else { ',' });
            } else {
                out.push(ds.pop().unwrap_or(' '));
            }
        }
        while let Some(d) = ds.pop() {
            out.push(d);
        }
        out.iter().rev().collect()
    }

    fn is_field_start(c: char) -> bool {
        c == '#' || c == '\\' || c == '!'
    }

    /// one value through the format: literal text up to the next field (wrapping around), then the field
    fn using_value(fmt: &[char], cursor: &mut usize, v: &Val) -> Result<Vec<char>, E> {
        if fmt.is_empty() {
            return Err(E::Ifc);
        }
        let n = fmt.len();
        let mut pos = *cursor % n;
        let mut out: Vec<char> = vec![];
        let mut seen = 0;
        while !is_field_start(fmt[pos]) {
            out.push(fmt[pos]);
            pos = (pos + 1) % n;
            seen += 1;
            if seen == n {
                return Err(E::Ifc);
            }
        }
        match fmt[pos] {
            '#' => {
                let mut end = pos;
                while end < n && (fmt[end] == '#' || fmt[end] == ',' || fmt[end] == '.') {
                    end += 1;
                }
                let field = &fmt[pos..end];
                let pieces: Vec<&[char]> = field.split(|c| *c == '.').collect();
                let int_pic = pieces[0];
                if pieces.len() > 1 && pieces[1].is_empty() {
                    return Err(E::Ifc);
                }
                let k = if pieces.len() > 1 { pieces[1].len() as u32 } else { 0 };
                let (ip, fp) = number_parts(v, k)?;
                let mut s = picture(int_pic, &ip);
                if k > 0 {
                    s.push('.');
                    s.push_str(&fp);
                }
                out.extend(s.chars());
                *cursor = end;
            }
            '\\' => {
                let mut end = pos + 1;
                while end < n && fmt[end] == ' ' {
                    end += 1;
                }
                if end >= n || fmt[end] != '\\' {
                    return Err(E::Ifc);
                }
                let width = end - pos + 1;
                let s = match v {
                    Val::Str(s) => s,
                    _ => return Err(E::Tm),
                };
                let mut t: Vec<char> = s.iter().copied().take_while(|c| *c != '\0').take(width).collect();
                while t.len() < width {
                    t.push(' ');
                }
                out.extend(t);
                *cursor = end + 1;
            }
            _ => {
                let s = match v {
                    Val::Str(s) => s,
                    _ => return Err(E::Tm),
                };
                out.push(*s.first().ok_or(E::Ifc)?);
                *cursor = pos + 1;
            }
        }
        Ok(out)
    }

    /// A statement writes to its device item by item; a closed file is noticed when something is to be written
    /// (after the value has been laid out), or at the end of the statement.
    ///
    /// An item that calls a FUNCTION: the statements of the function's body run first, each a complete statement
    /// on its own device; then the returned value is laid out by THIS statement, on its own device, with its own
    /// format cursor; the newline decision at the end depends only on this statement's own last item.
    ///
    /// `fixed`: the operands of the failing items have been repaired (they have their second value). An item that
    /// fails ends the statement there: what the items in front of it wrote stays, nothing else is written, in
    /// particular no CR LF (the rule of the property for a statement that does not reach its end).
    fn stmt(sinks: &mut BTreeMap<Dev, Sink>, funcs: &[Vec<Stmt>], s: &Stmt, fixed: bool) -> Result<(), E> {
        let fmt = s.fmt.as_ref();
        let mut cursor = 0usize;
        for a in &s.args {
            match a {
                Arg::Call(j, n) => {
                    for callee in &funcs[*j] {
                        stmt(sinks, funcs, callee, fixed)?;
                    }
                    let v = Val::Int(*n + 1);
                    let t = match fmt {
                        None => plain_text(&v),
                        Some(f) => using_value(f, &mut cursor, &v)?,
                    };
                    sinks.get_mut(&s.dev).ok_or(E::NoFile)?.text(&t);
                }
                Arg::Expr(v) => {
                    let t = match fmt {
                        None => plain_text(v),
                        Some(f) => using_value(f, &mut cursor, v)?,
                    };
                    sinks.get_mut(&s.dev).ok_or(E::NoFile)?.text(&t);
                }
                Arg::Fail(k) => {
                    if !fixed {
                        return Err(E::Fail);
                    }
                    let v = k.repaired();
                    let t = match fmt {
                        None => plain_text(&v),
                        Some(f) => using_value(f, &mut cursor, &v)?,
                    };
                    sinks.get_mut(&s.dev).ok_or(E::NoFile)?.text(&t);
                }
                Arg::Comma => sinks.get_mut(&s.dev).ok_or(E::NoFile)?.zone(),
                Arg::Semi => {}
            }
        }
        let sink = sinks.get_mut(&s.dev).ok_or(E::NoFile)?;
        if let Some(f) = fmt {
            let rest: Vec<char> = f.iter().skip(cursor).take_while(|c| !is_field_start(**c)).copied().collect();
            sink.text(&rest);
        }
        if !matches!(s.args.last(), Some(Arg::Comma) | Some(Arg::Semi)) {
            sink.newline();
        }
        Ok(())
    }

    pub fn run(c: &Case) -> (Outcome, Vec<usize>) {
        let mut sinks: BTreeMap<Dev, Sink> = BTreeMap::new();
        sinks.insert(Dev::Screen, Sink::default());
        sinks.insert(Dev::Lpt1, Sink::default());
        for &h in &c.open {
            sinks.insert(Dev::File(h), Sink::default());
        }
        let mut status = "ok";
        for s in &c.stmts {
            match stmt(&mut sinks, &c.funcs, s, false) {
                Ok(()) => {}
                Err(e) => {
                    status = match e {
                        E::Ifc => "illegal-function-call",
                        E::Tm => "type-mismatch",
                        E::NoFile => "file-not-open",
                        E::Fail => "runtime-error",
                    };
                    break;
                }
            }
        }
        let order: Vec<Dev> =
            [Dev::Screen, Dev::Lpt1].into_iter().chain(c.open.iter().map(|h| Dev::File(*h))).collect();
        (
            Outcome { status: status.to_owned(), sinks: order.iter().map(|d| utf8(&sinks[d].out)).collect() },
            order.iter().map(|d| sinks[d].col).collect(),
        )
    }

    /// true when the statement runs to its end once the operands of its failing items are repaired (no error of
    /// PRINT USING itself)
    pub fn completes_when_fixed(s: &Stmt) -> bool {
        let mut sinks: BTreeMap<Dev, Sink> = BTreeMap::new();
        for d in [Dev::Screen, Dev::Lpt1, Dev::File(1), Dev::File(2)] {
            sinks.insert(d, Sink::default());
        }
        stmt(&mut sinks, &[], s, true).is_ok()
    }

    /// A history under an error trap. A statement whose item fails is abandoned where it failed (see `stmt`); the
    /// handler's own PRINT statements run (complete statements, like any other); then the run goes on with the next
    /// statement (`resume_same` false: ON ERROR RESUME NEXT, or a handler ending in RESUME NEXT), or with the same
    /// statement from its start, its operands repaired (`resume_same`: RESUME). The next statement starts as after
    /// any statement: nothing of the abandoned one is pending. Status `loops` = the statement fails again after the
    /// repair (such programs are not generated).
    pub fn run_trapped(c: &Case, resume_same: bool, handler: &[Stmt]) -> Outcome {
        let mut sinks: BTreeMap<Dev, Sink> = BTreeMap::new();
        sinks.insert(Dev::Screen, Sink::default());
        sinks.insert(Dev::Lpt1, Sink::default());
        for &h in &c.open {
            sinks.insert(Dev::File(h), Sink::default());
        }
        let mut status = "ok";
        let mut fixed = false;
        let mut k = 0;
        'run: while k < c.stmts.len() {
            match stmt(&mut sinks, &c.funcs, &c.stmts[k], fixed) {
                Ok(()) => k += 1,
                Err(_) => {
                    for h in handler {
                        if stmt(&mut sinks, &c.funcs, h, fixed).is_err() {
                            status = "error-in-handler";
                            break 'run;
                        }
                    }
                    if !resume_same {
                        k += 1;
                    } else if fixed {
                        status = "loops";
                        break;
                    } else {
                        fixed = true;
                    }
                }
            }
        }
        let order: Vec<Dev> =
            [Dev::Screen, Dev::Lpt1].into_iter().chain(c.open.iter().map(|h| Dev::File(*h))).collect();
        Outcome { status: status.to_owned(), sinks: order.iter().map(|d| utf8(&sinks[d].out)).collect() }
    }
}

// ------------------------------------------------------------------------------------------------
// generators
// ------------------------------------------------------------------------------------------------

const ALPHABET: [char; 7] = ['#', ',', '.', '\\', ' ', '!', 'x'];

fn pow10(k: u32) -> u64 {
    10u64.pow(k)
}

/// A decimal whose rounding at any number of fraction digits is not a tie of a non-binary fraction.
fn untie(mant: u64, scale: u32) -> u64 {
    let (mut m, mut s) = (mant, scale);
    while s > 0 && m % 10 == 0 {
        m /= 10;
        s -= 1;
    }
    if s >= 2 && m % 10 == 5 && m % 5u64.pow(s.min(20)) != 0 { mant + 1 } else { mant }
}

fn gen_string(rng: &mut Rng) -> Vec<char> {
    let len = match rng.below(10) {
        0 | 1 => 0,
        2..=6 => rng.range(1, 8) as usize,
        7 | 8 => rng.range(9, 20) as usize,
        _ => rng.range(21, 45) as usize,
    };
    let flavour = rng.below(10);
    (0..len)
        .map(|_| {
            let r = rng.below(100);
            if flavour < 3 && r < 12 {
                *rng.pick(&['\r', '\n'])
            } else if flavour == 3 && r < 30 {
                char::from_u32(rng.range(128, 255) as u32).unwrap()
            } else if r < 3 {
                '"'
            } else if r < 10 {
                ' '
            } else {
                *rng.pick(&['a', 'b', 'Z', '0', '9', '-', '.', ',', '#', '!', '\\', '~'])
            }
        })
        .collect()
}

/// `for_using`: keep SINGLE values to binary fractions (so that every digit a wide field shows is exact)
fn gen_number(rng: &mut Rng, for_using: bool) -> Val {
    let neg = rng.chance(2, 5);
    match rng.below(8) {
        0 => Val::Int(*rng.pick(&[0i64, 1, -1, 9, 10, 99, 100, 32767, -32768, -32767, 12345])),
        1 => Val::Int(rng.range(-32768, 32767)),
        2 => Val::Int(*rng.pick(&[32768i64, -32769, 65536, 2147483647, -2147483647, 100000, -999999, 1000000000])),
        3 => Val::Int(rng.range(-2_000_000_000, 2_000_000_000)),
        4 | 5 => {
            if for_using {
                let (m, s) = *rng.pick(&[(5u64, 1u32), (225, 2), (775, 2), (100125, 3), (3, 0), (1024, 0), (75, 2)]);
                Val::Single(neg, m, s)
            } else {
                let digits = rng.range(1, 6) as u32;
                let mant = rng.range(0, pow10(digits) as i64 - 1) as u64;
                let scale = rng.range(0, 6) as u32;
                Val::Single(neg, mant, scale)
            }
        }
        _ => {
            let digits = rng.range(1, if for_using { 9 } else { 15 }) as u32;
            let mant = rng.range(0, pow10(digits) as i64 - 1) as u64;
            let scale = rng.range(0, if for_using { 5 } else { 10 }) as u32;
            let mant = if for_using { untie(mant, scale) } else { mant };
            Val::Double(neg, mant, scale)
        }
    }
}

fn gen_value(rng: &mut Rng) -> Val {
    if rng.chance(2, 5) { Val::Str(gen_string(rng)) } else { gen_number(rng, false) }
}

/// item lists with separators in every position (leading, trailing, consecutive); never two expressions in a row
fn gen_args(rng: &mut Rng, for_using: bool) -> Vec<Arg> {
    let n = match rng.below(10) {
        0 => 0,
        1..=3 => rng.range(1, 2),
        4..=7 => rng.range(3, 5),
        _ => rng.range(6, 9),
    };
    let mut v: Vec<Arg> = vec![];
    for _ in 0..n {
        let last_is_expr = matches!(v.last(), Some(Arg::Expr(_)));
        let r = rng.below(10);
        if !last_is_expr && r < 6 {
            v.push(Arg::Expr(if for_using {
                if rng.chance(1, 3) { Val::Str(gen_string(rng)) } else { gen_number(rng, true) }
            } else {
                gen_value(rng)
            }));
        } else if r % 2 == 0 {
            v.push(Arg::Comma);
        } else {
            v.push(Arg::Semi);
        }
    }
    v
}

fn gen_format(rng: &mut Rng) -> Vec<char> {
    const TEMPLATES: [&str; 14] = [
        "###", "#,###.##", "A: # B: # C", "\\  \\", "!", "##.# and \\ \\ then !", "x", "", "#.", "Total ###,###.## EUR",
        "\\ x\\", "[!] [\\\\] [#]", "###.###.#", "\\   ",
    ];
    if rng.chance(1, 2) {
        rng.pick(&TEMPLATES).chars().collect()
    } else {
        let len = rng.range(0, 10);
        (0..len).map(|_| *rng.pick(&ALPHABET)).collect()
    }
}

fn gen_history(rng: &mut Rng) -> Case {
    let open: Vec<u8> = match rng.below(20) {
        0 => vec![1],
        1 => vec![2],
        _ => vec![1, 2],
    };
    let n = rng.range(2, 10);
    let mut stmts = vec![];
    for _ in 0..n {
        let dev = match rng.below(if open.len() == 2 { 8 } else { 9 }) {
            0 | 1 => Dev::Screen,
            2 | 3 => Dev::Lpt1,
            4 | 5 => Dev::File(1),
            6 | 7 => Dev::File(2),
            _ => Dev::File(3 - open[0]), // a closed handle
        };
        let using = rng.chance(1, 7);
        let fmt = if using { Some(gen_format(rng)) } else { None };
        let args = gen_args(rng, using);
        stmts.push(Stmt { dev, fmt, args });
    }
    // make the hidden column of every device visible: pad to the next zone, then a mark
    for d in [Dev::Screen, Dev::Lpt1].into_iter().chain(open.iter().map(|h| Dev::File(*h))) {
        stmts.push(Stmt { dev: d, fmt: None, args: vec![Arg::Comma, Arg::Expr(Val::Str(vec!['|']))] });
    }
    Case { part: "history", level: Level::Source, open, stmts, funcs: vec![] }
}

/// One statement of the call family: mostly well formed (numeric pictures for USING), items may call one of the
/// functions `0..callable`.
fn gen_call_stmt(rng: &mut Rng, devs: &[Dev], callable: usize, force_call: bool) -> Stmt {
    const NUMFMT: [&str; 7] = ["##.#", "A: # B: # C", "###,###", "[##]", "#", "## and ## ", "x"];
    let dev = *rng.pick(devs);
    let using = rng.chance(3, 10);
    let fmt: Option<Vec<char>> = if using { Some(rng.pick(&NUMFMT).chars().collect()) } else { None };
    let n = if rng.chance(1, 6) { 0 } else { rng.range(1, 6) };
    let mut args: Vec<Arg> = vec![];
    for _ in 0..n {
        let last_is_value = matches!(args.last(), Some(Arg::Expr(_)) | Some(Arg::Call(..)));
        let r = rng.below(10);
        if !last_is_value && r < 6 {
            if callable > 0 && rng.chance(1, 2) {
                args.push(Arg::Call(rng.below(callable as u64) as usize, rng.range(-3, 40)));
            } else if using {
                args.push(Arg::Expr(Val::Int(rng.range(-99, 999))));
            } else {
                args.push(Arg::Expr(gen_value(rng)));
            }
        } else if r % 2 == 0 {
            args.push(Arg::Comma);
        } else {
            args.push(Arg::Semi);
        }
    }
    if force_call && callable > 0 && !args.iter().any(|a| matches!(a, Arg::Call(..))) {
        if matches!(args.last(), Some(Arg::Expr(_))) {
            args.push(if rng.chance(1, 2) { Arg::Semi } else { Arg::Comma });
        }
        args.push(Arg::Call(rng.below(callable as u64) as usize, rng.range(-3, 40)));
        if rng.chance(1, 3) {
            args.push(Arg::Semi);
            args.push(Arg::Expr(Val::Str(vec!['z'])));
        } else if rng.chance(1, 3) {
            args.push(if rng.chance(1, 2) { Arg::Semi } else { Arg::Comma });
        }
    }
    Stmt { dev, fmt, args }
}

/// PRINT lists that call FUNCTIONs which print themselves: bare PRINT, PRINT with items, PRINT to another device,
/// PRINT USING with another format, ending with and without a separator; calls nest (a function may call the
/// functions before it).
fn gen_call_case(rng: &mut Rng) -> Case {
    let open: Vec<u8> = if rng.chance(1, 12) { vec![1] } else { vec![1, 2] };
    let devs = [Dev::Screen, Dev::Lpt1, Dev::File(1), Dev::File(2), Dev::Screen];
    let nfuncs = rng.range(1, 3) as usize;
    let mut funcs: Vec<Vec<Stmt>> = vec![];
    for j in 0..nfuncs {
        let mut body = vec![];
        for _ in 0..rng.range(1, 3) {
            if rng.chance(1, 4) {
                body.push(Stmt { dev: *rng.pick(&devs), fmt: None, args: vec![] });
            } else {
                body.push(gen_call_stmt(rng, &devs, j, false));
            }
        }
        funcs.push(body);
    }
    let mut stmts = vec![];
    for k in 0..rng.range(2, 6) {
        let force = k == 0 || rng.chance(1, 2);
        stmts.push(gen_call_stmt(rng, &devs, nfuncs, force));
    }
    for d in [Dev::Screen, Dev::Lpt1].into_iter().chain(open.iter().map(|h| Dev::File(*h))) {
        stmts.push(Stmt { dev: d, fmt: None, args: vec![Arg::Comma, Arg::Expr(Val::Str(vec!['|']))] });
    }
    Case { part: "calls", level: Level::Source, open, stmts, funcs }
}

/// The programs on which the two defects repaired by 89314cd were first seen, and their neighbours.
fn fixed_call_cases() -> Vec<Case> {
    let s = |t: &str| Arg::Expr(Val::Str(t.chars().collect()));
    let i = |n: i64| Arg::Expr(Val::Int(n));
    let bare = |d: Dev| Stmt { dev: d, fmt: None, args: vec![] };
    let fm = |t: &str| Some(t.chars().collect::<Vec<char>>());
    let mut v = vec![];
    let mut add = |funcs: Vec<Vec<Stmt>>, stmts: Vec<Stmt>| {
        let mut stmts = stmts;
        for d in [Dev::Screen, Dev::Lpt1, Dev::File(1), Dev::File(2)] {
            stmts.push(Stmt { dev: d, fmt: None, args: vec![Arg::Comma, Arg::Expr(Val::Str(vec!['|']))] });
        }
        v.push(Case { part: "calls", level: Level::Source, open: vec![1, 2], stmts, funcs });
    };
    // PRINT 1; F%(2) with a bare PRINT inside
    add(vec![vec![bare(Dev::Screen)]], vec![Stmt { dev: Dev::Screen, fmt: None, args: vec![i(1), Arg::Semi, Arg::Call(0, 2)] }]);
    // PRINT #1, "a"; F%(2); "z" with a PRINT inside
    add(
        vec![vec![Stmt { dev: Dev::Screen, fmt: None, args: vec![s("in")] }]],
        vec![Stmt { dev: Dev::File(1), fmt: None, args: vec![s("a"), Arg::Semi, Arg::Call(0, 2), Arg::Semi, s("z")] }],
    );
    // PRINT #1, USING "##.#"; F%(3) with a PRINT inside
    add(
        vec![vec![bare(Dev::Screen)]],
        vec![Stmt { dev: Dev::File(1), fmt: fm("##.#"), args: vec![Arg::Call(0, 3), Arg::Semi, i(4)] }],
    );
    // callee ends with a separator; caller ends without / with one; other devices; USING with another format
    for callee_dev in [Dev::Screen, Dev::Lpt1, Dev::File(2)] {
        for caller_dev in [Dev::Screen, Dev::Lpt1, Dev::File(1)] {
            for callee_sep in [None, Some(Arg::Semi), Some(Arg::Comma)] {
                for caller_sep in [None, Some(Arg::Semi), Some(Arg::Comma)] {
                    for (callee_fmt, caller_fmt) in [(None, None), (fm("[##]"), None), (None, fm("A: # B: # C")), (fm("#.#"), fm("## and ## "))] {
                        let mut cargs = vec![i(7)];
                        cargs.extend(callee_sep.clone());
                        let mut margs = vec![i(1), Arg::Comma, Arg::Call(0, 2), Arg::Semi, Arg::Call(0, 5)];
                        margs.extend(caller_sep.clone());
                        add(
                            vec![vec![Stmt { dev: callee_dev, fmt: callee_fmt, args: cargs }]],
                            vec![
                                Stmt { dev: caller_dev, fmt: caller_fmt, args: margs },
                                Stmt { dev: caller_dev, fmt: None, args: vec![s("next")] },
                            ],
                        );
                    }
                }
            }
        }
    }
    v
}

// ------------------------------------------------------------------------------------------------
// family `trapped` (after the wave-10 seed `PrintState::reset keeps the pending separator`, which the check missed: no
// history had a trapped error inside a PRINT list): a PRINT-family statement fails in the middle of its list under
// an active error trap and is abandoned; every kind of next PRINT-family statement follows, on the same and on
// another device. Compared with the reference only (`reference::run_trapped`): the Lean model has no failing items.
// ------------------------------------------------------------------------------------------------

fn marks(open: &[u8]) -> Vec<Stmt> {
    [Dev::Screen, Dev::Lpt1]
        .into_iter()
        .chain(open.iter().map(|h| Dev::File(*h)))
        .map(|d| Stmt { dev: d, fmt: None, args: vec![Arg::Comma, Arg::Expr(Val::Str(vec!['|']))] })
        .collect()
}

const TRAP_SHAPES: [&str; 10] = [
    "first-item", "after-semicolon", "after-comma", "between-items", "after-comma-then-trailing-semicolon",
    "after-two-separators", "using-second-value", "using-first-value", "using-type-mismatch", "after-a-call",
];

/// the failing statement of the matrix
fn trap_shape(shape: usize, dev: Dev, k: FailKind) -> Stmt {
    let s = |t: &str| Arg::Expr(Val::Str(t.chars().collect()));
    let i = |n: i64| Arg::Expr(Val::Int(n));
    let fm = |t: &str| Some(t.chars().collect::<Vec<char>>());
    // a numeric field takes no string
    let kn = if k == FailKind::Ifc { FailKind::DivZero } else { k };
    let (fmt, args) = match shape {
        0 => (None, vec![Arg::Fail(k)]),
        1 => (None, vec![s("ab"), Arg::Semi, Arg::Fail(k)]),
        2 => (None, vec![s("ab"), Arg::Comma, Arg::Fail(k)]),
        3 => (None, vec![s("ab"), Arg::Semi, Arg::Fail(k), Arg::Semi, s("z")]),
        4 => (None, vec![i(1), Arg::Comma, Arg::Fail(k), Arg::Semi]),
        5 => (None, vec![i(1), Arg::Semi, i(-2), Arg::Comma, Arg::Semi, Arg::Fail(k)]),
        6 => (fm("## x"), vec![i(7), Arg::Semi, Arg::Fail(kn)]),
        7 => (fm("A: # B: # C"), vec![Arg::Fail(kn), Arg::Semi, i(3)]),
        8 => (fm("[##]"), vec![i(7), Arg::Semi, s("s")]),
        _ => (None, vec![Arg::Call(0, 2), Arg::Semi, Arg::Fail(k)]),
    };
    Stmt { dev, fmt, args }
}

const TRAP_NEXTS: [&str; 5] = ["bare", "value", "trailing-semicolon", "comma-only", "using"];

fn trap_next(kind: usize, dev: Dev) -> Stmt {
    let (fmt, args) = match kind {
        0 => (None, vec![]),
        1 => (None, vec![Arg::Expr(Val::Str(vec!['x']))]),
        2 => (None, vec![Arg::Expr(Val::Str(vec!['x'])), Arg::Semi]),
        3 => (None, vec![Arg::Comma]),
        _ => (Some("##".chars().collect()), vec![Arg::Expr(Val::Int(5))]),
    };
    Stmt { dev, fmt, args }
}

/// failing statement (10 shapes) x its device (screen, LPT1, file 1) x trap (ON ERROR RESUME NEXT; handler with RESUME
/// NEXT, empty / with a bare PRINT of its own; handler repairing the operand + RESUME, empty / printing with a trailing
/// semicolon on LPT1) x next statement (5 kinds) x its device (the same, screen, LPT1, file 2); the three error kinds rotate
fn trap_matrix() -> Vec<TrapCase> {
    let mut v = vec![];
    let bare = |d: Dev| Stmt { dev: d, fmt: None, args: vec![] };
    let mut rot = 0usize;
    for shape in 0..TRAP_SHAPES.len() {
        for dev in [Dev::Screen, Dev::Lpt1, Dev::File(1)] {
            for tr in 0..5 {
                let (trap, handler) = match tr {
                    0 => (Trap::ResumeNext, vec![]),
                    1 => (Trap::HandlerResumeNext, vec![]),
                    2 => (Trap::HandlerResumeNext, vec![bare(Dev::Screen)]),
                    3 => (Trap::HandlerRepairResume, vec![]),
                    _ => (
                        Trap::HandlerRepairResume,
                        vec![Stmt { dev: Dev::Lpt1, fmt: None, args: vec![Arg::Expr(Val::Str(vec!['h'])), Arg::Semi] }],
                    ),
                };
                if shape == 8 && trap == Trap::HandlerRepairResume {
                    // a string for a numeric field fails again however often the statement is repeated
                    continue;
                }
                for next in 0..TRAP_NEXTS.len() {
                    for (j, ndev) in [dev, Dev::Screen, Dev::Lpt1, Dev::File(2)].into_iter().enumerate() {
                        if j > 0 && ndev == dev {
                            continue;
                        }
                        rot += 1;
                        let k = [FailKind::DivZero, FailKind::Overflow, FailKind::Ifc][rot % 3];
                        let mut stmts = vec![trap_shape(shape, dev, k), trap_next(next, ndev)];
                        stmts.push(Stmt { dev, fmt: None, args: vec![Arg::Expr(Val::Str("after".chars().collect()))] });
                        stmts.extend(marks(&[1, 2]));
                        let funcs = if shape == 9 { vec![vec![bare(Dev::Screen)]] } else { vec![] };
                        v.push(TrapCase {
                            case: Case { part: "trapped", level: Level::Source, open: vec![1, 2], stmts, funcs },
                            trap,
                            handler: handler.clone(),
                            fam: "matrix",
                        });
                    }
                }
            }
        }
    }
    v
}

/// random histories of the call family's statements, about half of them with a failing item put somewhere in the list
fn gen_trap_case(rng: &mut Rng) -> TrapCase {
    let devs = [Dev::Screen, Dev::Lpt1, Dev::File(1), Dev::File(2), Dev::Screen];
    loop {
        let trap = *rng.pick(&[Trap::ResumeNext, Trap::HandlerResumeNext, Trap::HandlerRepairResume]);
        let nfuncs = rng.below(2) as usize;
        let funcs: Vec<Vec<Stmt>> = (0..nfuncs).map(|_| (0..rng.range(1, 2)).map(|_| loop {
            // no error inside a function body: RESUME NEXT would go on inside the function, which is C05's subject
            let st = gen_call_stmt(rng, &devs, 0, false);
            if st.fmt.as_ref().map(|f| f.contains(&'#')).unwrap_or(true) {
                break st;
            }
        }).collect()).collect();
        let handler: Vec<Stmt> = if trap != Trap::ResumeNext && rng.chance(1, 3) {
            vec![if rng.chance(1, 2) { Stmt { dev: *rng.pick(&devs), fmt: None, args: vec![] } } else { gen_call_stmt(rng, &devs, 0, false) }]
        } else {
            vec![]
        };
        let mut stmts = vec![];
        for _ in 0..rng.range(3, 8) {
            let mut st = if rng.chance(1, 5) {
                Stmt { dev: *rng.pick(&devs), fmt: None, args: vec![] }
            } else {
                gen_call_stmt(rng, &devs, nfuncs, false)
            };
            if rng.chance(1, 2) {
                let k = if st.fmt.is_some() {
                    *rng.pick(&[FailKind::DivZero, FailKind::Overflow])
                } else {
                    *rng.pick(&[FailKind::DivZero, FailKind::Overflow, FailKind::Ifc])
                };
                // in place of a value, or as a new last item (after a separator)
                let values: Vec<usize> =
                    st.args.iter().enumerate().filter(|(_, a)| matches!(a, Arg::Expr(_) | Arg::Call(..))).map(|(j, _)| j).collect();
                if !values.is_empty() && rng.chance(2, 3) {
                    let j = *rng.pick(&values);
                    st.args[j] = Arg::Fail(k);
                } else {
                    if matches!(st.args.last(), Some(Arg::Expr(_)) | Some(Arg::Call(..))) {
                        st.args.push(if rng.chance(1, 2) { Arg::Semi } else { Arg::Comma });
                    }
                    st.args.push(Arg::Fail(k));
                    if rng.chance(1, 3) {
                        st.args.push(if rng.chance(1, 2) { Arg::Semi } else { Arg::Comma });
                    }
                }
            }
            stmts.push(st);
        }
        stmts.extend(marks(&[1, 2]));
        let tc = TrapCase { case: Case { part: "trapped", level: Level::Source, open: vec![1, 2], stmts, funcs }, trap, handler, fam: "random" };
        // a statement that fails again after the repair (a format without a field) would be repeated for ever
        if reference::run_trapped(&tc.case, trap == Trap::HandlerRepairResume, &tc.handler).status == "ok" {
            return tc;
        }
    }
}

/// The history laid out for the model (`print.runt`): whole statements and `(ab k stmt)` = abandoned in front of item
/// `k`, in the order they are executed (failing statement, the handler's statements, then the next statement or the
/// same one again with its operands repaired). Only for histories without function calls whose only errors are the
/// failing items (an error of PRINT USING itself stops the model's run; where a trapped run continues is C05's subject).
fn trap_sx(tc: &TrapCase) -> Option<String> {
    let c = &tc.case;
    if !c.funcs.is_empty() || c.stmts.iter().chain(tc.handler.iter()).any(|s| !reference::completes_when_fixed(s)) {
        return None;
    }
    let mut items: Vec<String> = vec![];
    let mut fixed = false;
    let mut k = 0;
    while k < c.stmts.len() {
        let s = &c.stmts[k];
        let fail_at = if fixed { None } else { s.args.iter().position(|a| matches!(a, Arg::Fail(_))) };
        match fail_at {
            None => {
                items.push(stmt_sx(s));
                k += 1;
            }
            Some(j) => {
                items.push(format!("(ab {} {})", j, stmt_sx(s)));
                items.extend(tc.handler.iter().map(stmt_sx));
                if tc.trap == Trap::HandlerRepairResume {
                    fixed = true;
                } else {
                    k += 1;
                }
            }
        }
    }
    let handles = c.open.iter().map(|h| h.to_string()).collect::<Vec<_>>().join(" ");
    Some(format!("(print.runt ({}) ({}))", handles, items.join("")))
}

/// the first sink on which the real run differs from the reference (or "status")
fn trap_diff(tc: &TrapCase, worker: usize) -> Option<(String, String, String, String)> {
    let text = trap_source(tc, worker);
    let real = run_real_text(&text, &tc.case.open, worker);
    let want = reference::run_trapped(&tc.case, tc.trap == Trap::HandlerRepairResume, &tc.handler);
    if real.status != want.status {
        return Some(("status".into(), text, real.status, want.status));
    }
    for k in 0..want.sinks.len().max(real.sinks.len()) {
        let r = real.sinks.get(k).cloned().unwrap_or_default();
        let w = want.sinks.get(k).cloned().unwrap_or_default();
        if r != w {
            return Some((sink_name(k).to_owned(), text, show(&r), show(&w)));
        }
    }
    None
}

fn check_trap_batch(cases: &[TrapCase], worker: usize) -> Partial {
    let mut p = Partial::default();
    // the model's run of the histories it can express
    let with_model: Vec<(usize, String)> = cases.iter().enumerate().filter_map(|(k, tc)| trap_sx(tc).map(|r| (k, r))).collect();
    let reqs: Vec<String> = with_model.iter().map(|x| x.1.clone()).collect();
    let mut answers = None;
    for _ in 0..5 {
        if let Ok(a) = std::panic::catch_unwind(|| ask(&reqs)) {
            answers = Some(a);
            break;
        }
        std::thread::sleep(std::time::Duration::from_millis(2000));
    }
    let answers = answers.unwrap_or_else(|| ask(&reqs));
    for ((k, req), ans) in with_model.iter().zip(answers.iter()) {
        let tc = &cases[*k];
        let text = trap_source(tc, worker);
        let real = run_real_text(&text, &tc.case.open, worker);
        match parse_answer(ans) {
            None => p.failures.push(Failure {
                kind: Kind::ModelVsImpl,
                signature: "model:bad-answer".into(),
                input: req.clone(),
                implementation: String::new(),
                expected: ans.clone(),
                note: "the driver did not answer the request".into(),
            }),
            Some(m) => compare(&mut p, Kind::ModelVsImpl, &tc.case, &text, &real, &m.outcome, "RbModel.Print.lowerProgramT (Lean)"),
        }
    }
    let modelled: std::collections::BTreeSet<usize> = with_model.iter().map(|x| x.0).collect();
    for (idx, tc) in cases.iter().enumerate() {
        let mut keys: Vec<&'static str> = vec![if tc.fam == "matrix" { "trapped.matrix" } else { "trapped.random" }];
        keys.push(match tc.trap {
            Trap::ResumeNext => "trapped.on-error-resume-next",
            Trap::HandlerResumeNext => "trapped.handler-resume-next",
            Trap::HandlerRepairResume => "trapped.handler-repair-resume",
        });
        if tc.case.stmts.iter().any(|s| s.args.iter().any(|a| matches!(a, Arg::Fail(_)))) {
            keys.push("trapped.with-failing-item");
        }
        if modelled.contains(&idx) {
            keys.push("trapped.compared-with-model");
        }
        let Some((what, text, _, _)) = trap_diff(tc, worker) else {
            p.cases.push((Some(trap_source(tc, 0)), keys));
            if p.sample.is_none() && tc.fam == "random" {
                p.sample = Some(format!("[trapped] {}", trap_source(tc, 0).replace('\n', " : ")));
            }
            continue;
        };
        p.cases.push((Some(text), keys));
        // shrink: statements (and the handler's) are dropped while the real run still differs from the reference
        let mut best = tc.clone();
        let mut changed = true;
        while changed {
            changed = false;
            let mut j = best.case.stmts.len();
            while j > 0 {
                j -= 1;
                let mut cand = best.clone();
                cand.case.stmts.remove(j);
                if trap_diff(&cand, worker).is_some() {
                    best = cand;
                    changed = true;
                }
            }
            if !best.handler.is_empty() {
                let mut cand = best.clone();
                cand.handler.clear();
                if trap_diff(&cand, worker).is_some() {
                    best = cand;
                    changed = true;
                }
            }
        }
        let (bw, btext, breal, bwant) = trap_diff(&best, worker).expect("the shrunk history still differs");
        p.failures.push(Failure {
            kind: Kind::ImplVsProperty,
            signature: format!("trapped:{}:{}", tc.trap.name(), what),
            input: btext,
            implementation: breal,
            expected: bwant,
            note: format!(
                "a PRINT statement abandoned by a trapped error: {} differs, expected by the column rules (Rust reference); \
                 shrunk from a history of {} statements ({})",
                bw,
                tc.case.stmts.len(),
                tc.fam
            ),
        });
    }
    p
}

fn zone_cases() -> Vec<Case> {
    let mut v = vec![];
    let devs = [Dev::Screen, Dev::Lpt1, Dev::File(1), Dev::File(2)];
    for start in [0usize, 1, 12, 13, 14, 15, 16, 27, 28, 29, 41, 42, 43] {
        for len in 0..=30usize {
            let mut items: Vec<Val> = vec![Val::Str(vec!['i'; len])];
            if (3..=11).contains(&len) {
                // a number whose printed width (sign/space + digits + space) is `len`
                let digits = len - 2;
                items.push(Val::Int(pow10(digits as u32 - 1) as i64));
                items.push(Val::Int(-(pow10(digits as u32) as i64 - 1)));
            }
            for item in items {
                let mut stmts = vec![];
                for d in devs {
                    stmts.push(Stmt { dev: d, fmt: None, args: vec![Arg::Expr(Val::Str(vec!['p'; start])), Arg::Semi] });
                }
                for d in devs {
                    stmts.push(Stmt {
                        dev: d,
                        fmt: None,
                        args: vec![Arg::Expr(item.clone()), Arg::Comma, Arg::Expr(Val::Str(vec!['|'])), Arg::Comma],
                    });
                }
                for d in devs {
                    stmts.push(Stmt { dev: d, fmt: None, args: vec![Arg::Expr(Val::Str(vec!['.']))] });
                }
                v.push(Case { part: "zone", level: Level::Source, open: vec![1, 2], stmts, funcs: vec![] });
            }
        }
    }
    v
}

/// the `idx`-th format string of length `len` over ALPHABET
fn nth_format(len: usize, mut idx: u64) -> Vec<char> {
    let mut f = vec![];
    for _ in 0..len {
        f.push(ALPHABET[(idx % 7) as usize]);
        idx /= 7;
    }
    f
}

/// two cases per format: numeric operands, string operands (the operand set rotates with the index)
fn using_cases(level: Level, len: usize, idx: u64) -> [Case; 2] {
    let fmt = nth_format(len, idx);
    let nums: [Vec<Val>; 3] = [
        vec![Val::Double(false, 12345, 1), Val::Int(-7)],
        vec![Val::Single(false, 5, 1), Val::Int(100000)],
        vec![Val::Double(true, 4, 2), Val::Int(9), Val::Double(false, 987654321, 3)],
    ];
    let strs: [Vec<Val>; 3] = [
        vec![Val::Str("hello".chars().collect()), Val::Str(vec!['b'])],
        vec![Val::Str("xyz".chars().collect()), Val::Str(vec![])],
        vec![Val::Str(vec!['a', '\0', 'c']), Val::Str("0123456789".chars().collect()), Val::Str(vec!['q'])],
    ];
    let k = (idx % 3) as usize;
    let dev = match level {
        Level::Source => [Dev::Screen, Dev::Lpt1, Dev::File(1), Dev::File(2)][((idx / 3) % 4) as usize],
        Level::Instr => [Dev::Screen, Dev::Lpt1][((idx / 3) % 2) as usize],
    };
    let mk = |vals: &Vec<Val>, trailing: bool| {
        let mut args = vec![];
        for (i, v) in vals.iter().enumerate() {
            if i > 0 {
                args.push(if i == 2 { Arg::Comma } else { Arg::Semi });
            }
            args.push(Arg::Expr(v.clone()));
        }
        if trailing {
            args.push(Arg::Semi);
        }
        let mut stmts = vec![Stmt { dev, fmt: Some(fmt.clone()), args }];
        // a second statement: where did the first leave the column?
        stmts.push(Stmt { dev, fmt: None, args: vec![Arg::Comma, Arg::Expr(Val::Str(vec!['|']))] });
        Case {
            part: if level == Level::Source { "using-src" } else { "using-instr" },
            level,
            open: if level == Level::Source { vec![1, 2] } else { vec![] },
            stmts,
            funcs: vec![],
        }
    };
    [mk(&nums[k], idx % 2 == 0), mk(&strs[k], idx % 2 == 1)]
}

// ------------------------------------------------------------------------------------------------
// checking
// ------------------------------------------------------------------------------------------------

#[derive(Default)]
struct Partial {
    cases: Vec<(Option<String>, Vec<&'static str>)>,
    failures: Vec<Failure>,
    sample: Option<String>,
}

fn category(c: &Case) -> &'static str {
    let non_ascii = c.stmts.iter().any(|s| {
        s.args.iter().any(|a| matches!(a, Arg::Expr(Val::Str(t)) if t.iter().any(|ch| (*ch as u32) > 127)))
    });
    if non_ascii {
        "non-ascii"
    } else if c.stmts.iter().any(|s| s.fmt.is_some()) {
        "using"
    } else {
        "plain"
    }
}

fn compare(
    p: &mut Partial,
    kind: Kind,
    c: &Case,
    text: &str,
    real: &Outcome,
    want: &Outcome,
    whose: &str,
) {
    let tag = if kind == Kind::ModelVsImpl { "model:" } else { "" };
    if real.status != want.status {
        p.failures.push(Failure {
            kind,
            signature: format!("{}{}:{}:status", tag, c.part, category(c)),
            input: text.to_owned(),
            implementation: real.status.clone(),
            expected: want.status.clone(),
            note: format!("termination status, expected by {}", whose),
        });
        return;
    }
    if real.status.starts_with("front-end") || real.status.starts_with("panic") {
        return;
    }
    for k in 0..want.sinks.len().max(real.sinks.len()) {
        let r = real.sinks.get(k).cloned().unwrap_or_default();
        let w = want.sinks.get(k).cloned().unwrap_or_default();
        if r != w {
            p.failures.push(Failure {
                kind,
                signature: format!("{}{}:{}:{}", tag, c.part, category(c), sink_name(k)),
                input: text.to_owned(),
                implementation: show(&r),
                expected: show(&w),
                note: format!("bytes on sink {} ({}), expected by {}", k, sink_name(k), whose),
            });
            return;
        }
    }
}

fn check_batch(cases: &[Case], worker: usize) -> Partial {
    let mut p = Partial::default();
    let reqs: Vec<String> = cases.iter().map(case_sx).collect();
    // the shared driver binary can be relinked by a concurrent `./check` of another property: retry a failed exchange
    let mut answers = None;
    for _ in 0..5 {
        if let Ok(a) = std::panic::catch_unwind(|| ask(&reqs)) {
            answers = Some(a);
            break;
        }
        std::thread::sleep(std::time::Duration::from_millis(2000));
    }
    let answers = answers.unwrap_or_else(|| ask(&reqs));
    for (c, (req, ans)) in cases.iter().zip(reqs.iter().zip(answers.iter())) {
        let (real, tags, text) = run_real(c, worker);
        let (want, ref_cols) = reference::run(c);
        let cat = category(c);
        let trivial = want.sinks.iter().all(|s| s.is_empty()) && want.status == "ok";
        let mut keys: Vec<&'static str> = vec![];
        keys.push(match (c.part, cat) {
            ("history", "plain") => "history.plain",
            ("history", "using") => "history.with-using",
            ("history", _) => "history.non-ascii",
            ("zone", _) => "zone",
            ("using-src", _) => "using.source-level",
            ("calls", _) => "calls.function-prints-inside-print-list",
            _ => "using.instruction-level",
        });
        keys.push(match want.status.as_str() {
            "ok" => "status.ok",
            "illegal-function-call" => "status.illegal-function-call",
            "type-mismatch" => "status.type-mismatch",
            _ => "status.file-not-open",
        });
        // class = the program and the level (the request is the program; exhaustive parts are distinct by construction)
        let class = if c.part.starts_with("using") {
            let f: String = c.stmts[0].fmt.as_ref().map(|f| f.iter().collect()).unwrap_or_default();
            format!("{}|{}|{}", c.part, f, matches!(c.stmts[0].args.first(), Some(Arg::Expr(Val::Str(_)))))
        } else {
            format!("{}|{:?}", req, c.level)
        };
        p.cases.push((if trivial { None } else { Some(class) }, keys));
        if p.sample.is_none() {
            p.sample = Some(format!("{} => {}", text.replace('\n', " : "), ans));
        }
        // implementation vs the column rules
        compare(&mut p, Kind::ImplVsProperty, c, &text, &real, &want, "the column rules (Rust reference)");
        // implementation vs the Lean model
        match parse_answer(ans) {
            None => p.failures.push(Failure {
                kind: Kind::ModelVsImpl,
                signature: "model:bad-answer".into(),
                input: req.clone(),
                implementation: String::new(),
                expected: ans.clone(),
                note: "the driver did not answer the request".into(),
            }),
            Some(m) => {
                compare(&mut p, Kind::ModelVsImpl, c, &text, &real, &m.outcome, "RbModel.Print (Lean)");
                // (with functions the bodies' instructions are laid out after the main program: order differs)
                if let Some(t) = tags.filter(|_| c.funcs.is_empty()) {
                    if t != m.tags {
                        p.failures.push(Failure {
                            kind: Kind::ModelVsImpl,
                            signature: format!("model:{}:lowering", c.part),
                            input: text.clone(),
                            implementation: t.join(" "),
                            expected: m.tags.join(" "),
                            note: "Print* instructions emitted by generate_print_instructions vs RbModel.Print.lowerProgram".into(),
                        });
                    }
                }
                // hidden state: the model's column counters against the column rules
                if m.outcome.status == want.status && m.cols != ref_cols {
                    p.failures.push(Failure {
                        kind: Kind::ModelVsImpl,
                        signature: format!("model:{}:column", c.part),
                        input: text.clone(),
                        implementation: format!("{:?}", ref_cols),
                        expected: format!("{:?}", m.cols),
                        note: "final column counters: Rust reference vs Lean model".into(),
                    });
                }
            }
        }
    }
    p
}

enum Work {
    Trapped(Vec<TrapCase>),
    List(Vec<Case>),
    Using(Level, usize, u64, u64),
}

fn run_work(work: Vec<Work>, rep: &mut Report) {
    let threads = std::thread::available_parallelism().map(|n| n.get()).unwrap_or(4).min(16);
    let queue = std::sync::Mutex::new(work);
    let results = std::sync::Mutex::new(Vec::<Partial>::new());
    std::thread::scope(|s| {
        for w in 0..threads {
            let queue = &queue;
            let results = &results;
            s.spawn(move || {
                loop {
                    let item = queue.lock().unwrap().pop();
                    let Some(item) = item else { break };
                    let cases: Vec<Case> = match item {
                        Work::Trapped(v) => {
                            let p = check_trap_batch(&v, w);
                            results.lock().unwrap().push(p);
                            continue;
                        }
                        Work::List(v) => v,
                        Work::Using(level, len, a, b) => (a..b).flat_map(|i| using_cases(level, len, i)).collect(),
                    };
                    let p = check_batch(&cases, w);
                    results.lock().unwrap().push(p);
                }
            });
        }
    });
    let mut results = results.into_inner().unwrap();
    // deterministic order of what is reported
    results.sort_by(|a, b| a.sample.cmp(&b.sample));
    let mut per_key: BTreeMap<&'static str, u64> = BTreeMap::new();
    for p in results {
        for (class, keys) in p.cases {
            rep.case(class);
            for k in keys {
                *per_key.entry(k).or_insert(0) += 1;
            }
        }
        for f in p.failures {
            rep.fail(f);
        }
        if let Some(s) = p.sample {
            if rep.samples.len() < 8 {
                rep.sample(J::s(s));
            }
        }
    }
    for (k, n) in per_key {
        rep.bump_by(k, n);
    }
}

fn chunked(v: Vec<Case>, n: usize) -> Vec<Work> {
    let mut out = vec![];
    let mut it = v.into_iter().peekable();
    while it.peek().is_some() {
        out.push(Work::List(it.by_ref().take(n).collect()));
    }
    out
}

fn using_work(level: Level, max_len: usize, chunk: u64) -> (Vec<Work>, u64) {
    let mut out = vec![];
    let mut total = 0;
    for len in 0..=max_len {
        let n = 7u64.pow(len as u32);
        total += n;
        let mut a = 0;
        while a < n {
            let b = (a + chunk).min(n);
            out.push(Work::Using(level, len, a, b));
            a = b;
        }
    }
    (out, total)
}

fn main() {
    // panics of the code under test are results, not crashes; keep a short trace of the first few in the log
    static PANICS: std::sync::atomic::AtomicUsize = std::sync::atomic::AtomicUsize::new(0);
    std::panic::set_hook(Box::new(|info| {
        if PANICS.fetch_add(1, std::sync::atomic::Ordering::Relaxed) < 10 {
            eprintln!("[panic] {}", info.to_string().chars().take(300).collect::<String>());
        }
    }));
    let mut rng = Rng::from_env();
    let mut rep = Report::new(
        "C16",
        "a case is one program: a history of PRINT / LPRINT / PRINT #n statements (with or without USING) over screen, LPT1 \
         and two files, run on the real code and compared on all four sinks and the termination status with the Lean model \
         and with the column rules written in Rust; class = the program (statements, operands, devices) and the level \
         (source / hand-lowered instructions); trivial = nothing is written anywhere and the run succeeds. Family trapped: \
         histories in which a statement fails in the middle of its list (after ; after , first item, USING value, after a \
         call) under ON ERROR RESUME NEXT / a handler with RESUME NEXT / a handler repairing the operand + RESUME, every kind \
         of next statement on the same and on another device, compared with the reference (what was written before the \
         failing item stays, the abandoned statement writes nothing more, in particular no CR LF).",
    );
    let thorough = rep.is_thorough();
    // private scratch directory for the two files
    let scratch = PathBuf::from(std::env::var("VERIF_WORK").unwrap_or_else(|_| std::env::temp_dir().display().to_string()))
        .join("c16-scratch");
    let _ = std::fs::remove_dir_all(&scratch);
    std::fs::create_dir_all(&scratch).expect("scratch directory");
    std::env::set_current_dir(&scratch).expect("chdir to scratch directory");

    // ---- 1. random interleaved histories -----------------------------------------------------------
    let n_hist = if thorough { 120_000 } else { 5_000 };
    let hist: Vec<Case> = (0..n_hist).map(|_| gen_history(&mut rng)).collect();
    run_work(chunked(hist, 200), &mut rep);

    // ---- 1b. PRINT lists that call FUNCTIONs which print themselves ------------------------------------
    let fixed = fixed_call_cases();
    rep.exhaustive_parts.push(format!(
        "function called from a PRINT list and printing itself: callee device x caller device x callee/caller trailing \
         separator x plain/USING on either side ({} programs), plus the three programs of repo fix 89314cd",
        fixed.len() - 3
    ));
    run_work(chunked(fixed, 40), &mut rep);
    let n_calls = if thorough { 40_000 } else { 3_000 };
    let calls: Vec<Case> = (0..n_calls).map(|_| gen_call_case(&mut rng)).collect();
    run_work(chunked(calls, 200), &mut rep);

    // ---- 1c. statements abandoned by a trapped error in the middle of their list ---------------------------
    let matrix = trap_matrix();
    rep.exhaustive_parts.push(format!(
        "PRINT statement abandoned by a trapped run-time error: position of the failing item ({}) x device (screen, LPT1, \
         file) x trap (ON ERROR RESUME NEXT; handler + RESUME NEXT, empty / printing; handler repairing the operand + \
         RESUME, empty / printing) x next statement ({}) x its device (same, screen, LPT1, other file), error kinds \
         division by zero / overflow / illegal function call rotating ({} programs)",
        TRAP_SHAPES.join(", "),
        TRAP_NEXTS.join(", "),
        matrix.len()
    ));
    let n_trap = if thorough { 30_000 } else { 1_500 };
    let mut trapped: Vec<TrapCase> = (0..n_trap).map(|_| gen_trap_case(&mut rng)).collect();
    trapped.extend(matrix);
    let mut tw = vec![];
    let mut it = trapped.into_iter().peekable();
    while it.peek().is_some() {
        tw.push(Work::Trapped(it.by_ref().take(100).collect()));
    }
    run_work(tw, &mut rep);

    // ---- 2. zone arithmetic, enumerated -------------------------------------------------------------
    let zones = zone_cases();
    rep.exhaustive_parts.push(format!(
        "print zones: start columns {{0,1,12,13,14,15,16,27,28,29,41,42,43}} x item widths 0..30 (strings; numbers of \
         both signs for widths 3..11), then comma, mark, comma, next statement; on all four sinks in one interleaved \
         program ({} programs)",
        zones.len()
    ));
    run_work(chunked(zones, 40), &mut rep);

    // ---- 3. PRINT USING, every format string over {{# , . \ space ! x}} ------------------------------
    let src_len = if thorough { 5 } else { 4 };
    let (w, n) = using_work(Level::Source, src_len, 150);
    rep.exhaustive_parts.push(format!(
        "PRINT USING at source level: all {} format strings over {{# , . \\ space ! x}} of length <= {}, each with a \
         numeric and a string operand list (two or three operands: cyclic reuse), devices rotating over the four sinks",
        n, src_len
    ));
    run_work(w, &mut rep);
    let ins_len = if thorough { 8 } else { 6 };
    let (w, n) = using_work(Level::Instr, ins_len, 4000);
    rep.exhaustive_parts.push(format!(
        "PRINT USING at instruction level (the generator's Print* sequence with constants, through the VM): all {} format \
         strings of length <= {}, same operand lists, screen and LPT1",
        n, ins_len
    ));
    run_work(w, &mut rep);

    // ---- 4. the shipped LPT1 device (F15, repaired) -------------------------------------------------
    // The shipped interpreter has no printer to write to. LPRINT must then either deliver the text or raise a
    // BASIC device error the program can trap (Device I/O error, 57) -- never abort the interpreter.
    rep.case(Some("default-device LPRINT".into()));
    rep.bump("lprint.default-device");
    let shipped = std::panic::catch_unwind(|| {
        let (igr, udt) = compile("LPRINT \"x\";").ok().expect("LPRINT compiles");
        let mut interpreter = rusty_basic::interpreter::new_default_interpreter(udt);
        let r = interpreter.interpret(igr).map_err(|e| format!("{:?}", e));
        (r, interpreter.get_last_error_code())
    });
    let acceptable = match &shipped {
        Ok((Ok(()), _)) => true,
        Ok((Err(e), _)) => e.contains("DeviceIOError"),
        Err(_) => false,
    };
    if !acceptable {
        rep.fail(Failure {
            kind: Kind::ImplVsProperty,
            signature: "lprint:default-device".into(),
            input: "LPRINT \"x\";   (new_default_interpreter: WritePrinter<Lpt1Write>)".into(),
            implementation: match shipped {
                Err(_) => "panic".to_owned(),
                Ok(r) => format!("{:?}", r),
            },
            expected: "the text reaches the printer device, or Device I/O error (57)".into(),
            note: "the in-memory hook substitutes a byte buffer for LPT1, so the column rules are checked above".into(),
        });
    }

    // ---- 5. negative zero ----------------------------------------------------------------------------
    for (src, what) in [("PRINT -0.0;", "SINGLE"), ("PRINT -0.0#;", "DOUBLE")] {
        rep.case(Some(format!("negative zero {}", what)));
        rep.bump("number.negative-zero");
        let out = std::panic::catch_unwind(|| {
            compile(src).ok().map(|(igr, udt)| run_instructions(igr, udt, b"", 10_000, None, false).stdout)
        });
        let got = match out {
            Ok(Some(b)) => show(&b),
            _ => "no output".to_owned(),
        };
        if got != show(b" 0 ") {
            rep.fail(Failure {
                kind: Kind::ImplVsProperty,
                signature: "number:negative-zero".into(),
                input: src.to_owned(),
                implementation: got,
                expected: show(b" 0 "),
                note: "a number is written with a leading space or a minus sign, not both".into(),
            });
        }
    }

    let _ = std::env::set_current_dir(std::env::temp_dir());
    let _ = std::fs::remove_dir_all(&scratch);
    rep.finish();
}
