//! C16 — PRINT lays text out by the column rules, on screen, printer and files alike.
//!
//! Real code (through the in-memory hook, source level and instruction level) vs
//!   * the Lean model `RbModel.Print` (driver request `print.run`)          -> `Kind::ModelVsImpl`
//!   * the column rules written down independently below (`reference`)      -> `Kind::ImplVsProperty`
//! All four sinks (stdout, LPT1, two files) are compared byte for byte, plus the termination status.

use std::collections::BTreeMap;
use std::path::PathBuf;

use rb_harness::driver::ask;
use rb_harness::json::J;
use rb_harness::report::{Failure, Kind, Report};
use rb_harness::rng::Rng;
use rusty_basic::instruction_generator::{Instruction, InstructionGeneratorResult, PrinterType};
use rusty_basic::interpreter::InterpreterTrait;
use rusty_basic::interpreter::verif::{compile, run_instructions};
use rusty_common::{Position, Positioned};
use rusty_variant::Variant;

// ------------------------------------------------------------------------------------------------
// programs
// ------------------------------------------------------------------------------------------------

#[derive(Clone, Debug, PartialEq)]
enum Val {
    /// INTEGER or LONG (by magnitude, as the lexer decides)
    Int(i64),
    /// SINGLE: sign, mantissa, scale (value = ± mant / 10^scale)
    Single(bool, u64, u32),
    /// DOUBLE
    Double(bool, u64, u32),
    Str(Vec<char>),
}

#[derive(Clone, Debug, PartialEq)]
enum Arg {
    Expr(Val),
    Comma,
    Semi,
    /// a call `F<j+1>%(n)` of the case's function number `j`; the function returns `n + 1`
    Call(usize, i64),
}

#[derive(Clone, Copy, Debug, PartialEq, Eq, PartialOrd, Ord)]
enum Dev {
    Screen,
    Lpt1,
    File(u8),
}

#[derive(Clone, Debug)]
struct Stmt {
    dev: Dev,
    fmt: Option<Vec<char>>,
    args: Vec<Arg>,
}

#[derive(Clone, Copy, Debug, PartialEq)]
enum Level {
    /// BASIC source through parser, linter, instruction generator and VM
    Source,
    /// hand-built `Print*` instruction sequence (as the generator lowers it) through the VM
    Instr,
}

#[derive(Clone, Debug)]
struct Case {
    part: &'static str,
    level: Level,
    open: Vec<u8>,
    stmts: Vec<Stmt>,
    /// bodies of the FUNCTIONs the item lists may call: PRINT statements of their own
    funcs: Vec<Vec<Stmt>>,
}

fn dec_literal(neg: bool, mant: u64, scale: u32) -> String {
    let mut digits = mant.to_string();
    while digits.len() < scale as usize + 1 {
        digits.insert(0, '0');
    }
    let cut = digits.len() - scale as usize;
    let (ip, fp) = digits.split_at(cut);
    let fp = if fp.is_empty() { "0" } else { fp };
    format!("{}{}.{}", if neg { "-" } else { "" }, ip, fp)
}

fn str_expr(s: &[char]) -> String {
    if s.is_empty() {
        return "\"\"".to_owned();
    }
    let mut parts: Vec<String> = vec![];
    let mut cur = String::new();
    for &c in s {
        if (' '..='~').contains(&c) && c != '"' {
            if cur.len() >= 30 {
                parts.push(format!("\"{}\"", cur));
                cur.clear();
            }
            cur.push(c);
        } else {
            if !cur.is_empty() {
                parts.push(format!("\"{}\"", cur));
                cur.clear();
            }
            parts.push(format!("CHR$({})", c as u32));
        }
    }
    if !cur.is_empty() {
        parts.push(format!("\"{}\"", cur));
    }
    parts.join(" + ")
}

fn val_source(v: &Val) -> String {
    match v {
        Val::Int(n) => n.to_string(),
        Val::Single(neg, m, s) => dec_literal(*neg, *m, *s),
        Val::Double(neg, m, s) => format!("{}#", dec_literal(*neg, *m, *s)),
        Val::Str(s) => str_expr(s),
    }
}

fn stmt_source(s: &Stmt) -> String {
    let mut t = match s.dev {
        Dev::Screen => "PRINT".to_owned(),
        Dev::Lpt1 => "LPRINT".to_owned(),
        Dev::File(h) => format!("PRINT #{},", h),
    };
    if let Some(f) = &s.fmt {
        t.push_str(&format!(" USING {};", str_expr(f)));
    }
    for a in &s.args {
        t.push(' ');
        match a {
            Arg::Expr(v) => t.push_str(&val_source(v)),
            Arg::Comma => t.push(','),
            Arg::Semi => t.push(';'),
            Arg::Call(j, n) => t.push_str(&format!("F{}%({})", j + 1, n)),
        }
    }
    t
}

fn file_name(h: u8, worker: usize) -> String {
    format!("{}{}.txt", if h == 1 { "a" } else { "b" }, worker)
}

fn case_source(c: &Case, worker: usize) -> String {
    let mut t = String::new();
    for j in 0..c.funcs.len() {
        t.push_str(&format!("DECLARE FUNCTION F{}% (X%)\n", j + 1));
    }
    for &h in &c.open {
        t.push_str(&format!("OPEN \"{}\" FOR OUTPUT AS #{}\n", file_name(h, worker), h));
    }
    for s in &c.stmts {
        t.push_str(&stmt_source(s));
        t.push('\n');
    }
    for (j, body) in c.funcs.iter().enumerate() {
        t.push_str(&format!("FUNCTION F{}% (X%)\n", j + 1));
        for s in body {
            t.push_str("  ");
            t.push_str(&stmt_source(s));
            t.push('\n');
        }
        t.push_str(&format!("  F{}% = X% + 1\nEND FUNCTION\n", j + 1));
    }
    t
}

fn cps(s: &[char]) -> String {
    s.iter().map(|c| (*c as u32).to_string()).collect::<Vec<_>>().join(" ")
}

fn val_sx(v: &Val) -> String {
    let b = |x: bool| if x { "t" } else { "f" };
    match v {
        Val::Int(n) if (-32768..=32767).contains(n) => format!("(i {})", n),
        Val::Int(n) => format!("(l {})", n),
        Val::Single(neg, m, s) => format!("(f {} {} {})", b(*neg), m, s),
        Val::Double(neg, m, s) => format!("(d {} {} {})", b(*neg), m, s),
        Val::Str(s) => format!("(t {})", cps(s)),
    }
}

fn stmt_sx(s: &Stmt) -> String {
    let mut t = String::from("(");
    match s.dev {
        Dev::Screen => t.push('s'),
        Dev::Lpt1 => t.push('l'),
        Dev::File(h) => t.push_str(&format!("(f {})", h)),
    }
    match &s.fmt {
        None => t.push_str(" n ("),
        Some(f) => t.push_str(&format!(" (u {}) (", cps(f))),
    }
    for (k, a) in s.args.iter().enumerate() {
        if k > 0 {
            t.push(' ');
        }
        match a {
            Arg::Expr(v) => t.push_str(&val_sx(v)),
            Arg::Comma => t.push('c'),
            Arg::Semi => t.push('s'),
            Arg::Call(j, n) => t.push_str(&format!("(k {} {})", j, n)),
        }
    }
    t.push_str("))");
    t
}

fn case_sx(c: &Case) -> String {
    let handles = c.open.iter().map(|h| h.to_string()).collect::<Vec<_>>().join(" ");
    let stmts = c.stmts.iter().map(stmt_sx).collect::<Vec<_>>().join("");
    if c.funcs.is_empty() {
        format!("(print.run ({}) ({}))", handles, stmts)
    } else {
        let funcs: String =
            c.funcs.iter().map(|b| format!("({})", b.iter().map(stmt_sx).collect::<Vec<_>>().join(""))).collect();
        format!("(print.runf ({}) ({}) ({}))", handles, funcs, stmts)
    }
}

// ------------------------------------------------------------------------------------------------
// what a run yields (real code, model, reference alike)
// ------------------------------------------------------------------------------------------------

#[derive(Clone, Debug, PartialEq, Default)]
struct Outcome {
    status: String,
    /// screen, LPT1, then the open files in order: bytes written
    sinks: Vec<Vec<u8>>,
}

fn utf8(s: &[char]) -> Vec<u8> {
    s.iter().collect::<String>().into_bytes()
}

fn show(b: &[u8]) -> String {
    format!("{:?}", String::from_utf8_lossy(b))
}

fn sink_name(k: usize) -> &'static str {
    match k {
        0 => "screen",
        1 => "lpt1",
        _ => "file",
    }
}

// ------------------------------------------------------------------------------------------------
// the real code
// ------------------------------------------------------------------------------------------------

fn status_of(result: &Result<(), rusty_basic::RuntimeErrorPos>) -> String {
    match result {
        Ok(()) => "ok".to_owned(),
        Err(e) => {
            let d = format!("{:?}", e);
            if d.contains("IllegalFunctionCall") {
                "illegal-function-call".to_owned()
            } else if d.contains("TypeMismatch") {
                "type-mismatch".to_owned()
            } else if d.contains("FileNotFound") || d.contains("BadFileMode") {
                "file-not-open".to_owned()
            } else {
                format!("runtime:{}", d.chars().take(80).collect::<String>())
            }
        }
    }
}

fn instr_tags(r: &InstructionGeneratorResult) -> Vec<String> {
    let mut v = vec![];
    for i in &r.instructions {
        match &i.element {
            Instruction::PrintSetPrinterType(PrinterType::Print) => v.push("Tp".to_owned()),
            Instruction::PrintSetPrinterType(PrinterType::LPrint) => v.push("Tl".to_owned()),
            Instruction::PrintSetPrinterType(PrinterType::File) => v.push("Tf".to_owned()),
            Instruction::PrintSetFileHandle(h) => v.push(format!("H{}", i32::from(*h))),
            Instruction::PrintSetFormatStringFromA => v.push("F".to_owned()),
            Instruction::PrintComma => v.push("C".to_owned()),
            Instruction::PrintSemicolon => v.push("S".to_owned()),
            Instruction::PrintValueFromA => v.push("V".to_owned()),
            Instruction::PrintEnd => v.push("E".to_owned()),
            _ => {}
        }
    }
    v
}

fn variant_of(v: &Val) -> Variant {
    match v {
        Val::Int(n) if (-32768..=32767).contains(n) => Variant::VInteger(*n as i32),
        Val::Int(n) => Variant::VLong(*n),
        Val::Single(neg, m, s) => Variant::VSingle(dec_literal(*neg, *m, *s).parse::<f32>().unwrap()),
        Val::Double(neg, m, s) => Variant::VDouble(dec_literal(*neg, *m, *s).parse::<f64>().unwrap()),
        Val::Str(s) => Variant::VString(s.iter().collect()),
    }
}

/// The instruction sequence `generate_print_instructions` emits, with constants in place of expression code.
fn hand_lowered(c: &Case) -> InstructionGeneratorResult {
    let mut ins: Vec<Positioned<Instruction>> = vec![];
    let mut addrs = vec![];
    for (row, s) in c.stmts.iter().enumerate() {
        let pos = Position::new(row as u32 + 1, 1);
        addrs.push(ins.len());
        let mut push = |i: Instruction| ins.push(Positioned::new(i, pos));
        match s.dev {
            Dev::Screen => push(Instruction::PrintSetPrinterType(PrinterType::Print)),
            Dev::Lpt1 => push(Instruction::PrintSetPrinterType(PrinterType::LPrint)),
            Dev::File(h) => {
                push(Instruction::PrintSetPrinterType(PrinterType::File));
                push(Instruction::PrintSetFileHandle(h.into()));
            }
        }
        match &s.fmt {
            Some(f) => push(Instruction::LoadIntoA(Variant::VString(f.iter().collect()))),
            None => push(Instruction::LoadIntoA(rusty_variant::V_FALSE)),
        }
        push(Instruction::PrintSetFormatStringFromA);
        for a in &s.args {
            match a {
                Arg::Expr(v) => {
                    push(Instruction::LoadIntoA(variant_of(v)));
                    push(Instruction::PrintValueFromA);
                }
                Arg::Comma => push(Instruction::PrintComma),
                Arg::Semi => push(Instruction::PrintSemicolon),
                Arg::Call(..) => unreachable!("calls are exercised at source level only"),
            }
        }
        push(Instruction::PrintEnd);
    }
    InstructionGeneratorResult { instructions: ins, statement_addresses: addrs, label_depths: Default::default() }
}

/// Runs the case on the real code. Returns the outcome and (source level) the lowering tags.
fn run_real(c: &Case, worker: usize) -> (Outcome, Option<Vec<String>>, String) {
    for &h in &[1u8, 2] {
        let _ = std::fs::remove_file(file_name(h, worker));
    }
    let (text, compiled) = match c.level {
        Level::Source => {
            let text = case_source(c, worker);
            let r = std::panic::catch_unwind(|| compile(&text));
            (text, r)
        }
        Level::Instr => (
            c.stmts.iter().map(stmt_source).collect::<Vec<_>>().join("\n") + "\n[hand-lowered instructions]",
            Ok(Ok((hand_lowered(c), Default::default()))),
        ),
    };
    let mut out = Outcome::default();
    let mut tags = None;
    match compiled {
        Err(_) => out.status = "panic:front-end".to_owned(),
        Ok(Err(e)) => out.status = format!("front-end:{}", format!("{:?}", e).chars().take(80).collect::<String>()),
        Ok(Ok((igr, udt))) => {
            if c.level == Level::Source {
                tags = Some(instr_tags(&igr));
            }
            let r = std::panic::catch_unwind(std::panic::AssertUnwindSafe(|| {
                run_instructions(igr, udt, b"", 2_000_000, None, false)
            }));
            match r {
                Err(_) => out.status = "panic".to_owned(),
                Ok(r) => {
                    out.status = status_of(&r.result);
                    out.sinks.push(r.stdout);
                    out.sinks.push(r.lpt1);
                    for &h in &c.open {
                        out.sinks.push(std::fs::read(file_name(h, worker)).unwrap_or_else(|_| b"<no file>".to_vec()));
                    }
                }
            }
        }
    }
    (out, tags, text)
}

// ------------------------------------------------------------------------------------------------
// the model's answer
// ------------------------------------------------------------------------------------------------

struct ModelAnswer {
    outcome: Outcome,
    tags: Vec<String>,
    cols: Vec<usize>,
}

fn parse_answer(a: &str) -> Option<ModelAnswer> {
    // (status (tags...) (col cp ...) ...)
    let mut toks: Vec<&str> = vec![];
    let mut start: Option<usize> = None;
    for (k, ch) in a.char_indices() {
        if ch == '(' || ch == ')' || ch == ' ' {
            if let Some(s0) = start.take() {
                toks.push(&a[s0..k]);
            }
            if ch != ' ' {
                toks.push(&a[k..k + 1]);
            }
        } else if start.is_none() {
            start = Some(k);
        }
    }
    if let Some(s0) = start {
        toks.push(&a[s0..]);
    }
    let mut i = 0;
    if toks.get(i) != Some(&"(") {
        return None;
    }
    i += 1;
    let status = toks.get(i)?.to_string();
    i += 1;
    let mut groups: Vec<Vec<&str>> = vec![];
    while toks.get(i) == Some(&"(") {
        i += 1;
        let mut g = vec![];
        while *toks.get(i)? != ")" {
            g.push(toks[i]);
            i += 1;
        }
        i += 1;
        groups.push(g);
    }
    if toks.get(i) != Some(&")") || groups.is_empty() {
        return None;
    }
    let tags = groups[0].iter().map(|s| s.to_string()).collect();
    let mut sinks = vec![];
    let mut cols = vec![];
    for g in &groups[1..] {
        cols.push(g.first()?.parse::<usize>().ok()?);
        let chars: Option<Vec<char>> = g[1..].iter().map(|t| t.parse::<u32>().ok().and_then(char::from_u32)).collect();
        sinks.push(utf8(&chars?));
    }
    Some(ModelAnswer { outcome: Outcome { status, sinks }, tags, cols })
}

// ------------------------------------------------------------------------------------------------
// the column rules, written down independently (the property's oracle)
// ------------------------------------------------------------------------------------------------

mod reference {
    use super::{Arg, Case, Dev, Outcome, Stmt, Val, utf8};
    use std::collections::BTreeMap;

    #[derive(Default)]
    pub struct Sink {
        pub out: Vec<char>,
        pub col: usize,
    }

    impl Sink {
        /// text goes out verbatim, except that a CR or an LF each ends the line (CR LF is written, the column restarts)
        fn text(&mut self, s: &[char]) {
            for &c in s {
                if c == '\r' || c == '\n' {
                    self.newline();
                } else {
                    self.out.push(c);
                    self.col += 1;
                }
            }
        }
        fn newline(&mut self) {
            self.out.push('\r');
            self.out.push('\n');
            self.col = 0;
        }
        /// a comma pads to the next multiple of 14
        fn zone(&mut self) {
            loop {
                self.out.push(' ');
                self.col += 1;
                if self.col % 14 == 0 {
                    break;
                }
            }
        }
    }

    /// decimal expansion of ± mant / 10^scale without trailing zeros
    pub fn dec_plain(neg: bool, mant: u64, scale: u32) -> String {
        let mut digits = mant.to_string();
        while digits.len() < scale as usize + 1 {
            digits.insert(0, '0');
        }
        let cut = digits.len() - scale as usize;
        let ip = digits[..cut].to_owned();
        let fp = digits[cut..].trim_end_matches('0').to_owned();
        let body = if fp.is_empty() { ip } else { format!("{}.{}", ip, fp) };
        if neg { format!("-{}", body) } else { body }
    }

    /// a number: minus sign or a space, the digits, a space; a string: verbatim
    pub fn plain_text(v: &Val) -> Vec<char> {
        let s = match v {
            Val::Int(n) => {
                if *n < 0 {
                    format!("{} ", n)
                } else {
                    format!(" {} ", n)
                }
            }
            Val::Single(neg, m, s) | Val::Double(neg, m, s) => {
                // a zero of either sign is just 0
                let negative = *neg && *m != 0;
                let t = dec_plain(negative, *m, *s);
                if negative { format!("{} ", t) } else { format!(" {} ", t) }
            }
            Val::Str(s) => return s.clone(),
        };
        s.chars().collect()
    }

    #[derive(Debug, PartialEq)]
    pub enum E {
        Ifc,
        Tm,
        NoFile,
    }

    /// ± mant/10^scale rounded to k fractional digits -> (negative, integer digits, k fraction digits)
    fn rounded(neg: bool, mant: u64, scale: u32, k: u32, half_even: bool) -> (bool, String, String) {
        let mant = mant as u128;
        let m = if scale <= k {
            mant * 10u128.pow(k - scale)
        } else {
            let p = 10u128.pow(scale - k);
            let (q, r) = (mant / p, mant % p);
            if 2 * r > p || (2 * r == p && (!half_even || q % 2 == 1)) { q + 1 } else { q }
        };
        let p = 10u128.pow(k);
        let ip = (m / p).to_string();
        let fp = if k == 0 { String::new() } else { format!("{:0width$}", m % p, width = k as usize) };
        (neg, ip, fp)
    }

    /// the digits a numeric field shows for a value: (integer part with sign, fraction digits)
    fn number_parts(v: &Val, k: u32) -> Result<(String, String), E> {
        match v {
            Val::Int(n) => Ok((n.to_string(), "0".repeat(k as usize))),
            Val::Single(neg, m, s) | Val::Double(neg, m, s) => {
                if k == 0 {
                    // nearest whole number, halves away from zero; no "-0"
                    let (neg, ip, _) = rounded(*neg, *m, *s, 0, false);
                    Ok((if neg && ip != "0" { format!("-{}", ip) } else { ip }, String::new()))
                } else {
                    let (neg, ip, fp) = rounded(*neg, *m, *s, k, true);
                    Ok((if neg { format!("-{}", ip) } else { ip }, fp))
                }
            }
            Val::Str(_) => Err(E::Tm),
        }
    }

    /// `#`/`,` picture filled from the right; digits that do not fit are kept in front
    fn picture(pic: &[char], digits: &str) -> String {
        let mut ds: Vec<char> = digits.chars().collect();
        let mut out: Vec<char> = vec![];
        for &p in pic.iter().rev() {
            if p == ',' {
                out.push(if ds.is_empty() { ' ' } else { ',' });
            } else {
                out.push(ds.pop().unwrap_or(' '));
            }
        }
        while let Some(d) = ds.pop() {
            out.push(d);
        }
        out.iter().rev().collect()
    }

    fn is_field_start(c: char) -> bool {
        c == '#' || c == '\\' || c == '!'
    }

    /// one value through the format: literal text up to the next field (wrapping around), then the field
    fn using_value(fmt: &[char], cursor: &mut usize, v: &Val) -> Result<Vec<char>, E> {
        if fmt.is_empty() {
            return Err(E::Ifc);
        }
        let n = fmt.len();
        let mut pos = *cursor % n;
        let mut out: Vec<char> = vec![];
        let mut seen = 0;
        while !is_field_start(fmt[pos]) {
            out.push(fmt[pos]);
            pos = (pos + 1) % n;
            seen += 1;
            if seen == n {
                return Err(E::Ifc);
            }
        }
        match fmt[pos] {
            '#' => {
                let mut end = pos;
                while end < n && (fmt[end] == '#' || fmt[end] == ',' || fmt[end] == '.') {
                    end += 1;
                }
                let field = &fmt[pos..end];
                let pieces: Vec<&[char]> = field.split(|c| *c == '.').collect();
                let int_pic = pieces[0];
                if pieces.len() > 1 && pieces[1].is_empty() {
                    return Err(E::Ifc);
                }
                let k = if pieces.len() > 1 { pieces[1].len() as u32 } else { 0 };
                let (ip, fp) = number_parts(v, k)?;
                let mut s = picture(int_pic, &ip);
                if k > 0 {
                    s.push('.');
                    s.push_str(&fp);
                }
                out.extend(s.chars());
                *cursor = end;
            }
            '\\' => {
                let mut end = pos + 1;
                while end < n && fmt[end] == ' ' {
                    end += 1;
                }
                if end >= n || fmt[end] != '\\' {
                    return Err(E::Ifc);
                }
                let width = end - pos + 1;
                let s = match v {
                    Val::Str(s) => s,
                    _ => return Err(E::Tm),
                };
                let mut t: Vec<char> = s.iter().copied().take_while(|c| *c != '\0').take(width).collect();
                while t.len() < width {
                    t.push(' ');
                }
                out.extend(t);
                *cursor = end + 1;
            }
            _ => {
                let s = match v {
                    Val::Str(s) => s,
                    _ => return Err(E::Tm),
                };
                out.push(*s.first().ok_or(E::Ifc)?);
                *cursor = pos + 1;
            }
        }
        Ok(out)
    }

    /// A statement writes to its device item by item; a closed file is noticed when something is to be written
    /// (after the value has been laid out), or at the end of the statement.
    ///
    /// An item that calls a FUNCTION: the statements of the function's body run first, each a complete statement
    /// on its own device; then the returned value is laid out by THIS statement, on its own device, with its own
    /// format cursor; the newline decision at the end depends only on this statement's own last item.
    fn stmt(sinks: &mut BTreeMap<Dev, Sink>, funcs: &[Vec<Stmt>], s: &Stmt) -> Result<(), E> {
        let fmt = s.fmt.as_ref();
        let mut cursor = 0usize;
        for a in &s.args {
            match a {
                Arg::Call(j, n) => {
                    for callee in &funcs[*j] {
                        stmt(sinks, funcs, callee)?;
                    }
                    let v = Val::Int(*n + 1);
                    let t = match fmt {
                        None => plain_text(&v),
                        Some(f) => using_value(f, &mut cursor, &v)?,
                    };
                    sinks.get_mut(&s.dev).ok_or(E::NoFile)?.text(&t);
                }
                Arg::Expr(v) => {
                    let t = match fmt {
                        None => plain_text(v),
                        Some(f) => using_value(f, &mut cursor, v)?,
                    };
                    sinks.get_mut(&s.dev).ok_or(E::NoFile)?.text(&t);
                }
                Arg::Comma => sinks.get_mut(&s.dev).ok_or(E::NoFile)?.zone(),
                Arg::Semi => {}
            }
        }
        let sink = sinks.get_mut(&s.dev).ok_or(E::NoFile)?;
        if let Some(f) = fmt {
            let rest: Vec<char> = f.iter().skip(cursor).take_while(|c| !is_field_start(**c)).copied().collect();
            sink.text(&rest);
        }
        if !matches!(s.args.last(), Some(Arg::Comma) | Some(Arg::Semi)) {
            sink.newline();
        }
        Ok(())
    }

    pub fn run(c: &Case) -> (Outcome, Vec<usize>) {
        let mut sinks: BTreeMap<Dev, Sink> = BTreeMap::new();
        sinks.insert(Dev::Screen, Sink::default());
        sinks.insert(Dev::Lpt1, Sink::default());
        for &h in &c.open {
            sinks.insert(Dev::File(h), Sink::default());
        }
        let mut status = "ok";
        for s in &c.stmts {
            match stmt(&mut sinks, &c.funcs, s) {
                Ok(()) => {}
                Err(e) => {
                    status = match e {
                        E::Ifc => "illegal-function-call",
                        E::Tm => "type-mismatch",
                        E::NoFile => "file-not-open",
                    };
                    break;
                }
            }
        }
        let order: Vec<Dev> =
            [Dev::Screen, Dev::Lpt1].into_iter().chain(c.open.iter().map(|h| Dev::File(*h))).collect();
        (
            Outcome { status: status.to_owned(), sinks: order.iter().map(|d| utf8(&sinks[d].out)).collect() },
            order.iter().map(|d| sinks[d].col).collect(),
        )
    }
}

// ------------------------------------------------------------------------------------------------
// generators
// ------------------------------------------------------------------------------------------------

const ALPHABET: [char; 7] = ['#', ',', '.', '\\', ' ', '!', 'x'];

fn pow10(k: u32) -> u64 {
    10u64.pow(k)
}

/// A decimal whose rounding at any number of fraction digits is not a tie of a non-binary fraction.
fn untie(mant: u64, scale: u32) -> u64 {
    let (mut m, mut s) = (mant, scale);
    while s > 0 && m % 10 == 0 {
        m /= 10;
        s -= 1;
    }
    if s >= 2 && m % 10 == 5 && m % 5u64.pow(s.min(20)) != 0 { mant + 1 } else { mant }
}

fn gen_string(rng: &mut Rng) -> Vec<char> {
    let len = match rng.below(10) {
        0 | 1 => 0,
        2..=6 => rng.range(1, 8) as usize,
        7 | 8 => rng.range(9, 20) as usize,
        _ => rng.range(21, 45) as usize,
    };
    let flavour = rng.below(10);
    (0..len)
        .map(|_| {
            let r = rng.below(100);
            if flavour < 3 && r < 12 {
                *rng.pick(&['\r', '\n'])
            } else if flavour == 3 && r < 30 {
                char::from_u32(rng.range(128, 255) as u32).unwrap()
            } else if r < 3 {
                '"'
            } else if r < 10 {
                ' '
            } else {
                *rng.pick(&['a', 'b', 'Z', '0', '9', '-', '.', ',', '#', '!', '\\', '~'])
            }
        })
        .collect()
}

/// `for_using`: keep SINGLE values to binary fractions (so that every digit a wide field shows is exact)
fn gen_number(rng: &mut Rng, for_using: bool) -> Val {
    let neg = rng.chance(2, 5);
    match rng.below(8) {
        0 => Val::Int(*rng.pick(&[0i64, 1, -1, 9, 10, 99, 100, 32767, -32768, -32767, 12345])),
        1 => Val::Int(rng.range(-32768, 32767)),
        2 => Val::Int(*rng.pick(&[32768i64, -32769, 65536, 2147483647, -2147483647, 100000, -999999, 1000000000])),
        3 => Val::Int(rng.range(-2_000_000_000, 2_000_000_000)),
        4 | 5 => {
            if for_using {
                let (m, s) = *rng.pick(&[(5u64, 1u32), (225, 2), (775, 2), (100125, 3), (3, 0), (1024, 0), (75, 2)]);
                Val::Single(neg, m, s)
            } else {
                let digits = rng.range(1, 6) as u32;
                let mant = rng.range(0, pow10(digits) as i64 - 1) as u64;
                let scale = rng.range(0, 6) as u32;
                Val::Single(neg, mant, scale)
            }
        }
        _ => {
            let digits = rng.range(1, if for_using { 9 } else { 15 }) as u32;
            let mant = rng.range(0, pow10(digits) as i64 - 1) as u64;
            let scale = rng.range(0, if for_using { 5 } else { 10 }) as u32;
            let mant = if for_using { untie(mant, scale) } else { mant };
            Val::Double(neg, mant, scale)
        }
    }
}

fn gen_value(rng: &mut Rng) -> Val {
    if rng.chance(2, 5) { Val::Str(gen_string(rng)) } else { gen_number(rng, false) }
}

/// item lists with separators in every position (leading, trailing, consecutive); never two expressions in a row
fn gen_args(rng: &mut Rng, for_using: bool) -> Vec<Arg> {
    let n = match rng.below(10) {
        0 => 0,
        1..=3 => rng.range(1, 2),
        4..=7 => rng.range(3, 5),
        _ => rng.range(6, 9),
    };
    let mut v: Vec<Arg> = vec![];
    for _ in 0..n {
        let last_is_expr = matches!(v.last(), Some(Arg::Expr(_)));
        let r = rng.below(10);
        if !last_is_expr && r < 6 {
            v.push(Arg::Expr(if for_using {
                if rng.chance(1, 3) { Val::Str(gen_string(rng)) } else { gen_number(rng, true) }
            } else {
                gen_value(rng)
            }));
        } else if r % 2 == 0 {
            v.push(Arg::Comma);
        } else {
            v.push(Arg::Semi);
        }
    }
    v
}

fn gen_format(rng: &mut Rng) -> Vec<char> {
    const TEMPLATES: [&str; 14] = [
        "###", "#,###.##", "A: # B: # C", "\\  \\", "!", "##.# and \\ \\ then !", "x", "", "#.", "Total ###,###.## EUR",
        "\\ x\\", "[!] [\\\\] [#]", "###.###.#", "\\   ",
    ];
    if rng.chance(1, 2) {
        rng.pick(&TEMPLATES).chars().collect()
    } else {
        let len = rng.range(0, 10);
        (0..len).map(|_| *rng.pick(&ALPHABET)).collect()
    }
}

fn gen_history(rng: &mut Rng) -> Case {
    let open: Vec<u8> = match rng.below(20) {
        0 => vec![1],
        1 => vec![2],
        _ => vec![1, 2],
    };
    let n = rng.range(2, 10);
    let mut stmts = vec![];
    for _ in 0..n {
        let dev = match rng.below(if open.len() == 2 { 8 } else { 9 }) {
            0 | 1 => Dev::Screen,
            2 | 3 => Dev::Lpt1,
            4 | 5 => Dev::File(1),
            6 | 7 => Dev::File(2),
            _ => Dev::File(3 - open[0]), // a closed handle
        };
        let using = rng.chance(1, 7);
        let fmt = if using { Some(gen_format(rng)) } else { None };
        let args = gen_args(rng, using);
        stmts.push(Stmt { dev, fmt, args });
    }
    // make the hidden column of every device visible: pad to the next zone, then a mark
    for d in [Dev::Screen, Dev::Lpt1].into_iter().chain(open.iter().map(|h| Dev::File(*h))) {
        stmts.push(Stmt { dev: d, fmt: None, args: vec![Arg::Comma, Arg::Expr(Val::Str(vec!['|']))] });
    }
    Case { part: "history", level: Level::Source, open, stmts, funcs: vec![] }
}

/// One statement of the call family: mostly well formed (numeric pictures for USING), items may call one of the
/// functions `0..callable`.
fn gen_call_stmt(rng: &mut Rng, devs: &[Dev], callable: usize, force_call: bool) -> Stmt {
    const NUMFMT: [&str; 7] = ["##.#", "A: # B: # C", "###,###", "[##]", "#", "## and ## ", "x"];
    let dev = *rng.pick(devs);
    let using = rng.chance(3, 10);
    let fmt: Option<Vec<char>> = if using { Some(rng.pick(&NUMFMT).chars().collect()) } else { None };
    let n = if rng.chance(1, 6) { 0 } else { rng.range(1, 6) };
    let mut args: Vec<Arg> = vec![];
    for _ in 0..n {
        let last_is_value = matches!(args.last(), Some(Arg::Expr(_)) | Some(Arg::Call(..)));
        let r = rng.below(10);
        if !last_is_value && r < 6 {
            if callable > 0 && rng.chance(1, 2) {
                args.push(Arg::Call(rng.below(callable as u64) as usize, rng.range(-3, 40)));
            } else if using {
                args.push(Arg::Expr(Val::Int(rng.range(-99, 999))));
            } else {
                args.push(Arg::Expr(gen_value(rng)));
            }
        } else if r % 2 == 0 {
            args.push(Arg::Comma);
        } else {
            args.push(Arg::Semi);
        }
    }
    if force_call && callable > 0 && !args.iter().any(|a| matches!(a, Arg::Call(..))) {
        if matches!(args.last(), Some(Arg::Expr(_))) {
            args.push(if rng.chance(1, 2) { Arg::Semi } else { Arg::Comma });
        }
        args.push(Arg::Call(rng.below(callable as u64) as usize, rng.range(-3, 40)));
        if rng.chance(1, 3) {
            args.push(Arg::Semi);
            args.push(Arg::Expr(Val::Str(vec!['z'])));
        } else if rng.chance(1, 3) {
            args.push(if rng.chance(1, 2) { Arg::Semi } else { Arg::Comma });
        }
    }
    Stmt { dev, fmt, args }
}

/// PRINT lists that call FUNCTIONs which print themselves: bare PRINT, PRINT with items, PRINT to another device,
/// PRINT USING with another format, ending with and without a separator; calls nest (a function may call the
/// functions before it).
fn gen_call_case(rng: &mut Rng) -> Case {
    let open: Vec<u8> = if rng.chance(1, 12) { vec![1] } else { vec![1, 2] };
    let devs = [Dev::Screen, Dev::Lpt1, Dev::File(1), Dev::File(2), Dev::Screen];
    let nfuncs = rng.range(1, 3) as usize;
    let mut funcs: Vec<Vec<Stmt>> = vec![];
    for j in 0..nfuncs {
        let mut body = vec![];
        for _ in 0..rng.range(1, 3) {
            if rng.chance(1, 4) {
                body.push(Stmt { dev: *rng.pick(&devs), fmt: None, args: vec![] });
            } else {
                body.push(gen_call_stmt(rng, &devs, j, false));
            }
        }
        funcs.push(body);
    }
    let mut stmts = vec![];
    for k in 0..rng.range(2, 6) {
        let force = k == 0 || rng.chance(1, 2);
        stmts.push(gen_call_stmt(rng, &devs, nfuncs, force));
    }
    for d in [Dev::Screen, Dev::Lpt1].into_iter().chain(open.iter().map(|h| Dev::File(*h))) {
        stmts.push(Stmt { dev: d, fmt: None, args: vec![Arg::Comma, Arg::Expr(Val::Str(vec!['|']))] });
    }
    Case { part: "calls", level: Level::Source, open, stmts, funcs }
}

/// The programs on which the two defects repaired by 89314cd were first seen, and their neighbours.
fn fixed_call_cases() -> Vec<Case> {
    let s = |t: &str| Arg::Expr(Val::Str(t.chars().collect()));
    let i = |n: i64| Arg::Expr(Val::Int(n));
    let bare = |d: Dev| Stmt { dev: d, fmt: None, args: vec![] };
    let fm = |t: &str| Some(t.chars().collect::<Vec<char>>());
    let mut v = vec![];
    let mut add = |funcs: Vec<Vec<Stmt>>, stmts: Vec<Stmt>| {
        let mut stmts = stmts;
        for d in [Dev::Screen, Dev::Lpt1, Dev::File(1), Dev::File(2)] {
            stmts.push(Stmt { dev: d, fmt: None, args: vec![Arg::Comma, Arg::Expr(Val::Str(vec!['|']))] });
        }
        v.push(Case { part: "calls", level: Level::Source, open: vec![1, 2], stmts, funcs });
    };
    // PRINT 1; F%(2) with a bare PRINT inside
    add(vec![vec![bare(Dev::Screen)]], vec![Stmt { dev: Dev::Screen, fmt: None, args: vec![i(1), Arg::Semi, Arg::Call(0, 2)] }]);
    // PRINT #1, "a"; F%(2); "z" with a PRINT inside
    add(
        vec![vec![Stmt { dev: Dev::Screen, fmt: None, args: vec![s("in")] }]],
        vec![Stmt { dev: Dev::File(1), fmt: None, args: vec![s("a"), Arg::Semi, Arg::Call(0, 2), Arg::Semi, s("z")] }],
    );
    // PRINT #1, USING "##.#"; F%(3) with a PRINT inside
    add(
        vec![vec![bare(Dev::Screen)]],
        vec![Stmt { dev: Dev::File(1), fmt: fm("##.#"), args: vec![Arg::Call(0, 3), Arg::Semi, i(4)] }],
    );
    // callee ends with a separator; caller ends without / with one; other devices; USING with another format
    for callee_dev in [Dev::Screen, Dev::Lpt1, Dev::File(2)] {
        for caller_dev in [Dev::Screen, Dev::Lpt1, Dev::File(1)] {
            for callee_sep in [None, Some(Arg::Semi), Some(Arg::Comma)] {
                for caller_sep in [None, Some(Arg::Semi), Some(Arg::Comma)] {
                    for (callee_fmt, caller_fmt) in [(None, None), (fm("[##]"), None), (None, fm("A: # B: # C")), (fm("#.#"), fm("## and ## "))] {
                        let mut cargs = vec![i(7)];
                        cargs.extend(callee_sep.clone());
                        let mut margs = vec![i(1), Arg::Comma, Arg::Call(0, 2), Arg::Semi, Arg::Call(0, 5)];
                        margs.extend(caller_sep.clone());
                        add(
                            vec![vec![Stmt { dev: callee_dev, fmt: callee_fmt, args: cargs }]],
                            vec![
                                Stmt { dev: caller_dev, fmt: caller_fmt, args: margs },
                                Stmt { dev: caller_dev, fmt: None, args: vec![s("next")] },
                            ],
                        );
                    }
                }
            }
        }
    }
    v
}

fn zone_cases() -> Vec<Case> {
    let mut v = vec![];
    let devs = [Dev::Screen, Dev::Lpt1, Dev::File(1), Dev::File(2)];
    for start in [0usize, 1, 12, 13, 14, 15, 16, 27, 28, 29, 41, 42, 43] {
        for len in 0..=30usize {
            let mut items: Vec<Val> = vec![Val::Str(vec!['i'; len])];
            if (3..=11).contains(&len) {
                // a number whose printed width (sign/space + digits + space) is `len`
                let digits = len - 2;
                items.push(Val::Int(pow10(digits as u32 - 1) as i64));
                items.push(Val::Int(-(pow10(digits as u32) as i64 - 1)));
            }
            for item in items {
                let mut stmts = vec![];
                for d in devs {
                    stmts.push(Stmt { dev: d, fmt: None, args: vec![Arg::Expr(Val::Str(vec!['p'; start])), Arg::Semi] });
                }
                for d in devs {
                    stmts.push(Stmt {
                        dev: d,
                        fmt: None,
                        args: vec![Arg::Expr(item.clone()), Arg::Comma, Arg::Expr(Val::Str(vec!['|'])), Arg::Comma],
                    });
                }
                for d in devs {
                    stmts.push(Stmt { dev: d, fmt: None, args: vec![Arg::Expr(Val::Str(vec!['.']))] });
                }
                v.push(Case { part: "zone", level: Level::Source, open: vec![1, 2], stmts, funcs: vec![] });
            }
        }
    }
    v
}

/// the `idx`-th format string of length `len` over ALPHABET
fn nth_format(len: usize, mut idx: u64) -> Vec<char> {
    let mut f = vec![];
    for _ in 0..len {
        f.push(ALPHABET[(idx % 7) as usize]);
        idx /= 7;
    }
    f
}

/// two cases per format: numeric operands, string operands (the operand set rotates with the index)
fn using_cases(level: Level, len: usize, idx: u64) -> [Case; 2] {
    let fmt = nth_format(len, idx);
    let nums: [Vec<Val>; 3] = [
        vec![Val::Double(false, 12345, 1), Val::Int(-7)],
        vec![Val::Single(false, 5, 1), Val::Int(100000)],
        vec![Val::Double(true, 4, 2), Val::Int(9), Val::Double(false, 987654321, 3)],
    ];
    let strs: [Vec<Val>; 3] = [
        vec![Val::Str("hello".chars().collect()), Val::Str(vec!['b'])],
        vec![Val::Str("xyz".chars().collect()), Val::Str(vec![])],
        vec![Val::Str(vec!['a', '\0', 'c']), Val::Str("0123456789".chars().collect()), Val::Str(vec!['q'])],
    ];
    let k = (idx % 3) as usize;
    let dev = match level {
        Level::Source => [Dev::Screen, Dev::Lpt1, Dev::File(1), Dev::File(2)][((idx / 3) % 4) as usize],
        Level::Instr => [Dev::Screen, Dev::Lpt1][((idx / 3) % 2) as usize],
    };
    let mk = |vals: &Vec<Val>, trailing: bool| {
        let mut args = vec![];
        for (i, v) in vals.iter().enumerate() {
            if i > 0 {
                args.push(if i == 2 { Arg::Comma } else { Arg::Semi });
            }
            args.push(Arg::Expr(v.clone()));
        }
        if trailing {
            args.push(Arg::Semi);
        }
        let mut stmts = vec![Stmt { dev, fmt: Some(fmt.clone()), args }];
        // a second statement: where did the first leave the column?
        stmts.push(Stmt { dev, fmt: None, args: vec![Arg::Comma, Arg::Expr(Val::Str(vec!['|']))] });
        Case {
            part: if level == Level::Source { "using-src" } else { "using-instr" },
            level,
            open: if level == Level::Source { vec![1, 2] } else { vec![] },
            stmts,
            funcs: vec![],
        }
    };
    [mk(&nums[k], idx % 2 == 0), mk(&strs[k], idx % 2 == 1)]
}

// ------------------------------------------------------------------------------------------------
// checking
// ------------------------------------------------------------------------------------------------

#[derive(Default)]
struct Partial {
    cases: Vec<(Option<String>, Vec<&'static str>)>,
    failures: Vec<Failure>,
    sample: Option<String>,
}

fn category(c: &Case) -> &'static str {
    let non_ascii = c.stmts.iter().any(|s| {
        s.args.iter().any(|a| matches!(a, Arg::Expr(Val::Str(t)) if t.iter().any(|ch| (*ch as u32) > 127)))
    });
    if non_ascii {
        "non-ascii"
    } else if c.stmts.iter().any(|s| s.fmt.is_some()) {
        "using"
    } else {
        "plain"
    }
}

fn compare(
    p: &mut Partial,
    kind: Kind,
    c: &Case,
    text: &str,
    real: &Outcome,
    want: &Outcome,
    whose: &str,
) {
    let tag = if kind == Kind::ModelVsImpl { "model:" } else { "" };
    if real.status != want.status {
        p.failures.push(Failure {
            kind,
            signature: format!("{}{}:{}:status", tag, c.part, category(c)),
            input: text.to_owned(),
            implementation: real.status.clone(),
            expected: want.status.clone(),
            note: format!("termination status, expected by {}", whose),
        });
        return;
    }
    if real.status.starts_with("front-end") || real.status.starts_with("panic") {
        return;
    }
    for k in 0..want.sinks.len().max(real.sinks.len()) {
        let r = real.sinks.get(k).cloned().unwrap_or_default();
        let w = want.sinks.get(k).cloned().unwrap_or_default();
        if r != w {
            p.failures.push(Failure {
                kind,
                signature: format!("{}{}:{}:{}", tag, c.part, category(c), sink_name(k)),
                input: text.to_owned(),
                implementation: show(&r),
                expected: show(&w),
                note: format!("bytes on sink {} ({}), expected by {}", k, sink_name(k), whose),
            });
            return;
        }
    }
}

fn check_batch(cases: &[Case], worker: usize) -> Partial {
    let mut p = Partial::default();
    let reqs: Vec<String> = cases.iter().map(case_sx).collect();
    // the shared driver binary can be relinked by a concurrent `./check` of another property: retry a failed exchange
    let mut answers = None;
    for _ in 0..5 {
        if let Ok(a) = std::panic::catch_unwind(|| ask(&reqs)) {
            answers = Some(a);
            break;
        }
        std::thread::sleep(std::time::Duration::from_millis(2000));
    }
    let answers = answers.unwrap_or_else(|| ask(&reqs));
    for (c, (req, ans)) in cases.iter().zip(reqs.iter().zip(answers.iter())) {
        let (real, tags, text) = run_real(c, worker);
        let (want, ref_cols) = reference::run(c);
        let cat = category(c);
        let trivial = want.sinks.iter().all(|s| s.is_empty()) && want.status == "ok";
        let mut keys: Vec<&'static str> = vec![];
        keys.push(match (c.part, cat) {
            ("history", "plain") => "history.plain",
            ("history", "using") => "history.with-using",
            ("history", _) => "history.non-ascii",
            ("zone", _) => "zone",
            ("using-src", _) => "using.source-level",
            ("calls", _) => "calls.function-prints-inside-print-list",
            _ => "using.instruction-level",
        });
        keys.push(match want.status.as_str() {
            "ok" => "status.ok",
            "illegal-function-call" => "status.illegal-function-call",
            "type-mismatch" => "status.type-mismatch",
            _ => "status.file-not-open",
        });
        // class = the program and the level (the request is the program; exhaustive parts are distinct by construction)
        let class = if c.part.starts_with("using") {
            let f: String = c.stmts[0].fmt.as_ref().map(|f| f.iter().collect()).unwrap_or_default();
            format!("{}|{}|{}", c.part, f, matches!(c.stmts[0].args.first(), Some(Arg::Expr(Val::Str(_)))))
        } else {
            format!("{}|{:?}", req, c.level)
        };
        p.cases.push((if trivial { None } else { Some(class) }, keys));
        if p.sample.is_none() {
            p.sample = Some(format!("{} => {}", text.replace('\n', " : "), ans));
        }
        // implementation vs the column rules
        compare(&mut p, Kind::ImplVsProperty, c, &text, &real, &want, "the column rules (Rust reference)");
        // implementation vs the Lean model
        match parse_answer(ans) {
            None => p.failures.push(Failure {
                kind: Kind::ModelVsImpl,
                signature: "model:bad-answer".into(),
                input: req.clone(),
                implementation: String::new(),
                expected: ans.clone(),
                note: "the driver did not answer the request".into(),
            }),
            Some(m) => {
                compare(&mut p, Kind::ModelVsImpl, c, &text, &real, &m.outcome, "RbModel.Print (Lean)");
                // (with functions the bodies' instructions are laid out after the main program: order differs)
                if let Some(t) = tags.filter(|_| c.funcs.is_empty()) {
                    if t != m.tags {
                        p.failures.push(Failure {
                            kind: Kind::ModelVsImpl,
                            signature: format!("model:{}:lowering", c.part),
                            input: text.clone(),
                            implementation: t.join(" "),
                            expected: m.tags.join(" "),
                            note: "Print* instructions emitted by generate_print_instructions vs RbModel.Print.lowerProgram".into(),
                        });
                    }
                }
                // hidden state: the model's column counters against the column rules
                if m.outcome.status == want.status && m.cols != ref_cols {
                    p.failures.push(Failure {
                        kind: Kind::ModelVsImpl,
                        signature: format!("model:{}:column", c.part),
                        input: text.clone(),
                        implementation: format!("{:?}", ref_cols),
                        expected: format!("{:?}", m.cols),
                        note: "final column counters: Rust reference vs Lean model".into(),
                    });
                }
            }
        }
    }
    p
}

enum Work {
    List(Vec<Case>),
    Using(Level, usize, u64, u64),
}

fn run_work(work: Vec<Work>, rep: &mut Report) {
    let threads = std::thread::available_parallelism().map(|n| n.get()).unwrap_or(4).min(16);
    let queue = std::sync::Mutex::new(work);
    let results = std::sync::Mutex::new(Vec::<Partial>::new());
    std::thread::scope(|s| {
        for w in 0..threads {
            let queue = &queue;
            let results = &results;
            s.spawn(move || {
                loop {
                    let item = queue.lock().unwrap().pop();
                    let Some(item) = item else { break };
                    let cases: Vec<Case> = match item {
                        Work::List(v) => v,
                        Work::Using(level, len, a, b) => (a..b).flat_map(|i| using_cases(level, len, i)).collect(),
                    };
                    let p = check_batch(&cases, w);
                    results.lock().unwrap().push(p);
                }
            });
        }
    });
    let mut results = results.into_inner().unwrap();
    // deterministic order of what is reported
    results.sort_by(|a, b| a.sample.cmp(&b.sample));
    let mut per_key: BTreeMap<&'static str, u64> = BTreeMap::new();
    for p in results {
        for (class, keys) in p.cases {
            rep.case(class);
            for k in keys {
                *per_key.entry(k).or_insert(0) += 1;
            }
        }
        for f in p.failures {
            rep.fail(f);
        }
        if let Some(s) = p.sample {
            if rep.samples.len() < 8 {
                rep.sample(J::s(s));
            }
        }
    }
    for (k, n) in per_key {
        rep.bump_by(k, n);
    }
}

fn chunked(v: Vec<Case>, n: usize) -> Vec<Work> {
    let mut out = vec![];
    let mut it = v.into_iter().peekable();
    while it.peek().is_some() {
        out.push(Work::List(it.by_ref().take(n).collect()));
    }
    out
}

fn using_work(level: Level, max_len: usize, chunk: u64) -> (Vec<Work>, u64) {
    let mut out = vec![];
    let mut total = 0;
    for len in 0..=max_len {
        let n = 7u64.pow(len as u32);
        total += n;
        let mut a = 0;
        while a < n {
            let b = (a + chunk).min(n);
            out.push(Work::Using(level, len, a, b));
            a = b;
        }
    }
    (out, total)
}

fn main() {
    // panics of the code under test are results, not crashes; keep a short trace of the first few in the log
    static PANICS: std::sync::atomic::AtomicUsize = std::sync::atomic::AtomicUsize::new(0);
    std::panic::set_hook(Box::new(|info| {
        if PANICS.fetch_add(1, std::sync::atomic::Ordering::Relaxed) < 10 {
            eprintln!("[panic] {}", info.to_string().chars().take(300).collect::<String>());
        }
    }));
    let mut rng = Rng::from_env();
    let mut rep = Report::new(
        "C16",
        "a case is one program: a history of PRINT / LPRINT / PRINT #n statements (with or without USING) over screen, LPT1 \
         and two files, run on the real code and compared on all four sinks and the termination status with the Lean model \
         and with the column rules written in Rust; class = the program (statements, operands, devices) and the level \
         (source / hand-lowered instructions); trivial = nothing is written anywhere and the run succeeds.",
    );
    let thorough = rep.is_thorough();
    // private scratch directory for the two files
    let scratch = PathBuf::from(std::env::var("VERIF_WORK").unwrap_or_else(|_| std::env::temp_dir().display().to_string()))
        .join("c16-scratch");
    let _ = std::fs::remove_dir_all(&scratch);
    std::fs::create_dir_all(&scratch).expect("scratch directory");
    std::env::set_current_dir(&scratch).expect("chdir to scratch directory");

    // ---- 1. random interleaved histories -----------------------------------------------------------
    let n_hist = if thorough { 120_000 } else { 5_000 };
    let hist: Vec<Case> = (0..n_hist).map(|_| gen_history(&mut rng)).collect();
    run_work(chunked(hist, 200), &mut rep);

    // ---- 1b. PRINT lists that call FUNCTIONs which print themselves ------------------------------------
    let fixed = fixed_call_cases();
    rep.exhaustive_parts.push(format!(
        "function called from a PRINT list and printing itself: callee device x caller device x callee/caller trailing \
         separator x plain/USING on either side ({} programs), plus the three programs of repo fix 89314cd",
        fixed.len() - 3
    ));
    run_work(chunked(fixed, 40), &mut rep);
    let n_calls = if thorough { 40_000 } else { 3_000 };
    let calls: Vec<Case> = (0..n_calls).map(|_| gen_call_case(&mut rng)).collect();
    run_work(chunked(calls, 200), &mut rep);

    // ---- 2. zone arithmetic, enumerated -------------------------------------------------------------
    let zones = zone_cases();
    rep.exhaustive_parts.push(format!(
        "print zones: start columns {{0,1,12,13,14,15,16,27,28,29,41,42,43}} x item widths 0..30 (strings; numbers of \
         both signs for widths 3..11), then comma, mark, comma, next statement; on all four sinks in one interleaved \
         program ({} programs)",
        zones.len()
    ));
    run_work(chunked(zones, 40), &mut rep);

    // ---- 3. PRINT USING, every format string over {{# , . \ space ! x}} ------------------------------
    let src_len = if thorough { 5 } else { 4 };
    let (w, n) = using_work(Level::Source, src_len, 150);
    rep.exhaustive_parts.push(format!(
        "PRINT USING at source level: all {} format strings over {{# , . \\ space ! x}} of length <= {}, each with a \
         numeric and a string operand list (two or three operands: cyclic reuse), devices rotating over the four sinks",
        n, src_len
    ));
    run_work(w, &mut rep);
    let ins_len = if thorough { 8 } else { 6 };
    let (w, n) = using_work(Level::Instr, ins_len, 4000);
    rep.exhaustive_parts.push(format!(
        "PRINT USING at instruction level (the generator's Print* sequence with constants, through the VM): all {} format \
         strings of length <= {}, same operand lists, screen and LPT1",
        n, ins_len
    ));
    run_work(w, &mut rep);

    // ---- 4. the shipped LPT1 device (F15, repaired) -------------------------------------------------
    // The shipped interpreter has no printer to write to. LPRINT must then either deliver the text or raise a
    // BASIC device error the program can trap (Device I/O error, 57) -- never abort the interpreter.
    rep.case(Some("default-device LPRINT".into()));
    rep.bump("lprint.default-device");
    let shipped = std::panic::catch_unwind(|| {
        let (igr, udt) = compile("LPRINT \"x\";").ok().expect("LPRINT compiles");
        let mut interpreter = rusty_basic::interpreter::new_default_interpreter(udt);
        let r = interpreter.interpret(igr).map_err(|e| format!("{:?}", e));
        (r, interpreter.get_last_error_code())
    });
    let acceptable = match &shipped {
        Ok((Ok(()), _)) => true,
        Ok((Err(e), _)) => e.contains("DeviceIOError"),
        Err(_) => false,
    };
    if !acceptable {
        rep.fail(Failure {
            kind: Kind::ImplVsProperty,
            signature: "lprint:default-device".into(),
            input: "LPRINT \"x\";   (new_default_interpreter: WritePrinter<Lpt1Write>)".into(),
            implementation: match shipped {
                Err(_) => "panic".to_owned(),
                Ok(r) => format!("{:?}", r),
            },
            expected: "the text reaches the printer device, or Device I/O error (57)".into(),
            note: "the in-memory hook substitutes a byte buffer for LPT1, so the column rules are checked above".into(),
        });
    }

    // ---- 5. negative zero ----------------------------------------------------------------------------
    for (src, what) in [("PRINT -0.0;", "SINGLE"), ("PRINT -0.0#;", "DOUBLE")] {
        rep.case(Some(format!("negative zero {}", what)));
        rep.bump("number.negative-zero");
        let out = std::panic::catch_unwind(|| {
            compile(src).ok().map(|(igr, udt)| run_instructions(igr, udt, b"", 10_000, None, false).stdout)
        });
        let got = match out {
            Ok(Some(b)) => show(&b),
            _ => "no output".to_owned(),
        };
        if got != show(b" 0 ") {
            rep.fail(Failure {
                kind: Kind::ImplVsProperty,
                signature: "number:negative-zero".into(),
                input: src.to_owned(),
                implementation: got,
                expected: show(b" 0 "),
                note: "a number is written with a leading space or a minus sign, not both".into(),
            });
        }
    }

    let _ = std::env::set_current_dir(std::env::temp_dir());
    let _ = std::fs::remove_dir_all(&scratch);
    rep.finish();
}
