//! C18 — file built-ins: operation histories run through the real interpreter in a scratch directory,
//! compared with (a) the Lean model `RbModel.Files` (outputs, error codes, bytes on disk) and (b) independent
//! property oracles written here (round trips, APPEND prefix, PUT/GET table, handle protocol, console = file
//! splitting; several FIELD lists on one RANDOM handle: byte-level record table + the bytes on disk, with
//! shrinking of a failing history; family `multi`: interleaved histories with 2..3 handles open at the same time on
//! two files, every prefix a case of its own = comparison after every single operation, frame check on the real
//! bytes, shrinker).  RANDOM-file values come from the whole byte range (NUL-free): CHR$(1..31), CHR$(127), CHR$(128..255)
//! and mixes in lengths 0 / 1 / width - 1 / width / width + 1 (family `fields-bytes` enumerates field x length x class;
//! `put-get` also compares the raw file); a byte >= 128 is one byte of the record and two (UTF-8) on standard output.

use std::collections::HashMap;
use std::path::PathBuf;

use rb_harness::driver::ask;
use rb_harness::json::J;
use rb_harness::report::{Failure, Kind, Report};
use rb_harness::rng::Rng;
use rusty_basic::interpreter::verif::run_in_memory;

// ---------------------------------------------------------------------------------------------
// histories

#[derive(Clone, Copy, Debug, PartialEq, Eq, Hash)]
enum Nm {
    P(u8),
    O(u8),
}

#[derive(Clone, Copy, Debug, PartialEq, Eq)]
enum Md {
    I,
    O,
    A,
    R,
}

#[derive(Clone, Debug)]
enum Op {
    Open { h: u32, n: Nm, m: Md, len: u32 },
    Print { h: u32, items: Vec<Vec<u8>>, nl: bool },
    Input { h: u32, v: u8 },
    Line { h: u32, v: u8 },
    Eof { h: u32 },
    Close(Vec<u32>),
    Kill(Nm),
    Name(Nm, Nm),
    Field { h: u32, fields: Vec<(u32, u8)> },
    Lset { v: u8, val: Vec<u8> },
    Put { h: u32, n: u32 },
    Get { h: u32, n: u32 },
    Show(u8),
    CInput(u8),
    CLine(u8),
}

fn file_name(n: Nm) -> String {
    match n {
        Nm::P(0) => "A.TXT".into(),
        Nm::P(1) => "B.TXT".into(),
        Nm::P(2) => "C.TXT".into(),
        Nm::P(3) => "D".into(),
        Nm::P(k) => format!("N{}.TXT", k),
        Nm::O(k) => format!("NODIR/X{}.TXT", k),
    }
}

fn sx_name(n: Nm) -> String {
    match n {
        Nm::P(k) => format!("(p {})", k),
        Nm::O(k) => format!("(o {})", k),
    }
}

fn sx_bytes(b: &[u8]) -> String {
    format!("({})", b.iter().map(|x| x.to_string()).collect::<Vec<_>>().join(" "))
}

fn basic_str(b: &[u8]) -> String {
    // printable ASCII except the quote goes into literals, the rest through CHR$
    let mut parts: Vec<String> = vec![];
    let mut cur = String::new();
    for &c in b {
        if (32..127).contains(&c) && c != b'"' {
            cur.push(c as char);
        } else {
            if !cur.is_empty() {
                parts.push(format!("\"{}\"", cur));
                cur.clear();
            }
            parts.push(format!("CHR$({})", c));
        }
    }
    if !cur.is_empty() || parts.is_empty() {
        parts.push(format!("\"{}\"", cur));
    }
    parts.join(" + ")
}

impl Op {
    fn tag(&self) -> &'static str {
        match self {
            Op::Open { .. } => "open",
            Op::Print { .. } => "print",
            Op::Input { .. } => "input",
            Op::Line { .. } => "line",
            Op::Eof { .. } => "eof",
            Op::Close(_) => "close",
            Op::Kill(_) => "kill",
            Op::Name(..) => "name",
            Op::Field { .. } => "field",
            Op::Lset { .. } => "lset",
            Op::Put { .. } => "put",
            Op::Get { .. } => "get",
            Op::Show(_) => "show",
            Op::CInput(_) => "cinput",
            Op::CLine(_) => "cline",
        }
    }

    fn uses_variables_across_statements(&self) -> bool {
        matches!(self, Op::Field { .. } | Op::Lset { .. } | Op::Put { .. } | Op::Get { .. } | Op::Show(_))
    }

    fn reads_into_variable(&self) -> bool {
        matches!(self, Op::Input { .. } | Op::Line { .. } | Op::CInput(_) | Op::CLine(_))
    }

    fn sexp(&self) -> String {
        match self {
            Op::Open { h, n, m, len } => format!(
                "(open {} {} {} {})",
                h,
                sx_name(*n),
                match m {
                    Md::I => "i",
                    Md::O => "o",
                    Md::A => "a",
                    Md::R => "r",
                },
                len
            ),
            Op::Print { h, items, nl } => format!(
                "(print {} ({}) {})",
                h,
                items.iter().map(|i| sx_bytes(i)).collect::<Vec<_>>().join(" "),
                if *nl { "t" } else { "f" }
            ),
            Op::Input { h, v } => format!("(input {} {})", h, v),
            Op::Line { h, v } => format!("(line {} {})", h, v),
            Op::Eof { h } => format!("(eof {})", h),
            Op::Close(hs) => format!("(close ({}))", hs.iter().map(|x| x.to_string()).collect::<Vec<_>>().join(" ")),
            Op::Kill(n) => format!("(kill {})", sx_name(*n)),
            Op::Name(o, n) => format!("(name {} {})", sx_name(*o), sx_name(*n)),
            Op::Field { h, fields } => format!(
                "(field {} ({}))",
                h,
                fields.iter().map(|(w, v)| format!("({} {})", w, v)).collect::<Vec<_>>().join(" ")
            ),
            Op::Lset { v, val } => format!("(lset {} {})", v, sx_bytes(val)),
            Op::Put { h, n } => format!("(put {} {})", h, n),
            Op::Get { h, n } => format!("(get {} {})", h, n),
            Op::Show(v) => format!("(show {})", v),
            Op::CInput(v) => format!("(cinput {})", v),
            Op::CLine(v) => format!("(cline {})", v),
        }
    }

    fn basic(&self) -> Vec<String> {
        let show = |v: &u8| format!("PRINT \"[\"; V{}$; \"]\"", v);
        match self {
            Op::Open { h, n, m, len } => {
                let mode = match m {
                    Md::I => "INPUT",
                    Md::O => "OUTPUT",
                    Md::A => "APPEND",
                    Md::R => "RANDOM",
                };
                let len = if *len > 0 { format!(" LEN = {}", len) } else { String::new() };
                vec![format!("OPEN \"{}\" FOR {} AS #{}{}", file_name(*n), mode, h, len)]
            }
            Op::Print { h, items, nl } => vec![format!(
                "PRINT #{}, {}{}",
                h,
                items.iter().map(|i| basic_str(i)).collect::<Vec<_>>().join("; "),
                if *nl { "" } else { ";" }
            )],
            Op::Input { h, v } => vec![format!("INPUT #{}, V{}$", h, v), show(v)],
            Op::Line { h, v } => vec![format!("LINE INPUT #{}, V{}$", h, v), show(v)],
            Op::Eof { h } => vec![format!("PRINT EOF({})", h)],
            Op::Close(hs) => {
                if hs.is_empty() {
                    vec!["CLOSE".into()]
                } else {
                    vec![format!("CLOSE {}", hs.iter().map(|h| format!("#{}", h)).collect::<Vec<_>>().join(", "))]
                }
            }
            Op::Kill(n) => vec![format!("KILL \"{}\"", file_name(*n))],
            Op::Name(o, n) => vec![format!("NAME \"{}\" AS \"{}\"", file_name(*o), file_name(*n))],
            Op::Field { h, fields } => vec![format!(
                "FIELD #{}, {}",
                h,
                fields.iter().map(|(w, v)| format!("{} AS V{}$", w, v)).collect::<Vec<_>>().join(", ")
            )],
            Op::Lset { v, val } => vec![format!("LSET V{}$ = {}", v, basic_str(val))],
            Op::Put { h, n } => vec![format!("PUT #{}, {}", h, n)],
            Op::Get { h, n } => vec![format!("GET #{}, {}", h, n)],
            Op::Show(v) => vec![show(v)],
            Op::CInput(v) => vec![format!("INPUT V{}$", v), show(v)],
            Op::CLine(v) => vec![format!("LINE INPUT V{}$", v), show(v)],
        }
    }
}

/// Initial scratch directory: (plain name index, None = directory | Some(bytes) = file).
type Init = Vec<(u8, Option<Vec<u8>>)>;

const SEP: &[u8] = b"~~\r\n";

fn program(ops: &[Op], trap: bool) -> String {
    let mut lines: Vec<String> = vec![];
    if trap {
        lines.push("ON ERROR GOTO Handler".into());
    }
    for op in ops {
        lines.extend(op.basic());
        lines.push("PRINT \"~~\"".into());
    }
    lines.push("END".into());
    if trap {
        lines.push("Handler:".into());
        lines.push("PRINT \"E\"; ERR".into());
        lines.push("RESUME NEXT".into());
    }
    lines.join("\n") + "\n"
}

fn request(init: &Init, stdin: &[u8], ops: &[Op], stop: bool) -> String {
    let fs: Vec<String> = init
        .iter()
        .map(|(k, e)| match e {
            None => format!("({} d)", k),
            Some(b) => format!("({} {})", k, sx_bytes(b)),
        })
        .collect();
    format!(
        "(files.run (fs {}) (stdin {}) (ops {}){})",
        fs.join(" "),
        stdin.iter().map(|x| x.to_string()).collect::<Vec<_>>().join(" "),
        ops.iter().map(|o| o.sexp()).collect::<Vec<_>>().join(" "),
        if stop { " stop" } else { "" }
    )
}

// ---------------------------------------------------------------------------------------------
// running the real code

struct ImplRun {
    blocks: Vec<Vec<u8>>,
    tail: Vec<u8>,
    /// None = panic / front-end error; Some(None) = Ok(()); Some(Some(code)) = runtime error
    result: Option<Option<i32>>,
    problem: Option<String>,
    listing: String,
}

fn split_blocks(out: &[u8]) -> (Vec<Vec<u8>>, Vec<u8>) {
    let mut blocks = vec![];
    let mut start = 0;
    let mut i = 0;
    while i + SEP.len() <= out.len() {
        if &out[i..i + SEP.len()] == SEP {
            blocks.push(out[start..i].to_vec());
            i += SEP.len();
            start = i;
        } else {
            i += 1;
        }
    }
    (blocks, out[start..].to_vec())
}

fn bytes_str(b: &[u8]) -> String {
    b.iter().map(|x| x.to_string()).collect::<Vec<_>>().join(" ")
}

fn reset_scratch(dir: &PathBuf, init: &Init) {
    if let Ok(rd) = std::fs::read_dir(dir) {
        for e in rd.flatten() {
            let p = e.path();
            if p.is_dir() {
                let _ = std::fs::remove_dir_all(&p);
            } else {
                let _ = std::fs::remove_file(&p);
            }
        }
    }
    for (k, e) in init {
        let p = dir.join(file_name(Nm::P(*k)));
        match e {
            None => std::fs::create_dir(&p).expect("scratch mkdir"),
            Some(b) => std::fs::write(&p, b).expect("scratch write"),
        }
    }
}

fn listing(dir: &PathBuf) -> String {
    let mut entries: Vec<(u32, String)> = vec![];
    let mut names: Vec<String> = std::fs::read_dir(dir)
        .map(|rd| rd.flatten().map(|e| e.file_name().to_string_lossy().into_owned()).collect())
        .unwrap_or_default();
    names.sort();
    for name in names {
        let k = (0..8u8).find(|k| file_name(Nm::P(*k)) == name);
        let p = dir.join(&name);
        let body = if p.is_dir() { "d".to_owned() } else { bytes_str(&std::fs::read(&p).unwrap_or_default()) };
        match k {
            Some(k) => entries.push((k as u32, body)),
            None => entries.push((1000, format!("unexpected:{}:{}", name, body))),
        }
    }
    entries.sort();
    entries.iter().map(|(k, b)| format!("{}={}", k, b)).collect::<Vec<_>>().join(";")
}

fn run_impl(dir: &PathBuf, init: &Init, stdin: &[u8], ops: &[Op], trap: bool) -> ImplRun {
    reset_scratch(dir, init);
    let text = program(ops, trap);
    let r = std::panic::catch_unwind(|| run_in_memory(&text, stdin, 1_000_000, None, false));
    let listing = listing(dir);
    match r {
        Err(_) => ImplRun { blocks: vec![], tail: vec![], result: None, problem: Some("panic".into()), listing },
        Ok(Err(e)) => ImplRun {
            blocks: vec![],
            tail: vec![],
            result: None,
            problem: Some(format!("front-end error {:?}", e)),
            listing,
        },
        Ok(Ok(r)) => {
            let (blocks, tail) = split_blocks(&r.stdout);
            let result = match &r.result {
                Ok(()) => None,
                Err(e) => Some(e.err().get_code()),
            };
            ImplRun { blocks, tail, result: Some(result), problem: None, listing }
        }
    }
}

/// Text a block must consist of for an observation in the model's syntax (`ok`, `e53`, `v1 2 3`, `f0`, `f1`).
fn render(out: &str) -> Vec<u8> {
    if out == "ok" {
        vec![]
    } else if let Some(c) = out.strip_prefix('e') {
        format!("E {} \r\n", c).into_bytes()
    } else if out == "f1" {
        b"-1 \r\n".to_vec()
    } else if out == "f0" {
        b" 0 \r\n".to_vec()
    } else if let Some(v) = out.strip_prefix('v') {
        let mut t = vec![b'['];
        for tok in v.split_whitespace() {
            let c: u8 = tok.parse().expect("byte");
            if c == 13 || c == 10 {
                t.extend_from_slice(b"\r\n");
            } else if c >= 128 {
                // a BASIC string holds the byte 128..255 as the character U+0080..U+00FF; the printer writes the
                // string as UTF-8, so the byte arrives on standard output as two bytes (an injective encoding:
                // the comparison stays byte for byte)
                t.push(0xC0 | (c >> 6));
                t.push(0x80 | (c & 0x3F));
            } else {
                t.push(c);
            }
        }
        t.extend_from_slice(b"]\r\n");
        t
    } else {
        panic!("unknown observation {:?}", out)
    }
}

fn out_v(b: &[u8]) -> String {
    format!("v{}", bytes_str(b))
}

/// Does the block of op `op` show the observation `out`?  (After a trapped error in INPUT / LINE INPUT the
/// statement that shows the variable still runs: one more bracket line, whose content is not looked at.)
fn block_matches(op: &Op, block: &[u8], out: &str) -> bool {
    let want = render(out);
    if out.starts_with('e') && op.reads_into_variable() {
        block.starts_with(&want) && {
            let rest = &block[want.len()..];
            rest.starts_with(b"[") && rest.ends_with(b"]\r\n")
        }
    } else {
        block == want.as_slice()
    }
}

// ---------------------------------------------------------------------------------------------
// cases

#[derive(Default)]
struct Case {
    family: &'static str,
    init: Init,
    stdin: Vec<u8>,
    ops: Vec<Op>,
    trap: bool,
    /// property-level expectations per op (model syntax); None = the property makes no claim for that op
    oracle: Vec<Option<String>>,
    /// property-level expectation for the final directory listing
    oracle_listing: Option<String>,
    /// FIELD families: what each expectation is about (signature of a failure), parallel to `oracle`
    labels: Vec<&'static str>,
    /// FIELD families: input-distribution keys of the case
    tags: Vec<String>,
    /// FIELD families: `(op index of a show, file, byte offset, width)` — after the last PUT, what a GET put
    /// into a variable must be that slice of the bytes found on disk after the run (zero filled)
    disk_checks: Vec<(usize, u8, usize, usize)>,
    /// FIELD families: the plan the case was built from (for shrinking)
    plan: Option<FPlan>,
    /// family `multi`: number of the interleaved history this case is a prefix of
    hist: Option<usize>,
    /// family `multi`: index of the case that is the prefix one operation shorter (the state before the last operation)
    prev: Option<usize>,
}

impl Case {
    fn describe(&self) -> String {
        let init: Vec<String> = self
            .init
            .iter()
            .map(|(k, e)| match e {
                None => format!("{}=<dir>", file_name(Nm::P(*k))),
                Some(b) => format!("{}={:?}", file_name(Nm::P(*k)), String::from_utf8_lossy(b)),
            })
            .collect();
        format!(
            "scratch: {{{}}}; stdin: {:?}; program:\n{}",
            init.join(", "),
            String::from_utf8_lossy(&self.stdin),
            program(&self.ops, self.trap)
        )
    }
}

// ---- independent protocol reference (handles = partial map to a mode, store = set of names) ----------

#[derive(Clone, Copy, PartialEq)]
enum RefMode {
    In,
    InDir,
    Out,
    Rand,
}

#[derive(Clone, Copy, PartialEq)]
enum RefNode {
    File,
    Dir,
}

/// What the handle protocol alone determines: Some("ok") / Some("eNN") / None (depends on contents).
fn protocol_reference(init: &Init, ops: &[Op]) -> Vec<Option<String>> {
    let mut names: HashMap<Nm, RefNode> = HashMap::new();
    for (k, e) in init {
        names.insert(Nm::P(*k), if e.is_some() { RefNode::File } else { RefNode::Dir });
    }
    let mut handles: HashMap<u32, RefMode> = HashMap::new();
    let e = |c: u32| Some(format!("e{}", c));
    let ok = || Some("ok".to_owned());
    let mut res = vec![];
    for op in ops {
        let claim = match op {
            Op::Open { h, n, m, .. } => {
                if handles.contains_key(h) {
                    e(55)
                } else {
                    let node = names.get(n).copied();
                    let orphan = matches!(n, Nm::O(_));
                    match m {
                        Md::I => match node {
                            _ if orphan => e(53),
                            None => e(53),
                            Some(RefNode::File) => {
                                handles.insert(*h, RefMode::In);
                                ok()
                            }
                            Some(RefNode::Dir) => {
                                handles.insert(*h, RefMode::InDir);
                                ok()
                            }
                        },
                        _ => match node {
                            _ if orphan => e(53),
                            Some(RefNode::Dir) => e(57),
                            _ => {
                                names.insert(*n, RefNode::File);
                                handles.insert(*h, if *m == Md::R { RefMode::Rand } else { RefMode::Out });
                                ok()
                            }
                        },
                    }
                }
            }
            Op::Print { h, .. } => match handles.get(h) {
                None => e(53),
                Some(RefMode::Out) => ok(),
                Some(_) => e(54),
            },
            Op::Input { h, .. } | Op::Line { h, .. } | Op::Eof { h } => match handles.get(h) {
                None => e(53),
                Some(RefMode::In) => None,
                Some(RefMode::InDir) => e(57),
                Some(_) => e(54),
            },
            Op::Close(hs) => {
                if hs.is_empty() {
                    handles.clear();
                } else {
                    for h in hs {
                        handles.remove(h);
                    }
                }
                ok()
            }
            Op::Kill(n) => match (n, names.get(n).copied()) {
                (Nm::O(_), _) | (_, None) => e(53),
                (_, Some(RefNode::Dir)) => e(57),
                _ => {
                    names.remove(n);
                    ok()
                }
            },
            Op::Name(o, n) => {
                let src = names.get(o).copied();
                let dst = names.get(n).copied();
                if matches!(o, Nm::O(_)) || src.is_none() || matches!(n, Nm::O(_)) {
                    e(53)
                } else if o == n {
                    ok()
                } else {
                    match (src.unwrap(), dst) {
                        (RefNode::File, Some(RefNode::Dir)) | (RefNode::Dir, Some(RefNode::File)) => e(57),
                        (s, _) => {
                            names.remove(o);
                            names.insert(*n, s);
                            ok()
                        }
                    }
                }
            }
            Op::Field { h, fields } => {
                if fields.iter().any(|(w, _)| *w == 0) {
                    e(50)
                } else if !handles.contains_key(h) {
                    e(53)
                } else {
                    None
                }
            }
            Op::Put { h, n } | Op::Get { h, n } => {
                if *n == 0 {
                    e(63)
                } else {
                    match handles.get(h) {
                        None => e(53),
                        Some(RefMode::Rand) => None,
                        Some(_) => e(54),
                    }
                }
            }
            Op::Lset { .. } | Op::Show(_) | Op::CInput(_) | Op::CLine(_) => None,
        };
        res.push(claim);
    }
    res
}

// ---- generators -------------------------------------------------------------------------------------

fn text_alphabet() -> Vec<Op> {
    let a = Nm::P(0);
    let b = Nm::P(1);
    vec![
        Op::Open { h: 1, n: a, m: Md::O, len: 0 },
        Op::Open { h: 2, n: a, m: Md::I, len: 0 },
        Op::Open { h: 1, n: a, m: Md::A, len: 0 },
        Op::Open { h: 2, n: b, m: Md::I, len: 0 },
        Op::Print { h: 1, items: vec![b"p,q".to_vec()], nl: true },
        Op::Line { h: 2, v: 0 },
        Op::Input { h: 2, v: 0 },
        Op::Eof { h: 2 },
        Op::Close(vec![1]),
        Op::Close(vec![]),
        Op::Kill(a),
        Op::Name(a, b),
    ]
}

fn random_alphabet() -> Vec<Op> {
    let a = Nm::P(0);
    vec![
        Op::Open { h: 1, n: a, m: Md::R, len: 4 },
        Op::Field { h: 1, fields: vec![(3, 0), (1, 1)] },
        Op::Field { h: 1, fields: vec![(2, 2)] },
        Op::Lset { v: 0, val: b"pqrs".to_vec() },
        Op::Lset { v: 2, val: b"Z".to_vec() },
        Op::Put { h: 1, n: 1 },
        Op::Put { h: 1, n: 2 },
        Op::Get { h: 1, n: 1 },
        Op::Get { h: 1, n: 2 },
        Op::Show(0),
        Op::Show(2),
        Op::Close(vec![1]),
    ]
}

fn enumerate(alphabet: &[Op], max_len: usize, f: &mut dyn FnMut(Vec<Op>)) {
    fn go(alphabet: &[Op], max_len: usize, cur: &mut Vec<Op>, f: &mut dyn FnMut(Vec<Op>)) {
        if !cur.is_empty() {
            f(cur.clone());
        }
        if cur.len() == max_len {
            return;
        }
        for op in alphabet {
            cur.push(op.clone());
            go(alphabet, max_len, cur, f);
            cur.pop();
        }
    }
    go(alphabet, max_len, &mut vec![], f);
}

const POOL: &[&[u8]] = &[b"ab", b"c d", b"x,y", b" lead", b"trail ", b"", b"12", b"a\tb", b",", b"q\rr", b"s\nt", b"u\r\nv", b"  ", b"H i"];

/// LSET values of the histories that go to the model (families `random-all`, `multi`): the text pool plus values with
/// control characters and CHR$(127), shorter than / as long as / longer than the fields they go to (widths 1..4),
/// NUL-free (PUT's padding must be distinguishable from data).
const RPOOL: &[&[u8]] = &[
    b"ab", b"c d", b"x,y", b"", b"12", b"a\tb", b"q\rr", b"H i", b"pqrs", b"tuvwx", &[1], &[127], &[31, 66, 7], &[27, 127, 1, 2, 3], &[65, 127], &[8, 9],
];

/// ... and, for the histories of `multi` in which every handle is opened FOR RANDOM (no text reader can meet the
/// bytes: the UTF-8 validation of the text readers is outside the model), values with characters of the upper half.
const RPOOL_HIGH: &[&[u8]] =
    &[&[200], &[200, 1], &[255, 65], &[128, 129, 130], &[31, 200, 66, 7, 250], &[65, 233], &[233, 65, 66], &[27, 127, 128, 255], &[233], &[160, 161]];

fn random_name(rng: &mut Rng) -> Nm {
    match rng.below(12) {
        0..=3 => Nm::P(0),
        4..=6 => Nm::P(1),
        7..=8 => Nm::P(2),
        9..=10 => Nm::P(3),
        _ => Nm::O(0),
    }
}

fn random_op(rng: &mut Rng, with_random_files: bool) -> Op {
    let h = rng.range(1, 3) as u32;
    let v = rng.below(2) as u8;
    let top = if with_random_files { 17 } else { 11 };
    match rng.below(top) {
        0 | 1 => Op::Open {
            h,
            n: random_name(rng),
            m: *rng.pick(if with_random_files { &[Md::I, Md::O, Md::A, Md::R, Md::R][..] } else { &[Md::I, Md::I, Md::O, Md::A][..] }),
            len: if with_random_files { *rng.pick(&[0u32, 3, 4, 4, 6]) } else { 0 },
        },
        2 | 3 => {
            let n = rng.range(1, 3);
            Op::Print { h, items: (0..n).map(|_| rng.pick(POOL).to_vec()).collect(), nl: rng.chance(3, 4) }
        }
        4 => Op::Input { h, v },
        5 => Op::Line { h, v },
        6 => Op::Eof { h },
        7 => {
            if rng.chance(1, 3) {
                Op::Close(vec![])
            } else if rng.chance(1, 4) {
                Op::Close(vec![h, rng.range(1, 3) as u32])
            } else {
                Op::Close(vec![h])
            }
        }
        8 => Op::Kill(random_name(rng)),
        9 => Op::Name(random_name(rng), random_name(rng)),
        10 => Op::Line { h, v },
        // random-file ops: the variables of handle h are 2h and 2h+1 (never shared between handles)
        11 => {
            let w1 = rng.range(0, 4) as u32;
            if rng.chance(1, 3) {
                Op::Field { h, fields: vec![(w1.max(1), (2 * h) as u8)] }
            } else {
                Op::Field { h, fields: vec![(w1, (2 * h) as u8), (rng.range(1, 3) as u32, (2 * h + 1) as u8)] }
            }
        }
        12 => Op::Lset { v: (2 * h + rng.below(2) as u32) as u8, val: rng.pick(RPOOL).to_vec() },
        13 | 14 => Op::Put { h, n: rng.range(0, 3) as u32 },
        15 => Op::Get { h, n: rng.range(0, 4) as u32 },
        _ => Op::Show((2 * h + rng.below(2) as u32) as u8),
    }
}

fn random_line(rng: &mut Rng, field: bool) -> Vec<u8> {
    let alphabet: &[u8] = if field { b"abcXYZ019 .;:-_'()\t" } else { b"abcXYZ019 ,,.;:-_'()\t " };
    // mostly short; one in five is long enough to straddle the boundaries of read buffers of 64..1024 bytes
    // (no letters in long lines: the tokenizer rejects runs of more than 40 letters even inside literals)
    let long = rng.chance(1, 5);
    let n = if long {
        let base = *rng.pick(&[64u64, 128, 256, 512, 1024]);
        base - 3 + rng.below(6)
    } else {
        rng.below(9)
    };
    let long_alphabet: &[u8] = if field { b"019.;:-_'()" } else { b"019 ,.;:-_'()" };
    let mut v: Vec<u8> = (0..n).map(|_| *rng.pick(if long { long_alphabet } else { alphabet })).collect();
    if field {
        // blank-trimmed
        while v.first().is_some_and(|c| *c == b' ' || *c == b'\t') {
            v.remove(0);
        }
        while v.last().is_some_and(|c| *c == b' ' || *c == b'\t') {
            v.pop();
        }
    }
    v
}

fn some(s: &str) -> Option<String> {
    Some(s.to_owned())
}

/// PRINT # lines to OUTPUT/APPEND, CLOSE, reopen, read back with LINE INPUT # / INPUT #, EOF exact, then 62.
fn round_trip_case(rng: &mut Rng) -> Case {
    let n = Nm::P(rng.below(3) as u8);
    let h = rng.range(1, 3) as u32;
    let append = rng.chance(1, 2);
    let by_field = rng.chance(1, 2);
    let mut init: Init = vec![(3, None)];
    let mut old_lines: Vec<Vec<u8>> = vec![];
    let mut old_bytes: Vec<u8> = vec![];
    if rng.chance(2, 3) {
        for _ in 0..rng.below(3) {
            let l = random_line(rng, by_field);
            old_bytes.extend_from_slice(&l);
            old_bytes.extend_from_slice(b"\r\n");
            old_lines.push(l);
        }
        if let Nm::P(k) = n {
            init.push((k, Some(old_bytes.clone())));
        }
    } else {
        old_bytes.clear();
    }
    let mut ops = vec![Op::Open { h, n, m: if append { Md::A } else { Md::O }, len: 0 }];
    let mut oracle = vec![some("ok")];
    let mut expect: Vec<Vec<u8>> = if append { old_lines.clone() } else { vec![] };
    let mut bytes: Vec<u8> = if append { old_bytes.clone() } else { vec![] };
    let rows = rng.below(4);
    for _ in 0..rows {
        if by_field {
            // one or more comma-free, blank-trimmed fields per line, separated by commas
            let k = rng.range(1, 3);
            let mut items: Vec<Vec<u8>> = vec![];
            for j in 0..k {
                let f = random_line(rng, true);
                if j > 0 {
                    items.push(b",".to_vec());
                    bytes.push(b',');
                }
                bytes.extend_from_slice(&f);
                items.push(f.clone());
                expect.push(f);
            }
            bytes.extend_from_slice(b"\r\n");
            ops.push(Op::Print { h, items, nl: true });
        } else {
            // a line, possibly built by several PRINT # statements ending in `;`
            let l1 = random_line(rng, false);
            let l2 = random_line(rng, false);
            ops.push(Op::Print { h, items: vec![l1.clone()], nl: false });
            oracle.push(some("ok"));
            ops.push(Op::Print { h, items: vec![l2.clone()], nl: true });
            let l = [l1, l2].concat();
            bytes.extend_from_slice(&l);
            bytes.extend_from_slice(b"\r\n");
            expect.push(l);
        }
        oracle.push(some("ok"));
    }
    ops.push(if rng.chance(1, 2) { Op::Close(vec![]) } else { Op::Close(vec![h]) });
    oracle.push(some("ok"));
    ops.push(Op::Open { h, n, m: Md::I, len: 0 });
    oracle.push(some("ok"));
    for l in &expect {
        ops.push(Op::Eof { h });
        oracle.push(some("f0"));
        ops.push(if by_field { Op::Input { h, v: 0 } } else { Op::Line { h, v: 0 } });
        oracle.push(Some(out_v(l)));
    }
    ops.push(Op::Eof { h });
    oracle.push(some("f1"));
    ops.push(if by_field { Op::Input { h, v: 0 } } else { Op::Line { h, v: 0 } });
    oracle.push(some("e62"));
    ops.push(Op::Eof { h });
    oracle.push(some("f1"));
    let mut entries: Vec<(u32, String)> = vec![(3, "d".into())];
    if let Nm::P(k) = n {
        entries.push((k as u32, bytes_str(&bytes)));
    }
    entries.sort();
    let oracle_listing = entries.iter().map(|(k, b)| format!("{}={}", k, b)).collect::<Vec<_>>().join(";");
    Case {
        family: if append { "roundtrip-append" } else { "roundtrip-output" },
        init,
        stdin: vec![],
        ops,
        trap: true,
        oracle,
        oracle_listing: Some(oracle_listing),
        ..Default::default()
    }
}

/// Family `roundtrip-two-writers` (after a wave-12 seed: PRINT #n went through a buffered writer whose line
/// terminator stayed in the handle's buffer until its next PRINT or CLOSE): two or three handles open FOR APPEND on
/// the SAME file at the same time, whole lines printed through them in a random interleaving, all closed, the file read
/// back: the lines come back unchanged and in the order in which they were printed.
fn two_writers_case(rng: &mut Rng) -> Case {
    let k = rng.below(3) as u8;
    let n = Nm::P(k);
    let nh = rng.range(2, 3) as u32;
    let mut init: Init = vec![(3, None)];
    let mut expect: Vec<Vec<u8>> = vec![];
    let mut bytes: Vec<u8> = vec![];
    if rng.chance(1, 2) {
        for _ in 0..rng.range(1, 2) {
            let l = random_line(rng, false);
            bytes.extend_from_slice(&l);
            bytes.extend_from_slice(b"\r\n");
            expect.push(l);
        }
        init.push((k, Some(bytes.clone())));
    }
    let mut ops = vec![];
    let mut oracle = vec![];
    for h in 1..=nh {
        ops.push(Op::Open { h, n, m: Md::A, len: 0 });
        oracle.push(some("ok"));
    }
    for _ in 0..rng.range(2, 6) {
        let h = rng.range(1, nh as i64) as u32;
        let l = random_line(rng, false);
        ops.push(Op::Print { h, items: vec![l.clone()], nl: true });
        oracle.push(some("ok"));
        bytes.extend_from_slice(&l);
        bytes.extend_from_slice(b"\r\n");
        expect.push(l);
    }
    if rng.chance(1, 2) {
        ops.push(Op::Close(vec![]));
        oracle.push(some("ok"));
    } else {
        for h in 1..=nh {
            ops.push(Op::Close(vec![h]));
            oracle.push(some("ok"));
        }
    }
    let h = 1;
    ops.push(Op::Open { h, n, m: Md::I, len: 0 });
    oracle.push(some("ok"));
    for l in &expect {
        ops.push(Op::Eof { h });
        oracle.push(some("f0"));
        ops.push(Op::Line { h, v: 0 });
        oracle.push(Some(out_v(l)));
    }
    ops.push(Op::Eof { h });
    oracle.push(some("f1"));
    let mut entries: Vec<(u32, String)> = vec![(3, "d".into()), (k as u32, bytes_str(&bytes))];
    entries.sort();
    let oracle_listing = entries.iter().map(|(k, b)| format!("{}={}", k, b)).collect::<Vec<_>>().join(";");
    Case { family: "roundtrip-two-writers", init, stdin: vec![], ops, trap: true, oracle, oracle_listing: Some(oracle_listing), ..Default::default() }
}

// ---- byte values for the RANDOM-file families (after a wave-9 seed) -------------------------------------
//
// A BASIC string is a sequence of bytes; the implementation keeps the byte b as the character U+00b, so a byte of
// the upper half takes two bytes in the Rust string while it is ONE byte of the record.  Whatever PUT / GET compute
// from a length must count characters.  The values below therefore come from the whole byte range except NUL (PUT's
// padding must be distinguishable from data) and `~` (the harness's block separator): control characters, CHR$(127),
// CHR$(128..255), printable ASCII, and mixes; their lengths relative to the field are 0, 1, width - 1, width, width + 1.

#[derive(Clone, Copy, Debug, PartialEq)]
enum BClass {
    Ascii,
    Ctl,
    Del,
    High,
    Mix,
}

const BCLASSES: [BClass; 5] = [BClass::Ascii, BClass::Ctl, BClass::Del, BClass::High, BClass::Mix];

fn class_byte(rng: &mut Rng, c: BClass) -> u8 {
    match c {
        BClass::Ascii => *rng.pick(b"abcXYZ019 ,.;:-_'()\"#%"),
        BClass::Ctl => rng.range(1, 31) as u8,
        BClass::Del => 127,
        BClass::High => rng.range(128, 255) as u8,
        BClass::Mix => {
            let k = *rng.pick(&[BClass::Ascii, BClass::Ctl, BClass::Del, BClass::High, BClass::High]);
            class_byte(rng, k)
        }
    }
}

fn class_value(rng: &mut Rng, c: BClass, n: usize) -> Vec<u8> {
    let mut v: Vec<u8> = (0..n).map(|_| class_byte(rng, c)).collect();
    // a mix that happens to have no byte of the upper half gets one (that is what the class is for)
    if c == BClass::Mix && n > 0 && !v.iter().any(|b| *b >= 128) {
        let at = rng.below(n as u64) as usize;
        v[at] = rng.range(128, 255) as u8;
    }
    v
}

/// The lengths a value can have relative to a field of width `w`: 0, 1, w - 1, w, w + 1 (without repetitions).
fn field_lengths(w: u32) -> Vec<usize> {
    let mut ls: Vec<usize> = vec![0, 1, w.saturating_sub(1) as usize, w as usize, w as usize + 1];
    ls.sort();
    ls.dedup();
    ls
}

/// PUT/GET against a table record number -> bytes kept here (and the bytes of the whole file).
fn put_get_case(rng: &mut Rng) -> Case {
    let h = rng.range(1, 3) as u32;
    let w0 = rng.range(1, 3) as u32;
    let w1 = rng.range(1, 3) as u32;
    let len = w0 + w1 + rng.below(2) as u32;
    let (v0, v1) = ((2 * h) as u8, (2 * h + 1) as u8);
    let mut ops = vec![
        Op::Open { h, n: Nm::P(0), m: Md::R, len },
        Op::Field { h, fields: vec![(w0, v0), (w1, v1)] },
    ];
    let mut oracle = vec![some("ok"), some("ok")];
    let mut table: HashMap<u32, (Vec<u8>, Vec<u8>)> = HashMap::new();
    let mut file: Vec<u8> = vec![];
    let mut max_rec = 0;
    let fix = |b: &[u8], w: u32| {
        let mut v = b.to_vec();
        v.resize(w as usize, 0);
        v
    };
    // half of the histories keep the old text values, the other half draw bytes of every class with the lengths
    // 0, 1, width - 1, width, width + 1 (record numbers repeat: a later, shorter value must wipe the earlier one)
    let bytes_mode = rng.chance(1, 2);
    let value = |rng: &mut Rng, w: u32| -> Vec<u8> {
        if bytes_mode {
            let c = *rng.pick(&BCLASSES);
            let n = *rng.pick(&field_lengths(w));
            class_value(rng, c, n)
        } else {
            random_line(rng, false)
        }
    };
    for _ in 0..rng.range(1, 7) {
        let rec = rng.range(1, 4) as u32;
        if rng.chance(2, 3) {
            let a = value(rng, w0);
            let b = value(rng, w1);
            ops.push(Op::Lset { v: v0, val: a.clone() });
            ops.push(Op::Lset { v: v1, val: b.clone() });
            ops.push(Op::Put { h, n: rec });
            oracle.extend([some("ok"), some("ok"), some("ok")]);
            let (fa, fb) = (fix(&a, w0), fix(&b, w1));
            let off = (rec as usize - 1) * len as usize;
            if file.len() < off + (w0 + w1) as usize {
                file.resize(off + (w0 + w1) as usize, 0);
            }
            file[off..off + w0 as usize].copy_from_slice(&fa);
            file[off + w0 as usize..off + (w0 + w1) as usize].copy_from_slice(&fb);
            table.insert(rec, (fa, fb));
            max_rec = max_rec.max(rec);
        } else {
            ops.push(Op::Get { h, n: rec });
            ops.push(Op::Show(v0));
            ops.push(Op::Show(v1));
            oracle.push(some("ok"));
            match table.get(&rec) {
                Some((a, b)) => {
                    oracle.push(Some(out_v(a)));
                    oracle.push(Some(out_v(b)));
                }
                None => {
                    // never written: zero bytes (beyond the end of the file, or a gap)
                    oracle.push(Some(out_v(&vec![0; w0 as usize])));
                    oracle.push(Some(out_v(&vec![0; w1 as usize])));
                }
            }
        }
    }
    let _ = max_rec;
    // the raw bytes of the file: every PUT wrote both fields, padded / cut to their widths, at the record's offset
    let oracle_listing = Some(format!("0={}", bytes_str(&file)));
    Case { family: "put-get", init: vec![], stdin: vec![], ops, trap: false, oracle, oracle_listing, ..Default::default() }
}

/// Console INPUT / LINE INPUT on stdin bytes, and the file forms on a file with the same bytes: the two
/// programs must print the same (the second case carries the first one's blocks as its oracle).
fn console_pair(rng: &mut Rng) -> (Vec<u8>, Vec<bool>) {
    let pieces: &[&[u8]] = &[b"a", b"bc", b" ", b"  ", b",", b"\r\n", b"\r", b"\n", b"x y", b"\t", b"7", b",,"];
    let n = rng.below(10);
    let bytes: Vec<u8> = (0..n).flat_map(|_| rng.pick(pieces).to_vec()).collect();
    let reads: Vec<bool> = (0..rng.range(1, 6)).map(|_| rng.chance(1, 2)).collect();
    (bytes, reads)
}

// ---- FIELD families: several FIELD lists on one RANDOM handle ----------------------------------------
//
// The reference below is the property, written without looking at the Lean model: a RANDOM file is an
// array of records of LEN bytes; `PUT #h, n` stores, from the start of record n, the variables of the
// handle's current FIELD list (the list of the latest FIELD statement, or the first list that holds the
// variable of the latest LSET), each padded with zero bytes or cut to its width; `GET #h, n` gives EVERY
// variable of EVERY FIELD list of the handle the bytes of record n at its offset and width (a variable
// that occurs more than once takes the slice of its last occurrence, lists in FIELD order); bytes never
// written read as zero (anchored in io.rs get_record "zero out missing bytes" and the zero-filled gap of a
// write past the end; the English statement of C18 is silent about records never PUT, so those
// expectations carry their own signature `get-unwritten`).

#[derive(Clone, Debug)]
enum FAct {
    Field { h: u32, list: Vec<(u32, u8)> },
    Lset { v: u8, val: Vec<u8> },
    Put { h: u32, n: u32 },
    Get { h: u32, n: u32 },
}

#[derive(Clone, Debug, Default)]
struct FPlan {
    family: &'static str,
    /// (handle, plain name index, record length), opened FOR RANDOM in this order before anything else
    handles: Vec<(u32, u8, u32)>,
    acts: Vec<FAct>,
}

struct FRefHandle {
    h: u32,
    name: u8,
    len: usize,
    lists: Vec<Vec<(u32, u8)>>,
    current: Option<usize>,
    file: Vec<u8>,
    /// per byte of the file: written by some PUT (false = gap / never written)
    written: Vec<bool>,
    max_rec: u32,
    touched: bool,
}

impl FRefHandle {
    fn vars(&self) -> Vec<u8> {
        let mut vs: Vec<u8> = vec![];
        for l in &self.lists {
            for (_, v) in l {
                if !vs.contains(v) {
                    vs.push(*v);
                }
            }
        }
        vs
    }
}

/// Builds the program and the expectations of a plan; `None` when the plan contains a step the property
/// says nothing about (an error: FIELD wider than the record, LSET of a variable that is in no FIELD list
/// or in the lists of two handles, PUT before any FIELD, record number 0, a handle that is not open).
fn build_fields_case(plan: &FPlan) -> Option<Case> {
    let mut hs: Vec<FRefHandle> = vec![];
    let mut ops: Vec<Op> = vec![];
    let mut oracle: Vec<Option<String>> = vec![];
    let mut labels: Vec<&'static str> = vec![];
    let mut tags: Vec<String> = vec![];
    let mut disk_checks: Vec<(usize, u8, usize, usize)> = vec![];
    let mut vars: HashMap<u8, Vec<u8>> = HashMap::new();
    for (h, name, len) in &plan.handles {
        if *len == 0 || hs.iter().any(|x| x.h == *h || x.name == *name) {
            return None;
        }
        hs.push(FRefHandle {
            h: *h,
            name: *name,
            len: *len as usize,
            lists: vec![],
            current: None,
            file: vec![],
            written: vec![],
            max_rec: 0,
            touched: false,
        });
        ops.push(Op::Open { h: *h, n: Nm::P(*name), m: Md::R, len: *len });
        oracle.push(some("ok"));
        labels.push("open");
    }
    // GET + the print of every variable of every list of the handle; `final_pass` = no PUT follows
    fn get_and_show(
        hd: &FRefHandle,
        n: u32,
        vars: &mut HashMap<u8, Vec<u8>>,
        ops: &mut Vec<Op>,
        oracle: &mut Vec<Option<String>>,
        labels: &mut Vec<&'static str>,
        tags: &mut Vec<String>,
        disk_checks: &mut Vec<(usize, u8, usize, usize)>,
        final_pass: bool,
    ) {
        let off = (n as usize - 1) * hd.len;
        let byte = |j: usize| hd.file.get(off + j).copied().unwrap_or(0);
        let was_written = |j: usize| hd.written.get(off + j).copied().unwrap_or(false);
        let n_written = (0..hd.len).filter(|j| was_written(*j)).count();
        let label = if n_written == 0 {
            "get-unwritten"
        } else if n_written == hd.len {
            "get-written"
        } else {
            "get-partly-written"
        };
        if !final_pass {
            tags.push(format!("fields.{}", label));
        }
        ops.push(Op::Get { h: hd.h, n });
        oracle.push(some("ok"));
        labels.push("get");
        // where each variable's value comes from: its last occurrence
        let mut place: HashMap<u8, (usize, usize)> = HashMap::new();
        for l in &hd.lists {
            let mut start = 0usize;
            for (w, v) in l {
                place.insert(*v, (start, *w as usize));
                start += *w as usize;
            }
        }
        for (v, (start, w)) in &place {
            vars.insert(*v, (0..*w).map(|j| byte(start + j)).collect());
        }
        for v in hd.vars() {
            let (start, w) = place[&v];
            if final_pass {
                disk_checks.push((ops.len(), hd.name, off + start, w));
            }
            ops.push(Op::Show(v));
            oracle.push(Some(out_v(&vars[&v])));
            // a variable whose slice was never written takes the `get-unwritten` signature
            let slice_written = (0..w).filter(|j| was_written(start + *j)).count();
            labels.push(if slice_written == 0 { "get-unwritten" } else if slice_written == w { "get-written" } else { "get-partly-written" });
        }
    }
    for act in &plan.acts {
        match act {
            FAct::Field { h, list } => {
                let hd = hs.iter_mut().find(|x| x.h == *h)?;
                let total: u32 = list.iter().map(|(w, _)| *w).sum();
                if list.is_empty() || list.iter().any(|(w, _)| *w == 0) || total as usize > hd.len {
                    return None;
                }
                if hd.touched {
                    tags.push("fields.field-after-put-or-get".into());
                }
                hd.current = Some(hd.lists.len());
                hd.lists.push(list.clone());
                ops.push(Op::Field { h: *h, fields: list.clone() });
                oracle.push(some("ok"));
                labels.push("field");
            }
            FAct::Lset { v, val } => {
                let holders: Vec<usize> =
                    (0..hs.len()).filter(|i| hs[*i].lists.iter().any(|l| l.iter().any(|(_, u)| u == v))).collect();
                if holders.len() != 1 {
                    return None;
                }
                let hd = &mut hs[holders[0]];
                let idx = hd.lists.iter().position(|l| l.iter().any(|(_, u)| u == v))?;
                if hd.current != Some(idx) {
                    tags.push("fields.lset-changes-current-list".into());
                }
                hd.current = Some(idx);
                vars.insert(*v, val.clone());
                ops.push(Op::Lset { v: *v, val: val.clone() });
                oracle.push(some("ok"));
                labels.push("lset");
            }
            FAct::Put { h, n } => {
                let hd = hs.iter_mut().find(|x| x.h == *h)?;
                if *n == 0 {
                    return None;
                }
                let list = hd.lists.get(hd.current?)?.clone();
                let mut bytes: Vec<u8> = vec![];
                let rec_off = (*n as usize - 1) * hd.len;
                for (w, v) in &list {
                    let mut b = vars.get(v).cloned().unwrap_or_default();
                    // input distribution: length of the value relative to its field x kind of bytes in it
                    let rel = match b.len() {
                        0 => "empty",
                        l if l < *w as usize => "shorter",
                        l if l == *w as usize => "exact",
                        _ => "longer",
                    };
                    let kind = if b.iter().any(|c| *c >= 128) {
                        "with-high-byte"
                    } else if b.iter().any(|c| *c < 32 || *c == 127) {
                        "with-control-byte"
                    } else {
                        "printable"
                    };
                    tags.push(format!("fields.put-value.{}.{}", rel, kind));
                    // a shorter value over bytes of an earlier PUT that are not NUL: they must not survive
                    let at = rec_off + bytes.len();
                    if (b.len()..*w as usize).any(|j| hd.file.get(at + j).is_some_and(|c| *c != 0)) {
                        tags.push(format!("fields.put-shorter-value-over-earlier-bytes.{}", kind));
                    }
                    b.resize(*w as usize, 0);
                    bytes.extend(b);
                }
                let off = rec_off;
                if hd.file.len() < off + bytes.len() {
                    hd.file.resize(off + bytes.len(), 0);
                    hd.written.resize(off + bytes.len(), false);
                }
                hd.file[off..off + bytes.len()].copy_from_slice(&bytes);
                for j in 0..bytes.len() {
                    hd.written[off + j] = true;
                }
                if bytes.len() < hd.len {
                    tags.push("fields.put-shorter-than-record".into());
                }
                hd.max_rec = hd.max_rec.max(*n);
                hd.touched = true;
                ops.push(Op::Put { h: *h, n: *n });
                oracle.push(some("ok"));
                labels.push("put");
            }
            FAct::Get { h, n } => {
                let hd = hs.iter_mut().find(|x| x.h == *h)?;
                if *n == 0 {
                    return None;
                }
                hd.touched = true;
                hd.max_rec = hd.max_rec.max(*n);
                let hd = hs.iter().find(|x| x.h == *h)?;
                get_and_show(hd, *n, &mut vars, &mut ops, &mut oracle, &mut labels, &mut tags, &mut disk_checks, false);
            }
        }
    }
    // closing pass: every record up to one past the last one used, through every handle
    for hd in &hs {
        if hd.lists.is_empty() {
            continue;
        }
        for n in 1..=hd.max_rec.min(6) + 1 {
            get_and_show(hd, n, &mut vars, &mut ops, &mut oracle, &mut labels, &mut tags, &mut disk_checks, true);
        }
    }
    // shape of the FIELD lists
    for hd in &hs {
        tags.push(format!("fields.lists-on-handle.{}", hd.lists.len()));
        let mut seen: HashMap<u8, (usize, usize, usize)> = HashMap::new(); // var -> (list, offset, width)
        let (mut shared, mut moved, mut dup, mut short) = (false, false, false, false);
        for (li, l) in hd.lists.iter().enumerate() {
            let mut start = 0usize;
            for (w, v) in l {
                if let Some((lj, o, ww)) = seen.get(v) {
                    if *lj == li {
                        dup = true;
                    } else {
                        shared = true;
                        if *o != start || *ww != *w as usize {
                            moved = true;
                        }
                    }
                }
                seen.insert(*v, (li, start, *w as usize));
                start += *w as usize;
            }
            if start < hd.len {
                short = true;
            }
        }
        if hd.lists.len() >= 2 {
            tags.push("fields.overlapping-lists".into());
        }
        if shared {
            tags.push("fields.variable-in-two-lists".into());
        }
        if moved {
            tags.push("fields.variable-in-two-lists-other-slice".into());
        }
        if dup {
            tags.push("fields.variable-twice-in-one-list".into());
        }
        if short {
            tags.push("fields.list-shorter-than-record".into());
        }
    }
    if hs.len() > 1 {
        tags.push("fields.two-handles".into());
    }
    let mut entries: Vec<(u32, String)> = hs.iter().map(|hd| (hd.name as u32, bytes_str(&hd.file))).collect();
    entries.sort();
    let oracle_listing = entries.iter().map(|(k, b)| format!("{}={}", k, b)).collect::<Vec<_>>().join(";");
    Some(Case {
        family: plan.family,
        init: vec![],
        stdin: vec![],
        ops,
        trap: false,
        oracle,
        oracle_listing: Some(oracle_listing),
        labels,
        tags,
        disk_checks,
        plan: Some(plan.clone()),
        ..Default::default()
    })
}

/// Bytes of file `k` in a listing `k=b b b;k=d;...`.
fn listing_file(listing: &str, k: u8) -> Option<Vec<u8>> {
    for e in listing.split(';') {
        if let Some((kk, body)) = e.split_once('=') {
            if kk == k.to_string() && body != "d" && !body.starts_with("unexpected") {
                return Some(body.split_whitespace().filter_map(|x| x.parse().ok()).collect());
            }
        }
    }
    None
}

/// The property check of a FIELD-family case: `(signature, what the code did, what was expected)`.
fn fields_violation(case: &Case, run: &ImplRun) -> Option<(String, String, String)> {
    let fam = case.family;
    if let Some(p) = &run.problem {
        let sig = if p == "panic" { "panic".to_owned() } else { "front-end".to_owned() };
        return Some((sig, p.clone(), "a result".into()));
    }
    let result = run.result.unwrap();
    if result.is_some() || run.blocks.len() != case.ops.len() || !run.tail.is_empty() {
        let at = run.blocks.len().min(case.ops.len() - 1);
        return Some((
            format!("property:{}:error:{}", fam, case.ops[at].tag()),
            format!("op {} ({}) ended the program with {:?}", at + 1, case.ops[at].sexp(), result),
            "every operation of the history succeeds".into(),
        ));
    }
    for i in 0..case.ops.len() {
        if let Some(want) = &case.oracle[i] {
            if !block_matches(&case.ops[i], &run.blocks[i], want) {
                return Some((
                    format!("property:{}:{}", fam, case.labels[i]),
                    format!("op {} ({}) printed {:?}", i + 1, case.ops[i].sexp(), String::from_utf8_lossy(&run.blocks[i])),
                    format!("{:?}", String::from_utf8_lossy(&render(want))),
                ));
            }
        }
    }
    for (i, k, off, w) in &case.disk_checks {
        let file = listing_file(&run.listing, *k).unwrap_or_default();
        let want: Vec<u8> = (0..*w).map(|j| file.get(off + j).copied().unwrap_or(0)).collect();
        if !block_matches(&case.ops[*i], &run.blocks[*i], &out_v(&want)) {
            return Some((
                format!("property:{}:get-vs-disk", fam),
                format!("op {} ({}) printed {:?}", i + 1, case.ops[*i].sexp(), String::from_utf8_lossy(&run.blocks[*i])),
                format!("{:?} = bytes {}..{} of {} on disk after the run", String::from_utf8_lossy(&render(&out_v(&want))), off, off + w, file_name(Nm::P(*k))),
            ));
        }
    }
    if let Some(want) = &case.oracle_listing {
        if *want != run.listing {
            return Some((format!("property:{}:disk", fam), run.listing.clone(), want.clone()));
        }
    }
    None
}

/// Greedy shrinking of a failing FIELD-family plan: drop steps (then lower record numbers, drop unused
/// handles) while the same signature keeps failing.  Runs the real code in `dir` (the current directory).
fn shrink_fields(dir: &PathBuf, plan: &FPlan, sig: &str) -> FPlan {
    let fails = |p: &FPlan| -> bool {
        match build_fields_case(p) {
            None => false,
            Some(c) => {
                let run = run_impl(dir, &c.init, &c.stdin, &c.ops, c.trap);
                fields_violation(&c, &run).is_some_and(|v| v.0 == sig)
            }
        }
    };
    let mut cur = plan.clone();
    let mut budget = 400;
    loop {
        let mut changed = false;
        let mut i = 0;
        while i < cur.acts.len() && budget > 0 {
            let mut cand = cur.clone();
            cand.acts.remove(i);
            budget -= 1;
            if fails(&cand) {
                cur = cand;
                changed = true;
            } else {
                i += 1;
            }
        }
        for i in 0..cur.acts.len() {
            if budget == 0 {
                break;
            }
            let mut cand = cur.clone();
            let lowered = match &mut cand.acts[i] {
                FAct::Put { n, .. } | FAct::Get { n, .. } if *n > 1 => {
                    *n -= 1;
                    true
                }
                FAct::Lset { val, .. } if val.len() > 1 => {
                    val.pop();
                    true
                }
                _ => false,
            };
            if lowered {
                budget -= 1;
                if fails(&cand) {
                    cur = cand;
                    changed = true;
                }
            }
        }
        for i in 0..cur.handles.len() {
            if cur.handles.len() > 1 && budget > 0 {
                let mut cand = cur.clone();
                let h = cand.handles.remove(i).0;
                cand.acts.retain(|a| !matches!(a, FAct::Field { h: x, .. } | FAct::Put { h: x, .. } | FAct::Get { h: x, .. } if *x == h));
                budget -= 1;
                if fails(&cand) {
                    cur = cand;
                    changed = true;
                    break;
                }
            }
        }
        if !changed || budget == 0 {
            return cur;
        }
    }
}

/// Values that make a misplaced slice visible: consecutive characters of a long cycle.  In `bytes` mode the cycle
/// runs through every byte 1..255 except `~` in steps of 37 (control characters, CHR$(127) and the upper half come
/// up every few characters; 254 consecutive characters are distinct).
struct Fresh {
    at: usize,
    bytes: bool,
}

impl Fresh {
    fn take(&mut self, n: usize) -> Vec<u8> {
        const CYCLE: &[u8] = b"ABCDEFGHIJKLMNOPQRSTUVWXYZabcdefghijklmnopqrstuvwxyz0123456789#%&*+-/<=>?@";
        (0..n)
            .map(|_| {
                let c = if self.bytes {
                    let b = 1 + ((self.at * 37) % 255) as u8;
                    if b == b'~' { 200 } else { b }
                } else {
                    CYCLE[self.at % CYCLE.len()]
                };
                self.at += 1;
                c
            })
            .collect()
    }
}

/// The shapes of the exhaustive family, record length 4: the whole record; a 1+3 split; a short list that
/// shares its variable with the split (same offset, other width); a 2+2 split that uses the variables of the
/// 1+3 split at other offsets; the same variable twice in one list.
fn field_shapes() -> Vec<Vec<(u32, u8)>> {
    vec![vec![(4, 0)], vec![(1, 1), (3, 2)], vec![(2, 1)], vec![(2, 2), (2, 1)], vec![(2, 3), (2, 3)]]
}

/// One step of the exhaustive family's alphabet.
#[derive(Clone, Copy, Debug)]
enum FStep {
    /// LSET every variable of list `i` (0 / 1 = the first / second FIELD statement), then PUT record `n`
    Fill(usize, u32),
    Get(u32),
    /// `FIELD #1, 2 AS V1$` issued again in the middle
    Refield,
}

fn exhaustive_field_plans(max_len: usize, f: &mut dyn FnMut(FPlan)) {
    let shapes = field_shapes();
    let alphabet =
        [FStep::Fill(0, 1), FStep::Fill(0, 2), FStep::Fill(1, 1), FStep::Fill(1, 2), FStep::Get(1), FStep::Get(2), FStep::Refield];
    for a in 0..shapes.len() {
        for b in 0..shapes.len() {
            if a == b {
                continue;
            }
            let mut seqs: Vec<Vec<FStep>> = vec![];
            enumerate_steps(&alphabet, max_len, &mut seqs);
            for (si, seq) in seqs.into_iter().enumerate() {
                // every second history writes values from the whole byte range
                let mut fresh = Fresh { at: si, bytes: si % 2 == 1 };
                let lists = [shapes[a].clone(), shapes[b].clone()];
                let mut acts = vec![FAct::Field { h: 1, list: lists[0].clone() }, FAct::Field { h: 1, list: lists[1].clone() }];
                for st in &seq {
                    match st {
                        FStep::Fill(i, n) => {
                            for (w, v) in &lists[*i] {
                                acts.push(FAct::Lset { v: *v, val: fresh.take(*w as usize) });
                            }
                            acts.push(FAct::Put { h: 1, n: *n });
                        }
                        FStep::Get(n) => acts.push(FAct::Get { h: 1, n: *n }),
                        FStep::Refield => acts.push(FAct::Field { h: 1, list: shapes[2].clone() }),
                    }
                }
                f(FPlan { family: "fields-enum", handles: vec![(1, 0, 4)], acts });
            }
        }
    }
}

fn enumerate_steps(alphabet: &[FStep], max_len: usize, out: &mut Vec<Vec<FStep>>) {
    fn go(alphabet: &[FStep], max_len: usize, cur: &mut Vec<FStep>, out: &mut Vec<Vec<FStep>>) {
        if !cur.is_empty() {
            out.push(cur.clone());
        }
        if cur.len() == max_len {
            return;
        }
        for s in alphabet {
            cur.push(*s);
            go(alphabet, max_len, cur, out);
            cur.pop();
        }
    }
    go(alphabet, max_len, &mut vec![], out);
}

/// Family `fields-bytes` (after a wave-9 seed: PUT padded a field by the UTF-8 length of the value, so a value with
/// a character of the upper half that was shorter than its field got too little padding).  For every FIELD-list shape
/// below, every field of every list, every length 0 / 1 / width - 1 / width / width + 1 and every class of bytes
/// (control characters, CHR$(127), CHR$(128..255), a mix; NUL-free): records 1 and 2 are first filled to the brim with
/// letters, then record 1 is PUT again with the chosen field holding a value of that length and class (the other
/// fields: fresh letters, or values of the upper half one character short), then GET 1 and GET 2 with every variable
/// of every list printed; the closing pass compares every variable with the bytes on disk and the file with the
/// record table.  Second part: five PUTs to record 1 in a row, every field changing its length from round to round
/// through all five lengths, GET after each.
fn byte_field_plans(rng: &mut Rng, f: &mut dyn FnMut(FPlan)) -> (usize, usize) {
    let shapes: Vec<(u32, Vec<Vec<(u32, u8)>>)> = vec![
        (4, vec![vec![(4, 0)]]),
        (8, vec![vec![(4, 0), (4, 1)]]),
        (6, vec![vec![(1, 0), (2, 1), (3, 2)]]),
        (9, vec![vec![(3, 0), (3, 1), (3, 2)]]),
        (5, vec![vec![(2, 0), (2, 1)]]),
        (6, vec![vec![(2, 0), (4, 1)], vec![(3, 2), (3, 3)]]),
        (7, vec![vec![(5, 0), (2, 1)], vec![(7, 2)]]),
    ];
    let classes = [BClass::Ctl, BClass::Del, BClass::High, BClass::Mix];
    let (mut n_single, mut n_rounds) = (0, 0);
    for (len, lists) in &shapes {
        let fields: Vec<FAct> = lists.iter().map(|l| FAct::Field { h: 1, list: l.clone() }).collect();
        for list in lists.iter() {
            for fi in 0..list.len() {
                for l in field_lengths(list[fi].0) {
                    for c in classes {
                        for others_short in [false, true] {
                            let mut fresh = Fresh { at: n_single, bytes: false };
                            let mut acts = fields.clone();
                            for n in [1u32, 2] {
                                for (w, v) in list {
                                    acts.push(FAct::Lset { v: *v, val: fresh.take(*w as usize) });
                                }
                                acts.push(FAct::Put { h: 1, n });
                            }
                            for (k, (w, v)) in list.iter().enumerate() {
                                let val = if k == fi {
                                    class_value(rng, c, l)
                                } else if others_short {
                                    class_value(rng, BClass::High, *w as usize - 1)
                                } else {
                                    fresh.take(*w as usize)
                                };
                                acts.push(FAct::Lset { v: *v, val });
                            }
                            acts.push(FAct::Put { h: 1, n: 1 });
                            acts.push(FAct::Get { h: 1, n: 1 });
                            acts.push(FAct::Get { h: 1, n: 2 });
                            n_single += 1;
                            f(FPlan { family: "fields-bytes", handles: vec![(1, 0, *len)], acts });
                        }
                    }
                }
            }
            // several PUTs to the same record number, every field running through all its lengths
            for c in BCLASSES {
                for start in 0..2usize {
                    let mut acts = fields.clone();
                    for round in 0..5usize {
                        for (k, (w, v)) in list.iter().enumerate() {
                            let ls = field_lengths(*w);
                            // descending for even fields, ascending for odd ones, so that shorter follows longer
                            let idx = if k % 2 == 0 { (ls.len() * 8 - round - start - k) % ls.len() } else { (round + start + k) % ls.len() };
                            acts.push(FAct::Lset { v: *v, val: class_value(rng, c, ls[idx]) });
                        }
                        acts.push(FAct::Put { h: 1, n: 1 });
                        acts.push(FAct::Get { h: 1, n: 1 });
                    }
                    n_rounds += 1;
                    f(FPlan { family: "fields-bytes", handles: vec![(1, 0, *len)], acts });
                }
            }
        }
    }
    (n_single, n_rounds)
}

/// A random FIELD list for a record of `len` bytes over the variables `pool`.
fn random_field_list(rng: &mut Rng, len: u32, pool: &[u8]) -> Vec<(u32, u8)> {
    let total = if rng.chance(3, 5) { len } else { rng.range(1, len as i64) as u32 };
    let k = rng.range(1, 3.min(total as i64)) as u32;
    // k positive widths that add up to `total`
    let mut cuts: Vec<u32> = vec![];
    while (cuts.len() as u32) < k - 1 {
        let c = rng.range(1, total as i64 - 1) as u32;
        if !cuts.contains(&c) {
            cuts.push(c);
        }
    }
    cuts.sort();
    cuts.push(total);
    let mut prev = 0;
    cuts.iter()
        .map(|c| {
            let w = c - prev;
            prev = *c;
            (w, *rng.pick(pool))
        })
        .collect()
}

fn random_field_plan(rng: &mut Rng) -> FPlan {
    // two plans in three write values from the whole byte range (NUL-free), one keeps the letters and digits
    let mut fresh = Fresh { at: rng.below(250) as usize, bytes: rng.chance(2, 3) };
    let two = rng.chance(1, 5);
    let mut handles: Vec<(u32, u8, u32)> = vec![(rng.range(1, 3) as u32, 0, *rng.pick(&[2u32, 3, 4, 4, 6, 8, 12]))];
    if two {
        let h2 = (1..=3u32).find(|h| *h != handles[0].0).unwrap();
        handles.push((h2, 1, *rng.pick(&[2u32, 4, 5])));
    }
    let pools: [&[u8]; 2] = [&[0, 1, 2, 3, 4], &[5, 6, 7]];
    let mut lists: Vec<Vec<Vec<(u32, u8)>>> = vec![vec![]; handles.len()];
    let mut acts: Vec<FAct> = vec![];
    let field = |rng: &mut Rng, acts: &mut Vec<FAct>, lists: &mut Vec<Vec<Vec<(u32, u8)>>>, i: usize| {
        let l = random_field_list(rng, handles[i].2, pools[i]);
        lists[i].push(l.clone());
        acts.push(FAct::Field { h: handles[i].0, list: l });
    };
    for i in 0..handles.len() {
        let n = if i == 0 { *rng.pick(&[1, 2, 2, 2, 3, 3]) } else { rng.range(1, 2) };
        for _ in 0..n {
            field(rng, &mut acts, &mut lists, i);
        }
    }
    for _ in 0..rng.range(3, 12) {
        let i = if two && rng.chance(1, 3) { 1 } else { 0 };
        let h = handles[i].0;
        let n = *rng.pick(&[1u32, 1, 2, 2, 3, 4]);
        match rng.below(11) {
            0..=3 => {
                // fill one list, PUT
                let l = rng.pick(&lists[i]).clone();
                for (w, v) in &l {
                    // lengths 0, 1, width - 1, width + 1 now and then, the exact width half of the time (record
                    // numbers repeat: a later, shorter value must leave no byte of an earlier one behind)
                    let len = match rng.below(10) {
                        0 => 0,
                        1 => 1,
                        2 | 3 => w.saturating_sub(1),
                        4 => w + 1,
                        _ => *w,
                    };
                    let val = if fresh.bytes && rng.chance(1, 4) {
                        let c = *rng.pick(&BCLASSES);
                        class_value(rng, c, len as usize)
                    } else {
                        fresh.take(len as usize)
                    };
                    acts.push(FAct::Lset { v: *v, val });
                }
                acts.push(FAct::Put { h, n });
            }
            4 | 5 => {
                let l = rng.pick(&lists[i]).clone();
                let (w, v) = *rng.pick(&l);
                acts.push(FAct::Lset { v, val: fresh.take(rng.range(0, w as i64 + 1) as usize) });
            }
            6 => acts.push(FAct::Put { h, n }),
            7..=9 => acts.push(FAct::Get { h, n }),
            _ => {
                if lists[i].len() < 4 {
                    field(rng, &mut acts, &mut lists, i);
                } else {
                    acts.push(FAct::Get { h, n });
                }
            }
        }
    }
    FPlan { family: "fields-random", handles, acts }
}

// ---- family `multi`: interleaved histories over 2..3 handles open at the same time on two files -------------
//
// The histories are mostly protocol-conforming (so that several handles really are open together and data
// flows): a closed handle is opened on A.TXT or B.TXT in a random mode, an open one is used according to its
// mode (PRINT # / LINE INPUT # / INPUT # / EOF / FIELD / LSET / PUT / GET) or closed (alone or with all others);
// text-only histories also contain protocol violations (errors trapped, the run continues).  EVERY PREFIX of a
// history is a case of its own: outputs, final Result and the bytes of every file after every single operation
// are compared with the model (`Thm.C18Multi` proves that model refines the abstract machine with several
// open handles), and the bytes on disk before and after the last operation are compared with each other for
// the frame property (only the file the operation's handle is open on may change).  A failing history is shrunk.

fn multi_history(rng: &mut Rng) -> (Init, Vec<Op>, bool) {
    let with_random = rng.chance(1, 2);
    // half of the histories with RANDOM files use nothing else: their LSET values may hold any byte
    let random_only = with_random && rng.chance(1, 2);
    let nh = rng.range(2, 3) as u32;
    let mut init: Init = vec![];
    if rng.chance(2, 3) {
        init.push((0, Some(rng.pick(&[&b"one\r\ntwo, 3\r\n"[..], b"k", b"a,b\r\n", b""]).to_vec())));
    }
    if rng.chance(1, 2) {
        init.push((1, Some(b"B1,B2\r\nB3\r\n".to_vec())));
    }
    let mut exists = [init.iter().any(|e| e.0 == 0), init.iter().any(|e| e.0 == 1)];
    // handle -> (file, mode, has a FIELD list)
    let mut st: Vec<Option<(u8, Md, bool)>> = vec![None; 4];
    let len = rng.range(4, 14);
    let mut ops: Vec<Op> = vec![];
    for _ in 0..len {
        let h = rng.range(1, nh as i64) as u32;
        let violate = !with_random && rng.chance(1, 8);
        let v = rng.below(2) as u8;
        match st[h as usize] {
            None => {
                if violate {
                    ops.push(match rng.below(4) {
                        0 => Op::Print { h, items: vec![b"no".to_vec()], nl: true },
                        1 => Op::Line { h, v },
                        2 => Op::Eof { h },
                        _ => Op::Close(vec![h]),
                    });
                    continue;
                }
                let f = rng.below(2) as u8;
                let mut m = *rng.pick(if with_random { &[Md::I, Md::O, Md::A, Md::R, Md::R][..] } else { &[Md::I, Md::I, Md::O, Md::A, Md::A][..] });
                if m == Md::I && !exists[f as usize] {
                    m = Md::A;
                }
                if random_only {
                    m = Md::R;
                }
                ops.push(Op::Open { h, n: Nm::P(f), m, len: if m == Md::R { 4 } else { 0 } });
                st[h as usize] = Some((f, m, false));
                if m != Md::I {
                    exists[f as usize] = true;
                }
            }
            Some((f, m, fielded)) => {
                if rng.chance(1, 6) {
                    if rng.chance(1, 4) {
                        ops.push(Op::Close(vec![]));
                        for e in st.iter_mut() {
                            *e = None;
                        }
                    } else {
                        ops.push(Op::Close(vec![h]));
                        st[h as usize] = None;
                    }
                    continue;
                }
                if violate {
                    ops.push(match (rng.below(2), m) {
                        (0, _) => Op::Open { h, n: Nm::P(1 - f), m: Md::O, len: 0 },
                        (_, Md::I) => Op::Print { h, items: vec![b"no".to_vec()], nl: true },
                        _ => Op::Line { h, v },
                    });
                    continue;
                }
                let (v0, v1) = ((2 * h) as u8, (2 * h + 1) as u8);
                match m {
                    Md::I => ops.push(match rng.below(4) {
                        0 | 1 => Op::Line { h, v },
                        2 => Op::Input { h, v },
                        _ => Op::Eof { h },
                    }),
                    Md::O | Md::A => {
                        let n = rng.range(1, 2);
                        ops.push(Op::Print { h, items: (0..n).map(|_| rng.pick(POOL).to_vec()).collect(), nl: rng.chance(3, 4) });
                    }
                    Md::R => {
                        if !fielded || rng.chance(1, 8) {
                            let fields = match rng.below(3) {
                                0 => vec![(2, v0), (2, v1)],
                                1 => vec![(4, v0)],
                                _ => vec![(1, v0), (2, v1)],
                            };
                            ops.push(Op::Field { h, fields });
                            st[h as usize] = Some((f, m, true));
                        } else {
                            ops.push(match rng.below(7) {
                                0 | 1 => Op::Lset {
                                    v: if rng.chance(1, 2) { v0 } else { v1 },
                                    val: if random_only && rng.chance(2, 3) { rng.pick(RPOOL_HIGH).to_vec() } else { rng.pick(RPOOL).to_vec() },
                                },
                                2 | 3 => Op::Put { h, n: rng.range(1, 3) as u32 },
                                4 => Op::Get { h, n: rng.range(1, 3) as u32 },
                                5 => Op::Show(v0),
                                _ => Op::Show(v1),
                            });
                        }
                    }
                }
            }
        }
    }
    (init, ops, !with_random)
}

/// `k=bytes;k=d;...` -> map
fn parse_listing(l: &str) -> HashMap<String, String> {
    l.split(';').filter(|e| !e.is_empty()).filter_map(|e| e.split_once('=')).map(|(k, b)| (k.to_owned(), b.to_owned())).collect()
}

/// The one file the LAST operation of `ops` may change (None = none), given which OPENs succeeded in the run.
fn frame_allowed(ops: &[Op], blocks: &[Vec<u8>]) -> Option<Nm> {
    let mut map: HashMap<u32, Nm> = HashMap::new();
    for (i, op) in ops.iter().enumerate() {
        let last = i + 1 == ops.len();
        match op {
            Op::Open { h, n, .. } => {
                if last {
                    return Some(*n);
                }
                if blocks.get(i).is_some_and(|b| b.is_empty()) {
                    map.insert(*h, *n);
                }
            }
            Op::Close(hs) => {
                if hs.is_empty() {
                    map.clear();
                } else {
                    for h in hs {
                        map.remove(h);
                    }
                }
            }
            Op::Print { h, .. } | Op::Put { h, .. } => {
                if last {
                    return map.get(h).copied();
                }
            }
            _ => {}
        }
    }
    None
}

/// First disagreement between the run of the real code and the model's answer (family `multi`; the same
/// comparison as the generic one in `main`, with position-independent signatures so that it can drive a shrinker).
fn model_mismatch(case: &Case, run: &ImplRun, answer: &str) -> Option<(String, String, String)> {
    if run.problem.is_some() || answer == "(bad-op)" {
        return None;
    }
    let (outs_s, model_listing) = answer.split_once('|')?;
    let outs: Vec<&str> = outs_s.split(';').collect();
    let result = run.result?;
    let complete = if case.trap || result.is_none() { case.ops.len() } else { run.blocks.len() };
    if run.blocks.len() != complete || (case.trap && result.is_some()) {
        return Some(("model:multi:shape".into(), format!("{} blocks, result {:?}", run.blocks.len(), result), format!("{} blocks", complete)));
    }
    for i in 0..complete {
        if i >= outs.len() || !block_matches(&case.ops[i], &run.blocks[i], outs[i]) {
            return Some((
                format!("model:multi:out:{}", case.ops[i].tag()),
                format!("op {} ({}) printed {:?}", i + 1, case.ops[i].sexp(), String::from_utf8_lossy(&run.blocks[i])),
                format!("{} (all: {})", outs.get(i).unwrap_or(&"<missing>"), outs_s),
            ));
        }
    }
    if !case.trap {
        let model_result = outs.last().filter(|o| o.starts_with('e') && outs.len() == complete + 1).map(|o| o[1..].to_owned());
        let impl_result = result.map(|c| c.to_string());
        if model_result != impl_result || !run.tail.is_empty() {
            return Some(("model:multi:result".into(), format!("{:?} tail {:?}", impl_result, String::from_utf8_lossy(&run.tail)), format!("{:?} (all: {})", model_result, outs_s)));
        }
    }
    if model_listing != run.listing {
        return Some(("model:multi:listing".into(), run.listing.clone(), model_listing.to_owned()));
    }
    None
}

/// Removes operations one at a time while the real code and the model still disagree in the same way.
fn shrink_multi(dir: &PathBuf, case: &Case, sig: &str) -> Vec<Op> {
    let fails = |ops: &[Op]| -> bool {
        let run = run_impl(dir, &case.init, &case.stdin, ops, case.trap);
        let ans = ask(&[request(&case.init, &case.stdin, ops, !case.trap)]);
        let c = Case { family: "multi", init: case.init.clone(), ops: ops.to_vec(), trap: case.trap, ..Default::default() };
        model_mismatch(&c, &run, &ans[0]).is_some_and(|m| m.0 == sig)
    };
    let mut cur = case.ops.clone();
    let mut budget = 150;
    loop {
        let mut changed = false;
        let mut i = 0;
        while i < cur.len() && budget > 0 {
            let mut cand = cur.clone();
            cand.remove(i);
            budget -= 1;
            if !cand.is_empty() && fails(&cand) {
                cur = cand;
                changed = true;
            } else {
                i += 1;
            }
        }
        if !changed || budget == 0 {
            return cur;
        }
    }
}

fn build_cases(rng: &mut Rng, thorough: bool, parts: &mut Vec<String>) -> (Vec<Case>, Vec<(usize, usize)>) {
    let mut cases: Vec<Case> = vec![];

    // ---- 1. exhaustive histories over the two reduced alphabets ------------------------------------
    let max_len = if thorough { 5 } else { 3 };
    let base_init: Init = vec![(0, Some(b"x, y\r\nz".to_vec())), (3, None)];
    let mut n_text = 0u64;
    enumerate(&text_alphabet(), max_len, &mut |ops| {
        n_text += 1;
        let oracle = protocol_reference(&base_init, &ops);
        cases.push(Case { family: "enum-text", init: base_init.clone(), stdin: vec![], ops, trap: true, oracle, oracle_listing: None, ..Default::default() });
    });
    let mut n_rand = 0u64;
    enumerate(&random_alphabet(), max_len, &mut |ops| {
        n_rand += 1;
        let oracle = protocol_reference(&vec![], &ops);
        cases.push(Case { family: "enum-random", init: vec![], stdin: vec![], ops, trap: false, oracle, oracle_listing: None, ..Default::default() });
    });
    parts.push(format!(
        "all {} histories of length 1..{} over the 12-operation text alphabet (2 handles, A.TXT/B.TXT; errors trapped, run continues)",
        n_text, max_len
    ));
    parts.push(format!(
        "all {} histories of length 1..{} over the 12-operation RANDOM-file alphabet (OPEN/FIELD x2/LSET x2/PUT x2/GET x2/show x2/CLOSE; stops at the first error)",
        n_rand, max_len
    ));

    // ---- 2. random histories over the full alphabet ------------------------------------------------
    let n_random = if thorough { 60_000 } else { 3_000 };
    for i in 0..n_random {
        let with_random_files = i % 2 == 1;
        let len = rng.range(3, 12) as usize;
        let ops: Vec<Op> = (0..len).map(|_| random_op(rng, with_random_files)).collect();
        let mut init: Init = vec![];
        if rng.chance(3, 4) {
            init.push((0, Some(rng.pick(&[&b"one\r\ntwo, 3\r\n"[..], b"k", b" a , b\rc\nd\r\n\r\n", b""]).to_vec())));
        }
        if rng.chance(1, 3) {
            init.push((1, Some(b"B1,B2\r\n".to_vec())));
        }
        if rng.chance(3, 4) {
            init.push((3, None));
        }
        let trap = !ops.iter().any(|o| o.uses_variables_across_statements()) && rng.chance(4, 5);
        let oracle = protocol_reference(&init, &ops);
        cases.push(Case {
            family: if with_random_files { "random-all" } else { "random-text" },
            init,
            stdin: vec![],
            ops,
            trap,
            oracle,
            oracle_listing: None,
            ..Default::default()
        });
    }

    // ---- 3. property-shaped cases ---------------------------------------------------------------------
    let n_shape = if thorough { 20_000 } else { 1_500 };
    for _ in 0..n_shape {
        let c = round_trip_case(rng);
        cases.push(c);
    }
    for _ in 0..n_shape / 3 {
        let c = two_writers_case(rng);
        cases.push(c);
    }
    for _ in 0..n_shape {
        let c = put_get_case(rng);
        cases.push(c);
    }
    // several FIELD lists on one RANDOM handle: exhaustive small family + random family
    let field_len = if thorough { 4 } else { 3 };
    let mut n_fields = 0u64;
    exhaustive_field_plans(field_len, &mut |plan| {
        if let Some(c) = build_fields_case(&plan) {
            n_fields += 1;
            cases.push(c);
        }
    });
    parts.push(format!(
        "all {} histories OPEN FOR RANDOM LEN=4; FIELD a; FIELD b; s1..sk (k = 1..{}) for every ordered pair a != b of the five \
         FIELD shapes (whole record / 1+3 / short 2 sharing a variable / 2+2 with the variables of 1+3 swapped / one variable twice) \
         and steps over {{LSET all of list 1|2 + PUT 1|2, GET 1|2 + print every variable of every list, FIELD the short list again}}, \
         each followed by GET of records 1..3 with every variable printed and compared with the bytes on disk",
        n_fields, field_len
    ));
    let n_field_random = if thorough { 40_000 } else { 2_500 };
    for _ in 0..n_field_random {
        let plan = random_field_plan(rng);
        if let Some(c) = build_fields_case(&plan) {
            cases.push(c);
        }
    }
    // every field x every length x every class of bytes; several PUTs to one record with changing lengths
    let mut n_bytes = 0u64;
    let (n_single, n_rounds) = byte_field_plans(rng, &mut |plan| {
        if let Some(c) = build_fields_case(&plan) {
            n_bytes += 1;
            cases.push(c);
        }
    });
    parts.push(format!(
        "family fields-bytes, {} histories: {} = every field of every FIELD list of 7 shapes (1..3 fields, 1..2 lists, a list shorter than the record) x \
         value length 0 / 1 / width-1 / width / width+1 x bytes of CHR$(1..31) / CHR$(127) / CHR$(128..255) / a mix (random bytes of the class, NUL-free) x \
         the other fields full of letters / one short with upper-half bytes, PUT over a record that was full of letters, GET of it and of the next record; \
         {} = five PUTs in a row to record 1 with every field changing its length round by round, GET after each; every variable of every list and the \
         bytes on disk compared with the record table",
        n_bytes, n_single, n_rounds
    ));
    // interleaved histories with several handles open at the same time: every prefix is a case
    let n_multi = if thorough { 6_000 } else { 350 };
    for id in 0..n_multi {
        let (init, ops, trap) = multi_history(rng);
        for p in 1..=ops.len() {
            let prefix = ops[..p].to_vec();
            let oracle = protocol_reference(&init, &prefix);
            let prev = if p > 1 { Some(cases.len() - 1) } else { None };
            cases.push(Case {
                family: "multi",
                init: init.clone(),
                stdin: vec![],
                ops: prefix,
                trap,
                oracle,
                oracle_listing: None,
                hist: Some(id),
                prev,
                ..Default::default()
            });
        }
    }
    // close makes reusable: after CLOSE h / CLOSE every handle can be opened again
    for h in 1..=3u32 {
        for all in [false, true] {
            for m in [Md::O, Md::A, Md::R, Md::I] {
                let ops = vec![
                    Op::Open { h, n: Nm::P(0), m, len: 4 },
                    Op::Open { h, n: Nm::P(0), m, len: 4 },
                    Op::Close(if all { vec![] } else { vec![h] }),
                    Op::Open { h, n: Nm::P(0), m: Md::I, len: 0 },
                    Op::Close(vec![h]),
                    Op::Close(vec![h]),
                    Op::Open { h, n: Nm::P(0), m, len: 4 },
                ];
                let oracle = vec![some("ok"), some("e55"), some("ok"), some("ok"), some("ok"), some("ok"), some("ok")];
                cases.push(Case {
                    family: "close-reuse",
                    init: vec![(0, Some(b"z".to_vec()))],
                    stdin: vec![],
                    ops,
                    trap: true,
                    oracle,
                    oracle_listing: None,
                    ..Default::default()
                });
            }
        }
    }
    // console vs file forms on the same bytes
    let n_console = if thorough { 20_000 } else { 1_500 };
    let mut console_pairs: Vec<(usize, usize)> = vec![];
    for _ in 0..n_console {
        let (bytes, reads) = console_pair(rng);
        let con_ops: Vec<Op> = reads.iter().map(|l| if *l { Op::CLine(0) } else { Op::CInput(0) }).collect();
        let mut file_ops: Vec<Op> = vec![Op::Open { h: 1, n: Nm::P(0), m: Md::I, len: 0 }];
        file_ops.extend(reads.iter().map(|l| if *l { Op::Line { h: 1, v: 0 } } else { Op::Input { h: 1, v: 0 } }));
        let a = cases.len();
        cases.push(Case {
            family: "console",
            init: vec![],
            stdin: bytes.clone(),
            oracle: vec![None; con_ops.len()],
            ops: con_ops,
            trap: true,
            oracle_listing: None,
            ..Default::default()
        });
        cases.push(Case {
            family: "console-file-form",
            init: vec![(0, Some(bytes))],
            stdin: vec![],
            oracle: vec![None; file_ops.len()],
            ops: file_ops,
            trap: true,
            oracle_listing: None,
            ..Default::default()
        });
        console_pairs.push((a, a + 1));
    }

    (cases, console_pairs)
}

// ---------------------------------------------------------------------------------------------
// worker processes (the scratch directory is the process's working directory, so parallelism = processes)

fn hex(b: &[u8]) -> String {
    b.iter().map(|x| format!("{:02x}", x)).collect()
}

fn unhex(s: &str) -> Vec<u8> {
    (0..s.len() / 2).map(|i| u8::from_str_radix(&s[2 * i..2 * i + 2], 16).expect("hex")).collect()
}

fn encode_run(idx: usize, r: &ImplRun) -> String {
    format!(
        "{}\t{}\t{}\t{}\t{}\t{}",
        idx,
        hex(r.problem.clone().unwrap_or_default().as_bytes()),
        match r.result {
            None => "x".to_owned(),
            Some(None) => "ok".to_owned(),
            Some(Some(c)) => c.to_string(),
        },
        hex(r.listing.as_bytes()),
        hex(&r.tail),
        r.blocks.iter().map(|b| format!("b{}", hex(b))).collect::<Vec<_>>().join(",")
    )
}

fn decode_run(line: &str) -> (usize, ImplRun) {
    let f: Vec<&str> = line.split('\t').collect();
    assert_eq!(f.len(), 6, "worker line");
    let problem = String::from_utf8(unhex(f[1])).unwrap();
    (
        f[0].parse().unwrap(),
        ImplRun {
            problem: if problem.is_empty() { None } else { Some(problem) },
            result: match f[2] {
                "x" => None,
                "ok" => Some(None),
                c => Some(Some(c.parse().unwrap())),
            },
            listing: String::from_utf8(unhex(f[3])).unwrap(),
            tail: unhex(f[4]),
            blocks: if f[5].is_empty() { vec![] } else { f[5].split(',').map(|b| unhex(&b[1..])).collect() },
        },
    )
}

fn work_dir() -> PathBuf {
    PathBuf::from(std::env::var("VERIF_WORK").unwrap_or_else(|_| std::env::temp_dir().to_string_lossy().into_owned()))
}

/// Runs the cases `i` with `i % n == k` in a private scratch directory and writes the results to a file.
fn worker(k: usize, n: usize, cases: &[Case]) {
    let dir = work_dir().join(format!("c18-scratch-{}", k));
    let _ = std::fs::remove_dir_all(&dir);
    std::fs::create_dir_all(&dir).expect("scratch dir");
    std::env::set_current_dir(&dir).expect("chdir scratch");
    let mut out = String::new();
    for (i, c) in cases.iter().enumerate() {
        if i % n == k {
            let r = run_impl(&dir, &c.init, &c.stdin, &c.ops, c.trap);
            out.push_str(&encode_run(i, &r));
            out.push('\n');
        }
    }
    let _ = std::env::set_current_dir(std::env::temp_dir());
    let _ = std::fs::remove_dir_all(&dir);
    std::fs::write(work_dir().join(format!("c18-worker-{}.out", k)), out).expect("worker output");
}

fn run_all(cases: &[Case]) -> Vec<ImplRun> {
    let n = std::thread::available_parallelism().map(|x| x.get()).unwrap_or(4).clamp(1, 12);
    let exe = std::env::current_exe().expect("current exe");
    let children: Vec<std::process::Child> = (0..n)
        .map(|k| {
            std::process::Command::new(&exe)
                .env("C18_WORKER", format!("{}/{}", k, n))
                .spawn()
                .expect("spawn worker")
        })
        .collect();
    for mut c in children {
        let st = c.wait().expect("worker");
        assert!(st.success(), "a worker process failed: {:?}", st);
    }
    let mut runs: Vec<Option<ImplRun>> = cases.iter().map(|_| None).collect();
    for k in 0..n {
        let p = work_dir().join(format!("c18-worker-{}.out", k));
        let text = std::fs::read_to_string(&p).expect("worker output");
        for line in text.lines() {
            let (i, r) = decode_run(line);
            runs[i] = Some(r);
        }
        let _ = std::fs::remove_file(&p);
    }
    runs.into_iter().map(|r| r.expect("every case has a result")).collect()
}

fn main() {
    std::panic::set_hook(Box::new(|_| {}));
    let mut rng = Rng::from_env();
    let mut rep = Report::new(
        "C18",
        "operation histories (OPEN/PRINT #/INPUT #/LINE INPUT #/EOF/CLOSE/KILL/NAME/FIELD/LSET/PUT/GET, console INPUT/LINE INPUT) \
         over handles 1..3 and names A.TXT/B.TXT/C.TXT/D(directory)/NODIR/X0.TXT(missing parent), each run as one BASIC program \
         in a scratch directory (class = scratch contents + stdin + program text). A history is trivial if no operation of it \
         succeeds in opening a file or reading the console.",
    );
    let thorough = rep.is_thorough();
    let mut parts: Vec<String> = vec![];
    let (cases, console_pairs) = build_cases(&mut rng, thorough, &mut parts);
    if let Ok(w) = std::env::var("C18_WORKER") {
        let (k, n) = w.split_once('/').expect("C18_WORKER=k/n");
        worker(k.parse().unwrap(), n.parse().unwrap(), &cases);
        return;
    }
    rep.exhaustive_parts.extend(parts);
    rep.notes.push(
        "family multi: random interleaved histories over handles 1..3 open AT THE SAME TIME on A.TXT / B.TXT (modes INPUT / OUTPUT / APPEND / RANDOM, \
         mostly protocol-conforming, text-only ones with trapped violations); every prefix of a history is a case, so outputs, Result and the bytes of \
         every file are compared with the model after every single operation; the bytes before / after the last operation are compared for the frame \
         property; the shortest failing prefix is shrunk (counter multi.handles-open-together.N = most handles open together in the case)"
            .into(),
    );

    // ---- run the real code -----------------------------------------------------------------------
    let t_start = std::time::Instant::now();
    let runs: Vec<ImplRun> = run_all(&cases);
    let t_impl = t_start.elapsed().as_secs_f64();
    // ---- ask the model -----------------------------------------------------------------------------
    let reqs: Vec<String> = cases.iter().map(|c| request(&c.init, &c.stdin, &c.ops, !c.trap)).collect();
    let mut answers: Vec<String> = Vec::with_capacity(reqs.len());
    for chunk in reqs.chunks(50_000) {
        answers.extend(ask(chunk));
    }

    rep.notes.push(format!("timing: {} cases, real code {:.1}s, model (driver) {:.1}s", cases.len(), t_impl, t_start.elapsed().as_secs_f64() - t_impl));
    // ---- compare -----------------------------------------------------------------------------------
    let mut multi_failed: std::collections::HashSet<usize> = std::collections::HashSet::new();
    for ((case, run), answer) in cases.iter().zip(runs.iter()).zip(answers.iter()) {
        let trivial = !case.ops.iter().zip(run.blocks.iter()).any(|(op, b)| match op {
            Op::Open { .. } => b.is_empty(),
            Op::CInput(_) | Op::CLine(_) => !b.starts_with(b"E"),
            _ => false,
        });
        rep.case(if trivial { None } else { Some(case.describe()) });
        rep.bump(&format!("family.{}", case.family));
        rep.bump(if case.trap { "mode.errors-trapped" } else { "mode.stop-at-first-error" });
        for op in &case.ops {
            rep.bump(&format!("op.{}", op.tag()));
        }
        for t in &case.tags {
            rep.bump(t);
        }
        if rep.samples.len() < 6 && !trivial && case.ops.len() >= 4 {
            rep.sample(J::s(format!("{} => model {}", case.describe(), answer)));
        }
        let fail = |rep: &mut Report, kind: Kind, sig: String, implementation: String, expected: String, note: &str| {
            rep.fail(Failure { kind, signature: sig, input: case.describe(), implementation, expected, note: note.to_owned() });
        };
        if let Some(hist) = case.hist {
            // family `multi`: the shortest failing prefix of a history is reported (shrunk), the longer ones skipped
            if multi_failed.contains(&hist) {
                continue;
            }
            rep.bump(&format!("multi.handles-open-together.{}", {
                let mut open: std::collections::HashSet<u32> = std::collections::HashSet::new();
                let mut most = 0;
                for (i, op) in case.ops.iter().enumerate() {
                    match op {
                        Op::Open { h, .. } if run.blocks.get(i).is_some_and(|b| b.is_empty()) => {
                            open.insert(*h);
                        }
                        Op::Close(hs) if hs.is_empty() => open.clear(),
                        Op::Close(hs) => {
                            for h in hs {
                                open.remove(h);
                            }
                        }
                        _ => {}
                    }
                    most = most.max(open.len());
                }
                most
            }));
            if let Some((sig, implementation, expected)) = model_mismatch(case, run, answer) {
                multi_failed.insert(hist);
                let dir = work_dir().join("c18-scratch-shrink");
                let _ = std::fs::remove_dir_all(&dir);
                std::fs::create_dir_all(&dir).expect("scratch dir");
                std::env::set_current_dir(&dir).expect("chdir scratch");
                let small = shrink_multi(&dir, case, &sig);
                let c = Case { family: "multi", init: case.init.clone(), ops: small, trap: case.trap, ..Default::default() };
                let r = run_impl(&dir, &c.init, &c.stdin, &c.ops, c.trap);
                let a = ask(&[request(&c.init, &c.stdin, &c.ops, !c.trap)]);
                let _ = std::env::set_current_dir(std::env::temp_dir());
                let _ = std::fs::remove_dir_all(&dir);
                let (input, implementation, expected) = match model_mismatch(&c, &r, &a[0]) {
                    Some(m) if m.0 == sig => (format!("(shrunk from a history of {} operations) {}", case.ops.len(), c.describe()), m.1, m.2),
                    _ => (case.describe(), implementation, expected),
                };
                rep.fail(Failure {
                    kind: Kind::ModelVsImpl,
                    signature: sig,
                    input,
                    implementation,
                    expected,
                    note: "interleaved history over several handles open at the same time: outputs, final Result and bytes on disk after every operation vs RbModel.Files.step".into(),
                });
                continue;
            }
            // frame: only the file the last operation's handle is open on (or the file it opens) may have changed
            if let (Some(prev), None) = (case.prev, &run.problem) {
                let before = parse_listing(&runs[prev].listing);
                let after = parse_listing(&run.listing);
                let allowed = match frame_allowed(&case.ops, &run.blocks) {
                    Some(Nm::P(k)) => Some(k.to_string()),
                    _ => None,
                };
                let mut names: Vec<&String> = before.keys().chain(after.keys()).collect();
                names.sort();
                names.dedup();
                for k in names {
                    if Some(k) != allowed.as_ref() && before.get(k) != after.get(k) {
                        multi_failed.insert(hist);
                        rep.fail(Failure {
                            kind: Kind::ImplVsProperty,
                            signature: format!("property:multi:frame:{}", case.ops.last().map(|o| o.tag()).unwrap_or("?")),
                            input: case.describe(),
                            implementation: format!("file {} after the last operation: {:?}", k, after.get(k)),
                            expected: format!("unchanged: {:?}", before.get(k)),
                            note: "frame: an operation changes at most the file its handle is open on (bytes on disk after the history without / with its last operation)".into(),
                        });
                        break;
                    }
                }
            }
        }
        if let Some(plan) = &case.plan {
            // FIELD families: the property check is `fields_violation`; a failing history is shrunk first
            if let Some((sig, implementation, expected)) = fields_violation(case, run) {
                let shrunk_before = rep.failures.iter().filter(|f| f.signature == sig).count();
                let mut input = case.describe();
                let (mut implementation, mut expected) = (implementation, expected);
                if shrunk_before < 3 {
                    let dir = work_dir().join("c18-scratch-shrink");
                    let _ = std::fs::remove_dir_all(&dir);
                    std::fs::create_dir_all(&dir).expect("scratch dir");
                    std::env::set_current_dir(&dir).expect("chdir scratch");
                    let small = shrink_fields(&dir, plan, &sig);
                    if let Some(c) = build_fields_case(&small) {
                        let r = run_impl(&dir, &c.init, &c.stdin, &c.ops, c.trap);
                        if let Some(v) = fields_violation(&c, &r) {
                            if v.0 == sig {
                                input = format!("(shrunk from a history of {} operations) {}", case.ops.len(), c.describe());
                                implementation = v.1;
                                expected = v.2;
                            }
                        }
                    }
                    let _ = std::env::set_current_dir(std::env::temp_dir());
                    let _ = std::fs::remove_dir_all(&dir);
                }
                rep.fail(Failure {
                    kind: Kind::ImplVsProperty,
                    signature: sig,
                    input,
                    implementation,
                    expected,
                    note: "several FIELD lists on a RANDOM handle: after GET #h, n every variable of every FIELD list holds the bytes of \
                           record n at its offset and width, as last PUT (reference: record table in the harness; closing pass: the bytes on disk)"
                        .into(),
                });
                if run.problem.is_some() {
                    continue;
                }
            }
        }
        if let Some(p) = &run.problem {
            let sig = if p == "panic" { "panic".to_owned() } else { "front-end".to_owned() };
            fail(&mut rep, Kind::ImplVsProperty, sig, p.clone(), "a result".into(), "misuse must be reported as a BASIC error, never a panic");
            continue;
        }
        if answer == "(bad-op)" {
            // the model refuses histories whose LSET is ambiguous; the generators never build one
            fail(&mut rep, Kind::ModelVsImpl, "model:refused".into(), String::new(), answer.clone(), "driver refused the history");
            continue;
        }
        let (outs_s, model_listing) = answer.split_once('|').expect("driver answer");
        let outs: Vec<&str> = outs_s.split(';').collect();
        let result = run.result.unwrap();
        for e in &run.blocks {
            if e.starts_with(b"E") {
                let code = String::from_utf8_lossy(e).split_whitespace().nth(1).unwrap_or("?").to_owned();
                rep.bump(&format!("error.{}", code));
            }
        }
        if let Some(c) = result {
            rep.bump(&format!("error.{}", c));
        }
        // number of operations whose block is complete
        let complete = if case.trap {
            case.ops.len()
        } else {
            match result {
                None => case.ops.len(),
                Some(_) => run.blocks.len(),
            }
        };
        if run.blocks.len() != complete || (case.trap && result.is_some()) {
            fail(
                &mut rep,
                Kind::ModelVsImpl,
                "model:shape".into(),
                format!("{} blocks, result {:?}", run.blocks.len(), result),
                format!("{} blocks", complete),
                "the program did not run to the expected end",
            );
            continue;
        }
        // (a) against the property oracles (the FIELD families were checked above)
        for i in 0..(if case.plan.is_some() { 0 } else { complete }) {
            if let Some(want) = &case.oracle[i] {
                if !block_matches(&case.ops[i], &run.blocks[i], want) {
                    fail(
                        &mut rep,
                        Kind::ImplVsProperty,
                        format!("property:{}:{}", case.family, case.ops[i].tag()),
                        format!("op {} ({}) printed {:?}", i + 1, case.ops[i].sexp(), String::from_utf8_lossy(&run.blocks[i])),
                        format!("{:?}", String::from_utf8_lossy(&render(want))),
                        "independent reference (round trip / record table / handle protocol)",
                    );
                    break;
                }
            } else if matches!(case.ops[i], Op::Input { .. } | Op::Line { .. }) && case.oracle.len() > i {
                // reading from a handle open FOR INPUT: a value or "Input past end of file", nothing else
                let b = &run.blocks[i];
                if !(b.starts_with(b"[") || b.starts_with(b"E 62 ")) {
                    fail(
                        &mut rep,
                        Kind::ImplVsProperty,
                        format!("property:{}:read-error", case.family),
                        format!("{:?}", String::from_utf8_lossy(b)),
                        "a value or E 62".into(),
                        "reading an open input file yields a value or error 62",
                    );
                    break;
                }
            }
        }
        if !case.trap && complete < case.ops.len() && case.plan.is_none() {
            if let Some(want) = &case.oracle[complete] {
                let got = format!("e{}", result.unwrap());
                if *want != got {
                    fail(
                        &mut rep,
                        Kind::ImplVsProperty,
                        format!("property:{}:{}", case.family, case.ops[complete].tag()),
                        format!("op {} ({}) ended the program with {}", complete + 1, case.ops[complete].sexp(), got),
                        want.clone(),
                        "independent reference (round trip / record table / handle protocol)",
                    );
                }
            }
        }
        if let Some(want) = case.oracle_listing.as_ref().filter(|_| case.plan.is_none()) {
            if *want != run.listing {
                fail(
                    &mut rep,
                    Kind::ImplVsProperty,
                    format!("property:{}:disk", case.family),
                    run.listing.clone(),
                    want.clone(),
                    "bytes on disk: OUTPUT = what was printed, APPEND = old contents followed by what was printed, RANDOM = every record PUT at its offset with each field padded with NUL / cut to its width",
                );
            }
        }
        // (b) against the model
        let mut ok = true;
        for i in 0..complete {
            if i >= outs.len() || !block_matches(&case.ops[i], &run.blocks[i], outs[i]) {
                fail(
                    &mut rep,
                    Kind::ModelVsImpl,
                    format!("model:out:{}", case.ops[i].tag()),
                    format!("op {} ({}) printed {:?}", i + 1, case.ops[i].sexp(), String::from_utf8_lossy(&run.blocks[i])),
                    format!("{} (all: {})", outs.get(i).unwrap_or(&"<missing>"), outs_s),
                    "RbModel.Files.step",
                );
                ok = false;
                break;
            }
        }
        if ok && !case.trap {
            let model_result = outs.last().filter(|o| o.starts_with('e') && outs.len() == complete + 1).map(|o| o[1..].to_owned());
            let impl_result = result.map(|c| c.to_string());
            if model_result != impl_result || (!run.tail.is_empty()) {
                fail(
                    &mut rep,
                    Kind::ModelVsImpl,
                    "model:result".into(),
                    format!("{:?} tail {:?}", impl_result, String::from_utf8_lossy(&run.tail)),
                    format!("{:?} (all: {})", model_result, outs_s),
                    "final Result of the run",
                );
                ok = false;
            }
        }
        if ok && model_listing != run.listing {
            fail(&mut rep, Kind::ModelVsImpl, "model:listing".into(), run.listing.clone(), model_listing.to_owned(), "bytes on disk vs the model's final store");
        }
    }

    // console forms vs file forms (property: same splitting)
    for (a, b) in console_pairs {
        let (ra, rb) = (&runs[a], &runs[b]);
        if ra.problem.is_some() || rb.problem.is_some() {
            continue;
        }
        let same = ra.blocks.len() + 1 == rb.blocks.len() && ra.blocks[..] == rb.blocks[1..];
        if !same {
            rep.fail(Failure {
                kind: Kind::ImplVsProperty,
                signature: "property:console-vs-file".into(),
                input: format!("{}\n--- versus ---\n{}", cases[a].describe(), cases[b].describe()),
                implementation: format!("{:?}", ra.blocks.iter().map(|x| String::from_utf8_lossy(x).into_owned()).collect::<Vec<_>>()),
                expected: format!("{:?}", rb.blocks.iter().skip(1).map(|x| String::from_utf8_lossy(x).into_owned()).collect::<Vec<_>>()),
                note: "console INPUT / LINE INPUT must split like INPUT # / LINE INPUT # on the same bytes".into(),
            });
        }
    }

    // ---- 4. pure scanners: model vs the same bytes through a file (covered above) and bytes that are not UTF-8 ----
    {
        let dir2 = work_dir().join("c18-scratch-main");
        let _ = std::fs::remove_dir_all(&dir2);
        std::fs::create_dir_all(&dir2).expect("scratch dir");
        std::env::set_current_dir(&dir2).expect("chdir scratch");
        for (bytes, op) in [
            (vec![b'a', 0xFF, b'b', 13, 10, b'c'], Op::Line { h: 1, v: 0 }),
            (vec![b'a', 0xC8, b'b', 0], Op::Input { h: 1, v: 0 }),
            (vec![0x80], Op::Line { h: 1, v: 0 }),
        ] {
            let init: Init = vec![(0, Some(bytes.clone()))];
            let ops = vec![Op::Open { h: 1, n: Nm::P(0), m: Md::I, len: 0 }, op.clone(), Op::Close(vec![])];
            let run = run_impl(&dir2, &init, b"", &ops, true);
            rep.case(Some(format!("non-utf8 {:?} {}", bytes, op.tag())));
            rep.bump("family.non-utf8");
            let good = run.problem.is_none() && run.blocks.len() == 3 && run.blocks[1].starts_with(b"E 57 ");
            if !good {
                rep.fail(Failure {
                    kind: Kind::ImplVsProperty,
                    signature: if run.problem.as_deref() == Some("panic") { "panic".into() } else { "property:non-utf8".into() },
                    input: format!("A.TXT = {:?}; {}", bytes, program(&ops, true)),
                    implementation: format!("{:?} {:?}", run.problem, run.blocks.iter().map(|x| String::from_utf8_lossy(x).into_owned()).collect::<Vec<_>>()),
                    expected: "E 57 (Device I/O error)".into(),
                    note: "bytes that are not UTF-8 must be reported as an error, not panic".into(),
                });
            }
        }
        let _ = std::env::set_current_dir(std::env::temp_dir());
        let _ = std::fs::remove_dir_all(&dir2);
    }

    rep.finish();
}
