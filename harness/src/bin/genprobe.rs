//! Debug aid: prints generated programs and how the real front end classifies them.
use rb_harness::corpus::{classify, Class};
use rb_harness::gen_prog::{generate, Opts};
use rb_harness::rng::Rng;

fn main() {
    std::panic::set_hook(Box::new(|_| {}));
    let mut rng = Rng::from_env();
    let n: usize = std::env::args().nth(1).and_then(|s| s.parse().ok()).unwrap_or(200);
    let show: usize = std::env::args().nth(2).and_then(|s| s.parse().ok()).unwrap_or(2);
    let opts = Opts::default();
    let mut counts = std::collections::BTreeMap::new();
    let mut shown_bad = 0;
    for k in 0..n {
        let (text, _f) = generate(&mut rng, &opts);
        let c = classify(&text);
        *counts.entry(format!("{:?}", c)).or_insert(0) += 1;
        if k < show {
            println!("----\n{}", text);
        }
        if c != Class::Accepted && shown_bad < 6 {
            shown_bad += 1;
            let e = match rusty_parser::parse_main_str(text.clone()) {
                Err(e) => format!("{:?}", e),
                Ok(p) => match rusty_linter::core::lint(p) {
                    Err(e) => format!("{:?}", e),
                    Ok(_) => "ok".into(),
                },
            };
            println!("==== rejected: {}\n{}", e, text);
        }
    }
    println!("{:?}", counts);
    let corpus = rb_harness::corpus::candidate_texts();
    let mut cc = std::collections::BTreeMap::new();
    for t in &corpus {
        let c = classify(t);
        if c == Class::Panic && std::env::var("SHOW_PANICS").is_ok() {
            println!("==== corpus panic:\n{}", t);
        }
        *cc.entry(format!("{:?}", c)).or_insert(0) += 1;
    }
    println!("corpus candidates {} -> {:?}", corpus.len(), cc);
}
