//! C04 — arrays, records and fixed-length strings change only where they are written.
//!
//! Real code (`rusty_variant::{VArray, UserDefinedTypeValue}` called in-process, whole programs through
//! `rusty_basic::interpreter::verif::run_in_memory`) vs the property (references computed here: an index-box
//! test, a `HashMap<Vec<i32>, value>` store, a pad/truncate function) vs the Lean model `RbModel.Arr`.
//!
//! `c04 --run file.bas` runs one program and prints output, result and the final variable dump (replay aid).

use std::cell::RefCell;
use std::collections::HashMap;
use std::panic::{AssertUnwindSafe, catch_unwind};
use std::rc::Rc;

use rb_harness::driver::ask;
use rb_harness::json::J;
use rb_harness::report::{Failure, Kind, Report};
use rb_harness::rng::Rng;
use rb_harness::sx;
use rusty_basic::interpreter::verif::{Snapshot, run_in_memory};
use rusty_common::CaseInsensitiveString;
use rusty_variant::{UserDefinedTypeValue, VArray, Variant};

type Dims = Vec<(i32, i32)>;

// ---------------------------------------------------------------------------------------------
// references (the property itself)
// ---------------------------------------------------------------------------------------------

fn in_box(dims: &Dims, idx: &[i32]) -> bool {
    dims.len() == idx.len() && dims.iter().zip(idx).all(|((l, u), i)| l <= i && i <= u)
}

fn box_len(dims: &Dims) -> u64 {
    dims.iter().map(|(l, u)| (*u as i64 - *l as i64 + 1) as u64).product()
}

/// all tuples with every index in lb-grow ..= ub+grow
fn enumerate_box(dims: &Dims, grow: i32) -> Vec<Vec<i32>> {
    let mut res: Vec<Vec<i32>> = vec![vec![]];
    for (l, u) in dims {
        let mut next = vec![];
        for t in &res {
            for i in (l - grow)..=(u + grow) {
                let mut t2 = t.clone();
                t2.push(i);
                next.push(t2);
            }
        }
        res = next;
    }
    res
}

/// STRING * n: cut at the first NUL (as the interpreter does), keep at most n characters, pad with spaces.
fn ref_fix(s: &[char], n: usize) -> Vec<char> {
    let cut = s.iter().position(|c| *c == '\0').unwrap_or(s.len());
    let mut v: Vec<char> = s[..cut].iter().take(n).cloned().collect();
    while v.len() < n {
        v.push(' ');
    }
    v
}

fn dims_sx(dims: &Dims) -> String {
    sx::list(dims.iter().map(|(l, u)| format!("({} {})", l, u)))
}

// ---------------------------------------------------------------------------------------------
// deferred model comparisons (one driver round trip per part)
// ---------------------------------------------------------------------------------------------

struct Pending {
    req: String,
    imp: String,
    sig: &'static str,
    note: &'static str,
}

fn flush(rep: &mut Report, pend: &mut Vec<Pending>) {
    let reqs: Vec<String> = pend.iter().map(|p| p.req.clone()).collect();
    let answers = ask(&reqs);
    for (p, a) in pend.iter().zip(answers.iter()) {
        if *a != p.imp {
            rep.fail(Failure {
                kind: Kind::ModelVsImpl,
                signature: p.sig.into(),
                input: p.req.clone(),
                implementation: p.imp.clone(),
                expected: a.clone(),
                note: p.note.into(),
            });
        }
    }
    if let (Some(p), Some(a)) = (pend.first(), answers.first()) {
        rep.sample(J::s(format!("{} -> {}", p.req, a)));
    }
    pend.clear();
}

// ---------------------------------------------------------------------------------------------
// part 1: abs_index
// ---------------------------------------------------------------------------------------------

#[derive(Clone, Copy, PartialEq, Eq, Debug)]
enum Abs {
    Ok(usize),
    Err,
    Panic,
}

fn impl_abs(arr: &VArray, idx: &[i32]) -> Abs {
    match catch_unwind(AssertUnwindSafe(|| arr.abs_index(idx))) {
        Ok(Ok(k)) => Abs::Ok(k),
        Ok(Err(_)) => Abs::Err,
        Err(_) => Abs::Panic,
    }
}

fn abs_str(a: Abs) -> String {
    match a {
        Abs::Ok(k) => k.to_string(),
        Abs::Err => "none".into(),
        Abs::Panic => "panic".into(),
    }
}

fn new_array(dims: &Dims, dflt: i32) -> Option<VArray> {
    catch_unwind(|| VArray::new(dims.clone(), Variant::VInteger(dflt))).ok()
}

/// Checks a set of tuples of one shape against the property and queues the model comparison.
/// With `whole_box` the tuples are the whole box grown by one: the flat indices must then be exactly 0..len-1.
fn check_tuples(rep: &mut Report, pend: &mut Vec<Pending>, dims: &Dims, tuples: &[Vec<i32>], whole_box: bool) {
    let Some(arr) = new_array(dims, 0) else {
        rep.fail(Failure {
            kind: Kind::ImplVsProperty,
            signature: "varray:new-panics".into(),
            input: format!("VArray::new({:?})", dims),
            implementation: "panic".into(),
            expected: "an array".into(),
            note: "allocation of a well-formed shape".into(),
        });
        return;
    };
    let len = box_len(dims);
    if arr.len() as u64 != len {
        rep.fail(Failure {
            kind: Kind::ImplVsProperty,
            signature: "varray:len".into(),
            input: format!("VArray::new({:?}).len()", dims),
            implementation: arr.len().to_string(),
            expected: len.to_string(),
            note: "number of elements = product of the extents".into(),
        });
    }
    pend.push(Pending {
        req: format!("(arr.dimsLen {})", dims_sx(dims)),
        imp: arr.len().to_string(),
        sig: "model:dimsLen",
        note: "RbModel.Arr.dimsLen vs VArray::len",
    });
    let mut seen: HashMap<usize, Vec<i32>> = HashMap::new();
    let mut inside = 0u64;
    for idx in tuples {
        let inb = in_box(dims, idx);
        let trivial = inb && len == 1;
        rep.case(if trivial { None } else { Some(format!("a{:?}{:?}", dims, idx)) });
        rep.bump(&format!("abs_index.rank{}.{}", dims.len(), if inb { "inside" } else { "outside" }));
        let got = impl_abs(&arr, idx);
        match got {
            Abs::Ok(k) => {
                if !inb {
                    rep.fail(Failure {
                        kind: Kind::ImplVsProperty,
                        signature: "abs_index:accepts-out-of-range".into(),
                        input: format!("VArray::new({:?}).abs_index({:?})", dims, idx),
                        implementation: format!("Ok({})", k),
                        expected: "Err(SubscriptOutOfRange)".into(),
                        note: "an index outside its declared bounds must be rejected".into(),
                    });
                } else {
                    inside += 1;
                    if k as u64 >= len {
                        rep.fail(Failure {
                            kind: Kind::ImplVsProperty,
                            signature: "abs_index:beyond-len".into(),
                            input: format!("VArray::new({:?}).abs_index({:?})", dims, idx),
                            implementation: format!("Ok({})", k),
                            expected: format!("a position < {}", len),
                            note: "flat index must address an element".into(),
                        });
                    }
                    if let Some(other) = seen.get(&k) {
                        if other != idx {
                            rep.fail(Failure {
                                kind: Kind::ImplVsProperty,
                                signature: "abs_index:not-injective".into(),
                                input: format!("VArray::new({:?}).abs_index({:?}) and ({:?})", dims, idx, other),
                                implementation: format!("both Ok({})", k),
                                expected: "different positions".into(),
                                note: "distinct index tuples must denote distinct elements".into(),
                            });
                        }
                    } else {
                        seen.insert(k, idx.clone());
                    }
                }
            }
            Abs::Err | Abs::Panic => {
                if inb {
                    rep.fail(Failure {
                        kind: Kind::ImplVsProperty,
                        signature: "abs_index:rejects-in-range".into(),
                        input: format!("VArray::new({:?}).abs_index({:?})", dims, idx),
                        implementation: abs_str(got),
                        expected: "Ok(position)".into(),
                        note: "every tuple inside the declared bounds is a valid subscript".into(),
                    });
                } else if got == Abs::Panic {
                    rep.fail(Failure {
                        kind: Kind::ImplVsProperty,
                        signature: "abs_index:panics".into(),
                        input: format!("VArray::new({:?}).abs_index({:?})", dims, idx),
                        implementation: "panic".into(),
                        expected: "Err(SubscriptOutOfRange)".into(),
                        note: "out of range must be the BASIC error, not a crash".into(),
                    });
                }
            }
        }
        // a wrong number of subscripts is Subscript out of range (725b882); the model says `none`
        let imp = abs_str(got);
        let args = format!("{} {}", dims_sx(dims), sx::ints(idx.iter()));
        pend.push(Pending {
            req: format!("(arr.absIndex {})", args),
            imp: imp.clone(),
            sig: "model:absIndex",
            note: "RbModel.Arr.absIndex vs VArray::abs_index",
        });
        pend.push(Pending {
            req: format!("(arr.absIndex32 {})", args),
            imp,
            sig: "model:absIndex32",
            note: "RbModel.Arr.absIndex32 (i32 wrap-around transcription) vs VArray::abs_index",
        });
    }
    if whole_box && (inside != len || seen.len() as u64 != len) {
        rep.fail(Failure {
            kind: Kind::ImplVsProperty,
            signature: "abs_index:not-bijective".into(),
            input: format!("all tuples of the box {:?} grown by one", dims),
            implementation: format!("{} accepted tuples, {} distinct positions", inside, seen.len()),
            expected: format!("{} of each", len),
            note: "the index box must map one-to-one onto 0..len-1".into(),
        });
    }
}

const LBS: [i32; 10] = [-3, 0, 1, -1, 10, -32768, 32764, i32::MIN + 1, i32::MAX - 6, -100000];

fn extents_up_to(rank: usize, max: i32) -> Vec<Vec<i32>> {
    let mut res: Vec<Vec<i32>> = vec![vec![]];
    for _ in 0..rank {
        let mut next = vec![];
        for t in &res {
            for e in 1..=max {
                let mut t2 = t.clone();
                t2.push(e);
                next.push(t2);
            }
        }
        res = next;
    }
    res
}

fn random_tuple(rng: &mut Rng, dims: &Dims, inside_pct: u64) -> Vec<i32> {
    let mut t: Vec<i32> = dims.iter().map(|(l, u)| rng.range(*l as i64, *u as i64) as i32).collect();
    if !rng.chance(inside_pct, 100) {
        // push one or more coordinates just outside (a face of the box) or far outside
        let n_out = 1 + rng.below(dims.len() as u64) as usize;
        for _ in 0..n_out {
            let d = rng.below(dims.len() as u64) as usize;
            let (l, u) = dims[d];
            t[d] = match rng.below(4) {
                0 => l - 1,
                1 => u + 1,
                2 => l.saturating_sub(1 + rng.below(1000) as i32),
                _ => u.saturating_add(1 + rng.below(1000) as i32),
            };
        }
    }
    t
}

fn random_dims(rng: &mut Rng, rank: usize, max_len: u64, wide: bool) -> Dims {
    loop {
        let mut dims: Dims = vec![];
        let per = (max_len as f64).powf(1.0 / rank as f64).ceil() as i64 * 2;
        for _ in 0..rank {
            let ext = rng.range(1, per.max(1)) as i32;
            let lb = if wide {
                match rng.below(5) {
                    0 => i32::MIN + 1 + rng.below(10) as i32,
                    1 => i32::MAX - 2 - ext - rng.below(10) as i32,
                    2 => rng.range(-2_000_000_000, 2_000_000_000 - ext as i64) as i32,
                    _ => rng.range(-40000, 40000) as i32,
                }
            } else {
                rng.range(-32768, 32767 - ext as i64) as i32
            };
            dims.push((lb, lb + ext - 1));
        }
        if box_len(&dims) <= max_len {
            return dims;
        }
    }
}

// ---------------------------------------------------------------------------------------------
// part 2: write/read sequences on a VArray
// ---------------------------------------------------------------------------------------------

fn run_script(rep: &mut Report, rng: &mut Rng, pend: &mut Vec<Pending>, dims: &Dims, n_ops: usize, read_all: bool) {
    let dflt = rng.range(-9, 9) as i32;
    let Some(mut arr) = new_array(dims, dflt) else { return };
    let mut reference: HashMap<Vec<i32>, i32> = HashMap::new();
    let mut ops: Vec<String> = vec![];
    let mut imp: Vec<String> = vec![];
    let mut refr: Vec<String> = vec![];
    let mut tuples_for_readback: Vec<Vec<i32>> = vec![];
    if read_all {
        tuples_for_readback = enumerate_box(dims, 0);
    }
    let total = n_ops + tuples_for_readback.len();
    for step in 0..total {
        let kind = if step >= n_ops { 7 } else { rng.below(11) };
        match kind {
            0..=5 => {
                let idx = random_tuple(rng, dims, 85);
                let v = rng.range(-30000, 30000) as i32;
                ops.push(format!("(s {} {})", sx::ints(idx.iter()), v));
                let r = catch_unwind(AssertUnwindSafe(|| match arr.get_element_mut(&idx) {
                    Ok(slot) => {
                        *slot = Variant::VInteger(v);
                        "ok".to_owned()
                    }
                    Err(_) => "e9".to_owned(),
                }));
                imp.push(r.unwrap_or("panic".into()));
                if in_box(dims, &idx) {
                    reference.insert(idx, v);
                    refr.push("ok".into());
                } else {
                    refr.push("e9".into());
                }
                rep.bump("script.set");
            }
            6..=8 => {
                let idx = if step >= n_ops { tuples_for_readback[step - n_ops].clone() } else { random_tuple(rng, dims, 85) };
                ops.push(format!("(g {})", sx::ints(idx.iter())));
                let r = catch_unwind(AssertUnwindSafe(|| match arr.get_element(&idx) {
                    Ok(Variant::VInteger(i)) => i.to_string(),
                    Ok(other) => format!("{:?}", other),
                    Err(_) => "e9".to_owned(),
                }));
                imp.push(r.unwrap_or("panic".into()));
                if in_box(dims, &idx) {
                    refr.push(reference.get(&idx).cloned().unwrap_or(dflt).to_string());
                } else {
                    refr.push("e9".into());
                }
                rep.bump("script.get");
            }
            9 => {
                let d = rng.range(1, dims.len() as i64 + 1) as usize;
                let upper = rng.chance(1, 2);
                ops.push(format!("({} {})", if upper { "ub" } else { "lb" }, d));
                imp.push(match arr.get_dimension_bounds(d - 1) {
                    Some((l, u)) => (if upper { *u } else { *l }).to_string(),
                    None => "e9".into(),
                });
                refr.push(match dims.get(d - 1) {
                    Some((l, u)) => (if upper { *u } else { *l }).to_string(),
                    None => "e9".into(),
                });
                rep.bump("script.bounds");
            }
            _ => {
                ops.push("(len)".into());
                imp.push(arr.len().to_string());
                refr.push(box_len(dims).to_string());
                rep.bump("script.len");
            }
        }
    }
    rep.case(Some(format!("s{:?}{}", dims, ops.join(""))));
    for (k, (i, r)) in imp.iter().zip(refr.iter()).enumerate() {
        if i != r {
            rep.fail(Failure {
                kind: Kind::ImplVsProperty,
                signature: "varray:write-read-sequence".into(),
                input: format!("VArray::new({:?}, {}) ops {} (op #{}: {})", dims, dflt, ops[..=k].join(" "), k, ops[k]),
                implementation: i.clone(),
                expected: r.clone(),
                note: "reference: HashMap<Vec<i32>, value> + the declared bounds".into(),
            });
            break;
        }
    }
    pend.push(Pending {
        req: format!("(arr.script {} {} ({}))", dims_sx(dims), dflt, ops.join(" ")),
        imp: sx::list(imp.iter()),
        sig: "model:script",
        note: "RbModel.Arr.{new,setElem,getElem,lbound,ubound,len} vs VArray",
    });
}

// ---------------------------------------------------------------------------------------------
// part 3: records (UserDefinedTypeValue)
// ---------------------------------------------------------------------------------------------

fn fold(s: &str) -> String {
    s.chars().map(|c| c.to_ascii_uppercase()).collect()
}

fn recase(rng: &mut Rng, s: &str) -> String {
    s.chars()
        .map(|c| if rng.chance(1, 2) { c.to_ascii_uppercase() } else { c.to_ascii_lowercase() })
        .collect()
}

fn run_record_script(rep: &mut Report, rng: &mut Rng, pend: &mut Vec<Pending>) {
    const POOL: [&str; 16] = [
        "a", "b", "ab", "Card", "ROW", "col2", "x.y", "zz", "Z{", "z[", "`a", "@A", "name", "Total", "i", "Az",
    ];
    let mut names: Vec<String> = vec![];
    let n_fields = rng.range(1, 6) as usize;
    while names.len() < n_fields {
        let w = rng.pick(&POOL[..]).to_string();
        let cand = recase(rng, &w);
        if !names.iter().any(|n| fold(n) == fold(&cand)) {
            names.push(cand);
        }
    }
    let init: Vec<i32> = names.iter().map(|_| rng.range(-99, 99) as i32).collect();
    let mut rec = UserDefinedTypeValue::new(
        names.iter().zip(init.iter()).map(|(n, v)| (CaseInsensitiveString::from(n.as_str()), Variant::VInteger(*v))).collect(),
    );
    let mut reference: HashMap<String, i32> = names.iter().zip(init.iter()).map(|(n, v)| (fold(n), *v)).collect();
    let mut ops: Vec<String> = vec![];
    let mut imp: Vec<String> = vec![];
    let mut refr: Vec<String> = vec![];
    let n_ops = rng.range(4, 30);
    for _ in 0..n_ops {
        let w = if rng.chance(8, 10) { rng.pick(&names[..]).clone() } else { rng.pick(&POOL[..]).to_string() };
        let name = recase(rng, &w);
        let key = CaseInsensitiveString::from(name.as_str());
        if rng.chance(1, 2) {
            let v = rng.range(-30000, 30000) as i32;
            ops.push(format!("(s {} {})", sx::chars(&name), v));
            let r = catch_unwind(AssertUnwindSafe(|| match rec.get_mut(&key) {
                Some(slot) => {
                    *slot = Variant::VInteger(v);
                    "ok".to_owned()
                }
                None => "absent".to_owned(),
            }));
            imp.push(r.unwrap_or("panic".into()));
            if let Some(slot) = reference.get_mut(&fold(&name)) {
                *slot = v;
                refr.push("ok".into());
            } else {
                refr.push("absent".into());
            }
            rep.bump("record.set");
        } else {
            ops.push(format!("(g {})", sx::chars(&name)));
            imp.push(match rec.get(&key) {
                Some(Variant::VInteger(i)) => i.to_string(),
                Some(other) => format!("{:?}", other),
                None => "absent".into(),
            });
            refr.push(reference.get(&fold(&name)).map(|v| v.to_string()).unwrap_or("absent".into()));
            rep.bump("record.get");
        }
    }
    // read back every field, and the field order
    for n in &names {
        ops.push(format!("(g {})", sx::chars(n)));
        imp.push(match rec.get(&CaseInsensitiveString::from(n.as_str())) {
            Some(Variant::VInteger(i)) => i.to_string(),
            _ => "absent".into(),
        });
        refr.push(reference[&fold(n)].to_string());
    }
    ops.push("(names)".into());
    imp.push(sx::list(rec.names().map(|n| sx::chars(&fold(n)))));
    refr.push(sx::list(names.iter().map(|n| sx::chars(&fold(n)))));
    rep.case(Some(format!("r{:?}{}", names, ops.join(""))));
    for (k, (i, r)) in imp.iter().zip(refr.iter()).enumerate() {
        if i != r {
            rep.fail(Failure {
                kind: Kind::ImplVsProperty,
                signature: "record:write-read-sequence".into(),
                input: format!("UserDefinedTypeValue::new({:?} = {:?}) ops {} (op #{})", names, init, ops[..=k].join(" "), k),
                implementation: i.clone(),
                expected: r.clone(),
                note: "reference: HashMap keyed by the upper-cased field name".into(),
            });
            break;
        }
    }
    let fields = sx::list(names.iter().zip(init.iter()).map(|(n, v)| format!("({} {})", sx::chars(n), v)));
    pend.push(Pending {
        req: format!("(arr.rec {} ({}))", fields, ops.join(" ")),
        imp: sx::list(imp.iter()),
        sig: "model:rec",
        note: "RbModel.Arr.{Rec.new,getField,setField,names} vs UserDefinedTypeValue",
    });
}

// ---------------------------------------------------------------------------------------------
// part 4: whole programs
// ---------------------------------------------------------------------------------------------

struct Run {
    lines: Vec<String>,
    /// "ok", "error <RuntimeError debug>", "front-end <..>", "panic"
    result: String,
    code: Option<i32>,
    vars: Vec<(String, Variant)>,
}

fn run_prog(text: &str) -> Run {
    let last: Rc<RefCell<Option<Vec<(String, Variant)>>>> = Rc::new(RefCell::new(None));
    let l2 = last.clone();
    let text2 = text.to_owned();
    let r = catch_unwind(AssertUnwindSafe(move || {
        run_in_memory(
            &text2,
            b"",
            3_000_000,
            Some(Box::new(move |s: &Snapshot| {
                if let Some(v) = &s.vars {
                    if let Some(g) = v.first() {
                        *l2.borrow_mut() = Some(g.clone());
                    }
                }
            })),
            true,
        )
    }));
    let vars = last.borrow_mut().take().unwrap_or_default();
    match r {
        Ok(Ok(r)) => {
            let out = String::from_utf8_lossy(&r.stdout).into_owned();
            let mut lines: Vec<String> = out.split("\r\n").map(|l| l.to_owned()).collect();
            if lines.last().map(|l| l.is_empty()).unwrap_or(false) {
                lines.pop();
            }
            Run {
                lines,
                result: match &r.result {
                    Ok(()) => {
                        if r.budget_exhausted {
                            "budget".into()
                        } else {
                            "ok".into()
                        }
                    }
                    Err(e) => format!("error {:?}", e.err()),
                },
                code: r.last_error_code,
                vars,
            }
        }
        Ok(Err(e)) => Run { lines: vec![], result: format!("front-end {:?}", e), code: None, vars },
        Err(_) => Run { lines: vec![], result: "panic".into(), code: None, vars },
    }
}

fn fmt_num(x: i64) -> String {
    if x < 0 { format!("{} ", x) } else { format!(" {} ", x) }
}

fn lit(x: i64) -> String {
    x.to_string()
}

#[derive(Clone, Copy, PartialEq, Eq)]
enum Ty {
    Int,
    Long,
    Str,
    Fix(usize),
}

impl Ty {
    fn decl(&self) -> String {
        match self {
            Ty::Int => "INTEGER".into(),
            Ty::Long => "LONG".into(),
            Ty::Str => "STRING".into(),
            Ty::Fix(n) => format!("STRING * {}", n),
        }
    }
    fn suffix(&self) -> &'static str {
        match self {
            Ty::Int => "%",
            Ty::Long => "&",
            Ty::Str | Ty::Fix(_) => "$",
        }
    }
    fn is_str(&self) -> bool {
        matches!(self, Ty::Str | Ty::Fix(_))
    }
}

#[derive(Clone, PartialEq, Eq, Debug)]
enum Val {
    Num(i64),
    Str(Vec<char>),
}

fn default_val(ty: Ty) -> Val {
    match ty {
        Ty::Int | Ty::Long => Val::Num(0),
        Ty::Str => Val::Str(vec![]),
        Ty::Fix(n) => Val::Str(vec![' '; n]),
    }
}

fn variant_val(v: &Variant) -> Option<Val> {
    match v {
        Variant::VInteger(i) => Some(Val::Num(*i as i64)),
        Variant::VLong(i) => Some(Val::Num(*i)),
        Variant::VString(s) => Some(Val::Str(s.chars().collect())),
        _ => None,
    }
}

const WORDS: [&str; 8] = ["", "a", "hi", "abc", "QBASIC", "hello world", "x y", "0123456789"];

/// A random value of the given type: (program text of an expression, the value after conversion to the type).
fn random_value(rng: &mut Rng, ty: Ty) -> (String, Val) {
    match ty {
        Ty::Int => {
            if rng.chance(1, 5) {
                // a fractional literal, never a tie: converted to the nearest integer
                let whole = rng.range(-3000, 3000);
                let frac = *rng.pick(&[1i64, 2, 3, 4, 6, 7, 8, 9]);
                let text = format!("{}{}.{}", if whole < 0 { "-" } else { "" }, whole.abs(), frac);
                let mag = whole.abs() + if frac > 5 { 1 } else { 0 };
                (text, Val::Num(if whole < 0 { -mag } else { mag }))
            } else {
                let v = match rng.below(6) {
                    0 => *rng.pick(&[-32768i64, 32767, 0, -1, 1]),
                    _ => rng.range(-32768, 32767),
                };
                (lit(v), Val::Num(v))
            }
        }
        Ty::Long => {
            let v = match rng.below(6) {
                0 => *rng.pick(&[-2147483648i64, 2147483647, 65536, -32769, 32768]),
                1 => rng.range(-100, 100),
                _ => rng.range(-2147483648, 2147483647),
            };
            (lit(v), Val::Num(v))
        }
        Ty::Str => {
            let w = format!("{}{}", rng.pick(&WORDS), rng.below(100));
            (format!("\"{}\"", w), Val::Str(w.chars().collect()))
        }
        Ty::Fix(n) => {
            let w = format!("{}{}", rng.pick(&WORDS), rng.below(100));
            (format!("\"{}\"", w), Val::Str(ref_fix(&w.chars().collect::<Vec<_>>(), n)))
        }
    }
}

fn print_stmt(ty: Ty, expr: &str) -> String {
    if ty.is_str() { format!("PRINT \"[\" + {} + \"]\"", expr) } else { format!("PRINT {}", expr) }
}

fn expected_line(v: &Val) -> String {
    match v {
        Val::Num(x) => fmt_num(*x).trim_end().to_owned(),
        Val::Str(s) => format!("[{}]", s.iter().collect::<String>()),
    }
}

fn idx_text(rng: &mut Rng, idx: &[i32], prelude: &mut String) -> String {
    // literal indices, or through INTEGER variables
    if rng.chance(1, 4) {
        let mut parts = vec![];
        for (k, i) in idx.iter().enumerate() {
            prelude.push_str(&format!("IX{}% = {}\n", k, i));
            parts.push(format!("IX{}%", k));
        }
        parts.join(", ")
    } else {
        idx.iter().map(|i| i.to_string()).collect::<Vec<_>>().join(", ")
    }
}

fn small_program_dims(rng: &mut Rng, rank: usize) -> Dims {
    let max_ext = [0, 8, 4, 3][rank];
    (0..rank)
        .map(|_| {
            let ext = rng.range(1, max_ext) as i32;
            let lb = match rng.below(8) {
                0 => -32768,
                1 => 32767 - ext + 1,
                2 => 0,
                3 => 1,
                4 => -ext + 1,
                _ => rng.range(-20, 20) as i32,
            };
            (lb, lb + ext - 1)
        })
        .collect()
}

struct Expect {
    text: String,
    lines: Vec<String>,
    /// expected result: "ok" or the BASIC error code
    error: Option<i32>,
    /// (variable name in the dump, path, value)
    dump: Vec<(String, Vec<Step>, Val)>,
}

#[derive(Clone, Debug, PartialEq, Eq, Hash)]
enum Step {
    Idx(Vec<i32>),
    Field(String),
}

fn resolve<'a>(v: &'a Variant, path: &[Step]) -> Option<&'a Variant> {
    let mut cur = v;
    for s in path {
        cur = match (s, cur) {
            (Step::Idx(i), Variant::VArray(a)) => a.get_element(i).ok()?,
            (Step::Field(f), Variant::VUserDefined(u)) => u.get(&CaseInsensitiveString::from(f.as_str()))?,
            _ => return None,
        };
    }
    Some(cur)
}

fn check_program(rep: &mut Report, family: &str, e: &Expect) -> Option<Run> {
    let run = run_prog(&e.text);
    let want_result = match e.error {
        None => "ok".to_owned(),
        Some(9) => "error SubscriptOutOfRange".to_owned(),
        Some(7) => "error OutOfMemory".to_owned(),
        Some(c) => format!("error code {}", c),
    };
    let got_lines: Vec<String> = run.lines.iter().map(|l| l.trim_end().to_owned()).collect();
    let mut problem: Option<(String, String, String)> = None;
    if run.result != want_result {
        problem = Some(("result".into(), run.result.clone(), want_result));
    } else if e.error.is_some() && run.code != e.error {
        problem = Some(("err-code".into(), format!("{:?}", run.code), format!("{:?}", e.error)));
    } else if got_lines != e.lines {
        let k = got_lines.iter().zip(e.lines.iter()).position(|(a, b)| a != b).unwrap_or(got_lines.len().min(e.lines.len()));
        problem = Some((
            "output".into(),
            format!("line {}: {:?} ({} lines)", k, got_lines.get(k), got_lines.len()),
            format!("line {}: {:?} ({} lines)", k, e.lines.get(k), e.lines.len()),
        ));
    } else {
        for (name, path, val) in &e.dump {
            let got = run.vars.iter().find(|(n, _)| n == name).and_then(|(_, v)| resolve(v, path)).and_then(variant_val);
            if got.as_ref() != Some(val) {
                problem = Some(("final-value".into(), format!("{}{:?} = {:?}", name, path, got), format!("{:?}", val)));
                break;
            }
        }
    }
    if let Some((what, got, want)) = problem {
        rep.fail(Failure {
            kind: Kind::ImplVsProperty,
            signature: format!("program:{}:{}", family, what),
            input: e.text.clone(),
            implementation: got,
            expected: want,
            note: "generated program vs the reference computed in the harness".into(),
        });
        return None;
    }
    Some(run)
}

/// Family A: DIM (1-3 dims, arbitrary bounds) / writes / bounds / read back all / optional out-of-range tail.
fn gen_array_program(rng: &mut Rng, rep: &mut Report) -> Expect {
    let rank = rng.range(1, 3) as usize;
    let dims = small_program_dims(rng, rank);
    let ty = *rng.pick(&[Ty::Int, Ty::Int, Ty::Long, Ty::Str, Ty::Fix(3)]);
    let mut text = String::new();
    let mut lines: Vec<String> = vec![];
    let name = "ARR";
    let spec = dims.iter().map(|(l, u)| format!("{} TO {}", l, u)).collect::<Vec<_>>().join(", ");
    text.push_str(&format!("DIM {}({}) AS {}\n", name, spec, ty.decl()));
    let mut reference: HashMap<Vec<i32>, Val> = HashMap::new();
    let len = box_len(&dims);
    let n_writes = rng.range(0, 2 * len as i64 + 2);
    for _ in 0..n_writes {
        let idx = random_tuple(rng, &dims, 100);
        let (expr, v) = random_value(rng, ty);
        let mut prelude = String::new();
        let it = idx_text(rng, &idx, &mut prelude);
        text.push_str(&prelude);
        if !ty.is_str() && rng.chance(1, 6) {
            // through a variable of another numeric type (the store converts)
            if let Val::Num(x) = v {
                text.push_str(&format!("TMP& = {}\n{}({}) = TMP&\n", x, name, it));
            }
        } else {
            text.push_str(&format!("{}({}) = {}\n", name, it, expr));
        }
        reference.insert(idx, v);
    }
    // bounds
    text.push_str(&format!("PRINT LBOUND({}); UBOUND({})\n", name, name));
    lines.push(format!("{}{}", fmt_num(dims[0].0 as i64), fmt_num(dims[0].1 as i64)).trim_end().to_owned());
    for d in 1..=rank {
        text.push_str(&format!("PRINT LBOUND({}, {}); UBOUND({}, {})\n", name, d, name, d));
        lines.push(format!("{}{}", fmt_num(dims[d - 1].0 as i64), fmt_num(dims[d - 1].1 as i64)).trim_end().to_owned());
    }
    // read back every element
    let all = enumerate_box(&dims, 0);
    let loopable = dims.iter().all(|(_, u)| *u < 32767);
    if loopable && rng.chance(1, 2) {
        for (k, (l, u)) in dims.iter().enumerate() {
            text.push_str(&format!("FOR L{}% = {} TO {}\n", k, l, u));
        }
        let it = (0..rank).map(|k| format!("L{}%", k)).collect::<Vec<_>>().join(", ");
        text.push_str(&print_stmt(ty, &format!("{}({})", name, it)));
        text.push('\n');
        for _ in 0..rank {
            text.push_str("NEXT\n");
        }
        rep.bump("program.array.readback-loop");
    } else {
        for idx in &all {
            let it = idx.iter().map(|i| i.to_string()).collect::<Vec<_>>().join(", ");
            text.push_str(&print_stmt(ty, &format!("{}({})", name, it)));
            text.push('\n');
        }
        rep.bump("program.array.readback-unrolled");
    }
    let mut dump = vec![];
    for idx in &all {
        let v = reference.get(idx).cloned().unwrap_or(default_val(ty));
        lines.push(expected_line(&v));
        dump.push((format!("{}{}", name, ty.suffix()), vec![Step::Idx(idx.clone())], v));
    }
    // tail
    let mut error = None;
    match rng.below(10) {
        0..=4 => {
            // an access outside the box (only coordinates that fit an INTEGER)
            let mut idx = random_tuple(rng, &dims, 0);
            for (k, i) in idx.iter_mut().enumerate() {
                if *i < -32768 || *i > 32767 {
                    *i = if dims[k].0 > -32768 { dims[k].0 - 1 } else { dims[k].1 + 1 };
                }
            }
            if !in_box(&dims, &idx) && idx.iter().all(|i| (-32768..=32767).contains(i)) {
                let mut prelude = String::new();
                let it = idx_text(rng, &idx, &mut prelude);
                text.push_str(&prelude);
                if rng.chance(1, 2) {
                    let (expr, _) = random_value(rng, ty);
                    text.push_str(&format!("{}({}) = {}\n", name, it, expr));
                    rep.bump("program.array.tail-write-outside");
                } else {
                    text.push_str(&format!("Z{} = {}({})\n", ty.suffix(), name, it));
                    rep.bump("program.array.tail-read-outside");
                }
                text.push_str("PRINT \"not reached\"\n");
                error = Some(9);
            }
        }
        5 => {
            let d = if rng.chance(1, 2) { 0 } else { rank + 1 };
            text.push_str(&format!("Z% = {}({}, {})\nPRINT \"not reached\"\n", if rng.chance(1, 2) { "LBOUND" } else { "UBOUND" }, name, d));
            rep.bump("program.array.tail-bound-of-missing-dimension");
            error = Some(9);
        }
        _ => {
            // a last in-range access on a face of the box must not fail
            let mut idx = random_tuple(rng, &dims, 100);
            let d = rng.below(rank as u64) as usize;
            idx[d] = if rng.chance(1, 2) { dims[d].0 } else { dims[d].1 };
            let it = idx.iter().map(|i| i.to_string()).collect::<Vec<_>>().join(", ");
            text.push_str(&format!("Z{} = {}({})\nPRINT \"end\"\n", ty.suffix(), name, it));
            lines.push("end".into());
            rep.bump("program.array.tail-inside");
        }
    }
    rep.bump(&format!("program.array.rank{}", rank));
    Expect { text, lines, error, dump }
}

/// Family B: TYPE records (several fields, one nested record), a record variable and an array of records.
fn gen_record_program(rng: &mut Rng, rep: &mut Report) -> Expect {
    const NAMES: [&str; 8] = ["A", "B", "Cnt", "Nam", "Z9", "Total", "Flag", "Q"];
    let n_fields = rng.range(2, 6) as usize;
    let mut fields: Vec<(String, Ty)> = vec![];
    let mut pool: Vec<&str> = NAMES.to_vec();
    for _ in 0..n_fields {
        let k = rng.below(pool.len() as u64) as usize;
        let n = pool.remove(k);
        let ty = match rng.below(4) {
            0 => Ty::Int,
            1 => Ty::Long,
            _ => Ty::Fix(rng.range(1, 6) as usize),
        };
        fields.push((n.to_owned(), ty));
    }
    let nested = rng.chance(1, 2);
    let mut text = String::new();
    if nested {
        text.push_str("TYPE Inner\n  X AS INTEGER\n  Y AS STRING * 2\nEND TYPE\n");
    }
    text.push_str("TYPE T\n");
    for (n, ty) in &fields {
        text.push_str(&format!("  {} AS {}\n", n, ty.decl()));
    }
    if nested {
        text.push_str("  P AS Inner\n");
    }
    text.push_str("END TYPE\n");
    let ra_rank = rng.range(1, 2) as usize;
    let dims = small_program_dims(rng, ra_rank);
    let spec = dims.iter().map(|(l, u)| format!("{} TO {}", l, u)).collect::<Vec<_>>().join(", ");
    text.push_str(&format!("DIM R AS T\nDIM RA({}) AS T\n", spec));
    // all leaf locations: (program text, dump name, path, type)
    let mut leaves: Vec<(String, String, Vec<Step>, Ty)> = vec![];
    let mut roots: Vec<(String, String, Vec<Step>)> = vec![("R".into(), "R".into(), vec![])];
    for idx in enumerate_box(&dims, 0) {
        let it = idx.iter().map(|i| i.to_string()).collect::<Vec<_>>().join(", ");
        roots.push((format!("RA({})", it), "RA".into(), vec![Step::Idx(idx)]));
    }
    for (rt, rn, rp) in &roots {
        for (n, ty) in &fields {
            let mut p = rp.clone();
            p.push(Step::Field(n.clone()));
            leaves.push((format!("{}.{}", rt, n), rn.clone(), p, *ty));
        }
        if nested {
            for (n, ty) in [("X", Ty::Int), ("Y", Ty::Fix(2))] {
                let mut p = rp.clone();
                p.push(Step::Field("P".into()));
                p.push(Step::Field(n.into()));
                leaves.push((format!("{}.P.{}", rt, n), rn.clone(), p, ty));
            }
        }
    }
    let mut reference: Vec<Val> = leaves.iter().map(|l| default_val(l.3)).collect();
    let n_writes = rng.range(0, 2 * leaves.len() as i64);
    for _ in 0..n_writes {
        let k = rng.below(leaves.len() as u64) as usize;
        let (expr, v) = random_value(rng, leaves[k].3);
        // field names are case-insensitive
        let target = if rng.chance(1, 3) { leaves[k].0.to_lowercase().replace("ra(", "RA(") } else { leaves[k].0.clone() };
        text.push_str(&format!("{} = {}\n", target, expr));
        reference[k] = v;
    }
    let mut lines = vec![];
    let mut dump = vec![];
    for (k, (t, dn, p, ty)) in leaves.iter().enumerate() {
        text.push_str(&print_stmt(*ty, t));
        text.push('\n');
        lines.push(expected_line(&reference[k]));
        dump.push((dn.clone(), p.clone(), reference[k].clone()));
    }
    let mut error = None;
    if rng.chance(1, 3) {
        let idx = random_tuple(rng, &dims, 0);
        if !in_box(&dims, &idx) && idx.iter().all(|i| (-32768..=32767).contains(i)) {
            let it = idx.iter().map(|i| i.to_string()).collect::<Vec<_>>().join(", ");
            let (n, ty) = &fields[0];
            let (expr, _) = random_value(rng, *ty);
            text.push_str(&format!("RA({}).{} = {}\nPRINT \"not reached\"\n", it, n, expr));
            error = Some(9);
            rep.bump("program.record.tail-outside");
        }
    }
    rep.bump(if nested { "program.record.nested" } else { "program.record.flat" });
    Expect { text, lines, error, dump }
}

/// A string expression denoting exactly the given characters (code points 0..=255).
fn string_expr(s: &[char]) -> String {
    if s.is_empty() {
        return "\"\"".into();
    }
    let mut parts: Vec<String> = vec![];
    let mut cur = String::new();
    for c in s {
        let plain = (' '..='~').contains(c) && *c != '"';
        if plain {
            cur.push(*c);
        } else {
            if !cur.is_empty() {
                parts.push(format!("\"{}\"", cur));
                cur.clear();
            }
            parts.push(format!("CHR$({})", *c as u32));
        }
    }
    if !cur.is_empty() {
        parts.push(format!("\"{}\"", cur));
    }
    parts.join(" + ")
}

fn random_chars(rng: &mut Rng, max_len: usize, with_nul: bool) -> Vec<char> {
    let n = rng.range(0, max_len as i64) as usize;
    let style = rng.below(4);
    (0..n)
        .map(|_| {
            let c = match style {
                0 => rng.range(32, 126) as u32,
                1 => rng.range(128, 255) as u32,
                _ => match rng.below(10) {
                    0..=4 => rng.range(32, 126) as u32,
                    5..=7 => rng.range(128, 255) as u32,
                    8 => rng.range(1, 31) as u32,
                    _ => {
                        if with_nul {
                            0
                        } else {
                            127
                        }
                    }
                },
            };
            char::from_u32(c).unwrap()
        })
        .collect()
}

struct FixTarget {
    text: String,
    dump_name: String,
    path: Vec<Step>,
    n: usize,
    /// the value before padding/truncation that the location must reflect at the end
    last_source: Vec<char>,
}

struct FixProgram {
    text: String,
    targets: Vec<FixTarget>,
}

/// Family C: STRING * n variable / array element / record field, assigned directly and through a by-reference
/// SUB parameter, with arbitrary characters.
fn gen_fix_program(rng: &mut Rng, rep: &mut Report) -> FixProgram {
    let n1 = rng.range(1, 8) as usize;
    let n2 = rng.range(1, 5) as usize;
    let n3 = rng.range(1, 6) as usize;
    let lb = rng.range(-3, 3) as i32;
    let ub = lb + rng.range(0, 2) as i32;
    let mut text = format!(
        "TYPE T\n  K AS INTEGER\n  F AS STRING * {}\nEND TYPE\nDIM S AS STRING * {}\nDIM SA({} TO {}) AS STRING * {}\nDIM R AS T\nDIM RA(1 TO 2) AS T\n",
        n3, n1, lb, ub, n2
    );
    let mut targets: Vec<FixTarget> = vec![FixTarget {
        text: "S".into(),
        dump_name: "S$".into(),
        path: vec![],
        n: n1,
        last_source: vec![' '; n1],
    }];
    for i in lb..=ub {
        targets.push(FixTarget {
            text: format!("SA({})", i),
            dump_name: "SA$".into(),
            path: vec![Step::Idx(vec![i])],
            n: n2,
            last_source: vec![' '; n2],
        });
    }
    targets.push(FixTarget {
        text: "R.F".into(),
        dump_name: "R".into(),
        path: vec![Step::Field("F".into())],
        n: n3,
        last_source: vec![' '; n3],
    });
    for i in 1..=2 {
        targets.push(FixTarget {
            text: format!("RA({}).F", i),
            dump_name: "RA".into(),
            path: vec![Step::Idx(vec![i]), Step::Field("F".into())],
            n: n3,
            last_source: vec![' '; n3],
        });
    }
    let with_nul = rng.chance(1, 4);
    let n_stmts = rng.range(1, 10);
    for _ in 0..n_stmts {
        let k = rng.below(targets.len() as u64) as usize;
        let n = targets[k].n;
        match rng.below(10) {
            0..=3 => {
                let v = random_chars(rng, 2 * n + 1, with_nul);
                text.push_str(&format!("{} = {}\n", targets[k].text, string_expr(&v)));
                targets[k].last_source = v;
                rep.bump("program.fixlen.assign-direct");
            }
            4..=6 => {
                let v = random_chars(rng, 2 * n + 1, with_nul);
                text.push_str(&format!("SetIt {}, {}\n", targets[k].text, string_expr(&v)));
                targets[k].last_source = v;
                rep.bump("program.fixlen.assign-by-ref");
            }
            7 => {
                // the SUB sees the n-character value and appends to it
                let cur = ref_fix(&targets[k].last_source, n);
                let mut v = cur.clone();
                v.extend("+++".chars());
                text.push_str(&format!("AppendIt {}\n", targets[k].text));
                targets[k].last_source = v;
                rep.bump("program.fixlen.append-by-ref");
            }
            8 => {
                // the SUB prepends: the old content is shifted right and cut
                let cur = ref_fix(&targets[k].last_source, n);
                let mut v: Vec<char> = vec!['>'];
                v.extend(cur);
                text.push_str(&format!("PrependIt {}\n", targets[k].text));
                targets[k].last_source = v;
                rep.bump("program.fixlen.prepend-by-ref");
            }
            _ => {
                // copy from another fixed-length location (its n' characters, then fitted to n)
                let j = rng.below(targets.len() as u64) as usize;
                let v = ref_fix(&targets[j].last_source, targets[j].n);
                text.push_str(&format!("{} = {}\n", targets[k].text, targets[j].text));
                targets[k].last_source = v;
                rep.bump("program.fixlen.copy");
            }
        }
    }
    for t in &targets {
        text.push_str(&format!("PRINT LEN({})\n", t.text));
    }
    text.push_str("SUB SetIt(X$, V$)\n  X$ = V$\nEND SUB\nSUB AppendIt(X$)\n  X$ = X$ + \"+++\"\nEND SUB\nSUB PrependIt(X$)\n  X$ = \">\" + X$\nEND SUB\n");
    if with_nul {
        rep.bump("program.fixlen.with-nul");
    }
    FixProgram { text, targets }
}

fn check_fix_program(rep: &mut Report, pend: &mut Vec<Pending>, p: &FixProgram) {
    let run = run_prog(&p.text);
    let fail = |rep: &mut Report, sig: &str, got: String, want: String, note: &str| {
        rep.fail(Failure {
            kind: Kind::ImplVsProperty,
            signature: sig.into(),
            input: p.text.clone(),
            implementation: got,
            expected: want,
            note: note.into(),
        });
    };
    if run.result != "ok" {
        fail(rep, "program:fixlen:result", run.result.clone(), "ok".into(), "the program must run to the end");
        return;
    }
    let want_lines: Vec<String> = p.targets.iter().map(|t| fmt_num(t.n as i64).trim_end().to_owned()).collect();
    let got_lines: Vec<String> = run.lines.iter().map(|l| l.trim_end().to_owned()).collect();
    for (k, t) in p.targets.iter().enumerate() {
        let ascii = t.last_source.iter().all(|c| (*c as u32) < 128);
        let class = if ascii { "ascii" } else { "non-ascii" };
        let got_len = got_lines.get(k).cloned().unwrap_or("<missing>".into());
        if got_len != want_lines[k] {
            fail(
                rep,
                &format!("program:fixlen:LEN:{}", class),
                format!("LEN({}) printed {}", t.text, got_len),
                format!("{}", t.n),
                "a STRING * n location always holds exactly n characters",
            );
            continue;
        }
        let got = run.vars.iter().find(|(n, _)| *n == t.dump_name).and_then(|(_, v)| resolve(v, &t.path)).and_then(variant_val);
        let Some(Val::Str(got)) = got else {
            fail(rep, "program:fixlen:dump", format!("{:?}", got), "a string".into(), "final variable dump");
            continue;
        };
        if got.len() != t.n {
            fail(
                rep,
                &format!("program:fixlen:length:{}", class),
                format!("{} holds {} characters: {:?}", t.text, got.len(), got),
                format!("{} characters", t.n),
                "a STRING * n location always holds exactly n characters",
            );
            continue;
        }
        let has_nul = t.last_source.contains(&'\0');
        let want = ref_fix(&t.last_source, t.n);
        if !has_nul && got != want {
            fail(
                rep,
                &format!("program:fixlen:content:{}", class),
                format!("{} = {:?}", t.text, got),
                format!("{:?}", want),
                "the stored value is the assigned value truncated or padded with spaces",
            );
            continue;
        }
        // model vs implementation: exact content, including the NUL cut
        pend.push(Pending {
            req: format!("(arr.fixLength {} {})", sx::ints(t.last_source.iter().map(|c| *c as u32)), t.n),
            imp: sx::ints(got.iter().map(|c| *c as u32)),
            sig: "model:fixLength",
            note: "RbModel.Arr.fixLength vs the final content of the STRING * n location",
        });
    }
}


// ---------------------------------------------------------------------------------------------
// family D: stores through nested paths with conversion, tied to RbModel.ArrPath (`arr.path`)
// ---------------------------------------------------------------------------------------------

/// `x = num / den` exactly (`den` a power of two); the values used here are multiples of 1/8 below 2^31.
fn rat_of_f64(x: f64) -> (i128, u128) {
    let mut den: u128 = 1;
    let mut y = x;
    while y.fract() != 0.0 && den < (1 << 60) {
        y *= 2.0;
        den *= 2;
    }
    (y as i128, den)
}

fn show_variant(v: &Variant) -> String {
    match v {
        Variant::VInteger(i) => format!("(int {})", i),
        Variant::VLong(i) => format!("(long {})", i),
        Variant::VSingle(f) => {
            let (n, d) = rat_of_f64(*f as f64);
            format!("(sgl {} {})", n, d)
        }
        Variant::VDouble(f) => {
            let (n, d) = rat_of_f64(*f);
            format!("(dbl {} {})", n, d)
        }
        Variant::VString(s) => format!("(str {})", sx::chars(s)),
        _ => "container".into(),
    }
}

#[derive(Clone, Copy, PartialEq, Eq, Debug)]
enum LTy {
    Int,
    Long,
    Sgl,
    Dbl,
    Str,
    Fix(usize),
}

impl LTy {
    fn decl(&self) -> String {
        match self {
            LTy::Int => "INTEGER".into(),
            LTy::Long => "LONG".into(),
            LTy::Sgl => "SINGLE".into(),
            LTy::Dbl => "DOUBLE".into(),
            LTy::Str => "STRING".into(),
            LTy::Fix(n) => format!("STRING * {}", n),
        }
    }
    fn suffix(&self) -> &'static str {
        match self {
            LTy::Int => "%",
            LTy::Long => "&",
            LTy::Sgl => "!",
            LTy::Dbl => "#",
            LTy::Str | LTy::Fix(_) => "$",
        }
    }
    fn ety(&self) -> String {
        match self {
            LTy::Int => "(num int)".into(),
            LTy::Long => "(num long)".into(),
            LTy::Sgl => "(num sgl)".into(),
            LTy::Dbl => "(num dbl)".into(),
            LTy::Str => "(num str)".into(),
            LTy::Fix(n) => format!("(fix {})", n),
        }
    }
    fn is_str(&self) -> bool {
        matches!(self, LTy::Str | LTy::Fix(_))
    }
    fn default(&self) -> Variant {
        match self {
            LTy::Int => Variant::VInteger(0),
            LTy::Long => Variant::VLong(0),
            LTy::Sgl => Variant::VSingle(0.0),
            LTy::Dbl => Variant::VDouble(0.0),
            LTy::Str => Variant::VString(String::new()),
            LTy::Fix(n) => Variant::VString(" ".repeat(*n)),
        }
    }
}

fn name_sx(n: &str) -> String {
    sx::chars(n)
}

struct Leaf {
    text: String,
    model_path: String,
    dump_name: String,
    steps: Vec<Step>,
    ty: LTy,
    /// reference content
    value: Variant,
}

/// numeric value `k / 8` converted to a numeric type; `None` = Overflow
fn convert_num(x: f64, ty: LTy) -> Option<Variant> {
    let rounded = if x >= 0.0 { (x + 0.5).floor() } else { -((-x + 0.5).floor()) };
    match ty {
        LTy::Int => {
            if (-32768.0..=32767.0).contains(&rounded) {
                Some(Variant::VInteger(rounded as i32))
            } else {
                None
            }
        }
        LTy::Long => {
            if (-2147483648.0..=2147483647.0).contains(&rounded) {
                Some(Variant::VLong(rounded as i64))
            } else {
                None
            }
        }
        LTy::Sgl => Some(Variant::VSingle(x as f32)),
        LTy::Dbl => Some(Variant::VDouble(x)),
        _ => None,
    }
}

struct PathProgram {
    text: String,
    vars_sx: String,
    ops: Vec<String>,
    /// what the model must answer for each op if the program behaves as the reference says
    op_results: Vec<String>,
    error: Option<i32>,
    leaves: Vec<Leaf>,
}

fn gen_path_program(rng: &mut Rng, rep: &mut Report) -> PathProgram {
    let leaf_types = [LTy::Int, LTy::Long, LTy::Sgl, LTy::Dbl, LTy::Fix(1), LTy::Fix(2), LTy::Fix(4)];
    let pick_ty = |rng: &mut Rng| *rng.pick(&leaf_types[..]);
    let inner: Vec<(String, LTy)> = (0..rng.range(1, 3)).map(|k| (format!("{}", ["X", "Y", "Zed"][k as usize]), pick_ty(rng))).collect();
    let mut outer: Vec<(String, Option<LTy>)> = (0..rng.range(1, 3)).map(|k| (format!("{}", ["K", "Fld", "S2"][k as usize]), Some(pick_ty(rng)))).collect();
    let pos = rng.below(outer.len() as u64 + 1) as usize;
    outer.insert(pos, ("P".into(), None));
    let mut text = String::from("TYPE Inner\n");
    for (n, t) in &inner {
        text.push_str(&format!("  {} AS {}\n", n, t.decl()));
    }
    text.push_str("END TYPE\nTYPE T\n");
    for (n, t) in &outer {
        match t {
            Some(t) => text.push_str(&format!("  {} AS {}\n", n, t.decl())),
            None => text.push_str(&format!("  {} AS Inner\n", n)),
        }
    }
    text.push_str("END TYPE\n");
    let ra_rank = rng.range(1, 2) as usize;
    let ra_dims = small_program_dims(rng, ra_rank);
    let a_dims = small_program_dims(rng, 1);
    let a_ty = *rng.pick(&[LTy::Int, LTy::Long, LTy::Sgl, LTy::Dbl, LTy::Str, LTy::Fix(3)]);
    let s_ty = *rng.pick(&[LTy::Fix(5), LTy::Str, LTy::Fix(2)]);
    let spec = |d: &Dims| d.iter().map(|(l, u)| format!("{} TO {}", l, u)).collect::<Vec<_>>().join(", ");
    text.push_str(&format!(
        "DIM R AS T\nDIM RA({}) AS T\nDIM A({}) AS {}\nDIM S AS {}\nDIM FX AS STRING * 3\n",
        spec(&ra_dims),
        spec(&a_dims),
        a_ty.decl(),
        s_ty.decl()
    ));
    // model description of the variables
    let leaf_sx = |t: &LTy| format!("(leaf {})", show_variant(&t.default()));
    let inner_sx = format!("(udt {})", sx::list(inner.iter().map(|(n, t)| format!("({} {})", name_sx(n), leaf_sx(t)))));
    let t_sx = format!(
        "(udt {})",
        sx::list(outer.iter().map(|(n, t)| match t {
            Some(t) => format!("({} {})", name_sx(n), leaf_sx(t)),
            None => format!("({} {})", name_sx(n), inner_sx),
        }))
    );
    let a_name = format!("A{}", a_ty.suffix());
    let s_name = "S$".to_owned();
    let vars_sx = sx::list([
        format!("({} {})", name_sx("R"), t_sx),
        format!("({} (new {} {}))", name_sx("RA"), dims_sx(&ra_dims), t_sx),
        format!("({} (new {} {}))", name_sx(&a_name), dims_sx(&a_dims), leaf_sx(&a_ty)),
        format!("({} {})", name_sx(&s_name), leaf_sx(&s_ty)),
        format!("({} {})", name_sx("FX$"), leaf_sx(&LTy::Fix(3))),
    ]);
    // leaves
    let mut leaves: Vec<Leaf> = vec![];
    let root = |n: &str| format!("(root {})", name_sx(n));
    let mut record_roots: Vec<(String, String, String, Vec<Step>)> = vec![("R".into(), root("R"), "R".into(), vec![])];
    for idx in enumerate_box(&ra_dims, 0) {
        let it = idx.iter().map(|i| i.to_string()).collect::<Vec<_>>().join(", ");
        record_roots.push((format!("RA({})", it), format!("(elem {} {})", root("RA"), sx::ints(idx.iter())), "RA".into(), vec![Step::Idx(idx)]));
    }
    for (rt, rm, rn, rs) in &record_roots {
        for (n, t) in &outer {
            match t {
                Some(t) => {
                    let mut st = rs.clone();
                    st.push(Step::Field(n.clone()));
                    leaves.push(Leaf { text: format!("{}.{}", rt, n), model_path: format!("(prop {} {})", rm, name_sx(n)), dump_name: rn.clone(), steps: st, ty: *t, value: t.default() });
                }
                None => {
                    for (m, t) in &inner {
                        let mut st = rs.clone();
                        st.push(Step::Field(n.clone()));
                        st.push(Step::Field(m.clone()));
                        leaves.push(Leaf {
                            text: format!("{}.{}.{}", rt, n, m),
                            model_path: format!("(prop (prop {} {}) {})", rm, name_sx(n), name_sx(m)),
                            dump_name: rn.clone(),
                            steps: st,
                            ty: *t,
                            value: t.default(),
                        });
                    }
                }
            }
        }
    }
    for idx in enumerate_box(&a_dims, 0) {
        leaves.push(Leaf {
            text: format!("A({})", idx[0]),
            model_path: format!("(elem {} {})", root(&a_name), sx::ints(idx.iter())),
            dump_name: a_name.clone(),
            steps: vec![Step::Idx(idx)],
            ty: a_ty,
            value: a_ty.default(),
        });
    }
    leaves.push(Leaf { text: "S".into(), model_path: root(&s_name), dump_name: s_name.clone(), steps: vec![], ty: s_ty, value: s_ty.default() });
    let fx = leaves.len();
    leaves.push(Leaf { text: "FX".into(), model_path: root("FX$"), dump_name: "FX$".into(), steps: vec![], ty: LTy::Fix(3), value: LTy::Fix(3).default() });

    let mut ops: Vec<String> = vec![];
    let mut op_results: Vec<String> = vec![];
    let mut error = None;
    let n_ops = rng.range(1, 14);
    let fit_str = |ty: LTy, s: &[char]| -> Variant {
        match ty {
            LTy::Fix(n) => Variant::VString(ref_fix(s, n).into_iter().collect()),
            _ => Variant::VString(s.iter().collect()),
        }
    };
    for step in 0..n_ops {
        let last = step == n_ops - 1;
        let k = rng.below(leaves.len() as u64) as usize;
        let ty = leaves[k].ty;
        // spell field names in another case now and then (R.p.x)
        let target_text = if rng.chance(1, 4) {
            let t = leaves[k].text.clone();
            match t.find('.') {
                Some(i) => format!("{}{}", &t[..i], t[i..].to_lowercase()),
                None => t,
            }
        } else {
            leaves[k].text.clone()
        };
        if ty.is_str() {
            let n = if let LTy::Fix(n) = ty { n } else { 4 };
            match rng.below(4) {
                0 | 1 => {
                    let v = random_chars(rng, 2 * n + 1, false);
                    let by_ref = rng.chance(1, 2);
                    if by_ref {
                        text.push_str(&format!("SetS {}, {}\n", target_text, string_expr(&v)));
                        ops.push(format!("(w {} {} (str {}))", leaves[k].model_path, ty.ety(), sx::ints(v.iter().map(|c| *c as u32))));
                        rep.bump("program.path.string-by-ref");
                    } else {
                        text.push_str(&format!("{} = {}\n", target_text, string_expr(&v)));
                        ops.push(format!("(a {} (num str) {} (str {}))", leaves[k].model_path, ty.ety(), sx::ints(v.iter().map(|c| *c as u32))));
                        rep.bump("program.path.string-assign");
                    }
                    leaves[k].value = fit_str(ty, &v);
                }
                2 => {
                    // from the STRING * 3 variable FX: static type STRING * 3
                    let cur: Vec<char> = match &leaves[fx].value {
                        Variant::VString(s) => s.chars().collect(),
                        _ => vec![],
                    };
                    text.push_str(&format!("{} = FX\n", target_text));
                    ops.push(format!("(a {} (fix 3) {} (str {}))", leaves[k].model_path, ty.ety(), sx::ints(cur.iter().map(|c| *c as u32))));
                    leaves[k].value = fit_str(ty, &cur);
                    rep.bump("program.path.string-from-fixed");
                }
                _ => {
                    let v = random_chars(rng, 5, false);
                    text.push_str(&format!("FX = {}\n", string_expr(&v)));
                    ops.push(format!("(a {} (num str) (fix 3) (str {}))", leaves[fx].model_path, sx::ints(v.iter().map(|c| *c as u32))));
                    leaves[fx].value = fit_str(LTy::Fix(3), &v);
                    rep.bump("program.path.string-assign");
                }
            }
            op_results.push("ok".into());
        } else {
            // numeric: a value k/8 held in a variable of an explicit type
            let sty = *rng.pick(&[LTy::Int, LTy::Long, LTy::Sgl, LTy::Dbl]);
            let want_overflow = last && rng.chance(1, 3) && matches!(ty, LTy::Int | LTy::Long);
            let x: f64 = match sty {
                LTy::Int => rng.range(-32768, 32767) as f64,
                LTy::Long => {
                    if ty == LTy::Sgl || !rng.chance(1, 3) {
                        rng.range(-(1 << 20), 1 << 20) as f64
                    } else {
                        rng.range(-2147483648, 2147483647) as f64
                    }
                }
                LTy::Sgl => rng.range(-(1 << 22), 1 << 22) as f64 / 8.0,
                _ => {
                    if ty == LTy::Sgl || !rng.chance(1, 4) {
                        rng.range(-(1 << 22), 1 << 22) as f64 / 8.0
                    } else {
                        rng.range(-(1i64 << 35), 1i64 << 35) as f64 / 8.0
                    }
                }
            };
            let held = convert_num(x, sty).unwrap();
            let converted = convert_num(x, ty);
            if converted.is_none() && !(want_overflow || last) {
                // keep overflow for the end of the program
                continue;
            }
            let var = format!("V{}", sty.suffix());
            // a decimal literal without `#` is read as a SINGLE whatever its number of digits: spell DOUBLEs with `#`
            let lit_text = if sty == LTy::Dbl { format!("{:.3}#", x) } else { format!("{}", x) };
            let by_ref = converted.is_some() && sty == ty && matches!(ty, LTy::Int | LTy::Long) && rng.chance(1, 2);
            if by_ref {
                text.push_str(&format!("{} = {}\nSet{} {}, {}\n", var, lit_text, if ty == LTy::Int { "I" } else { "L" }, target_text, var));
                ops.push(format!("(w {} {} {})", leaves[k].model_path, ty.ety(), show_variant(&held)));
                rep.bump("program.path.numeric-by-ref");
            } else {
                text.push_str(&format!("{} = {}\n{} = {}\n", var, lit_text, target_text, var));
                ops.push(format!("(a {} {} {} {})", leaves[k].model_path, sty.ety(), ty.ety(), show_variant(&held)));
                rep.bump(&format!("program.path.numeric-assign.{:?}-to-{:?}", sty, ty));
            }
            match converted {
                Some(c) => {
                    leaves[k].value = c;
                    op_results.push("ok".into());
                }
                None => {
                    op_results.push("(err overflow)".into());
                    error = Some(6);
                    rep.bump("program.path.tail-overflow");
                    break;
                }
            }
        }
    }
    if error.is_none() && rng.chance(1, 4) {
        // a store through a subscript outside the box, into a field of a field
        let idx = random_tuple(rng, &ra_dims, 0);
        if !in_box(&ra_dims, &idx) && idx.iter().all(|i| (-32768..=32767).contains(i)) {
            if let Some(l) = leaves.iter().find(|l| l.dump_name == "RA" && !l.ty.is_str()) {
                let it = idx.iter().map(|i| i.to_string()).collect::<Vec<_>>().join(", ");
                let close = l.text.find(')').unwrap();
                let target_text = format!("RA({}){}", it, &l.text[close + 1..]);
                let inner_path = l.model_path.replacen(
                    &format!("(elem {} {})", root("RA"), match &l.steps[0] { Step::Idx(i) => sx::ints(i.iter()), _ => String::new() }),
                    &format!("(elem {} {})", root("RA"), sx::ints(idx.iter())),
                    1,
                );
                text.push_str(&format!("V% = 1\n{} = V%\n", target_text));
                ops.push(format!("(a {} (num int) {} (int 1))", inner_path, l.ty.ety()));
                op_results.push("e9".into());
                error = Some(9);
                rep.bump("program.path.tail-subscript");
            }
        }
    }
    text.push_str("PRINT \"done\"\n");
    text.push_str("SUB SetS(X$, V$)\n  X$ = V$\nEND SUB\nSUB SetI(X%, V%)\n  X% = V%\nEND SUB\nSUB SetL(X&, V&)\n  X& = V&\nEND SUB\n");
    PathProgram { text, vars_sx, ops, op_results, error, leaves }
}

fn check_path_program(rep: &mut Report, pend: &mut Vec<Pending>, p: &PathProgram) {
    let run = run_prog(&p.text);
    let want = match p.error {
        None => "ok".to_owned(),
        Some(6) => "error Overflow".to_owned(),
        Some(9) => "error SubscriptOutOfRange".to_owned(),
        Some(c) => format!("error code {}", c),
    };
    if run.result != want {
        rep.fail(Failure {
            kind: Kind::ImplVsProperty,
            signature: "program:path:result".into(),
            input: p.text.clone(),
            implementation: run.result.clone(),
            expected: want,
            note: "generated program with stores through nested paths".into(),
        });
        return;
    }
    let mut imp: Vec<String> = p.op_results.clone();
    let mut reads: Vec<String> = vec![];
    for l in &p.leaves {
        let got = run.vars.iter().find(|(n, _)| *n == l.dump_name).and_then(|(_, v)| resolve(v, &l.steps));
        let got_s = got.map(show_variant).unwrap_or("none".into());
        let want_s = show_variant(&l.value);
        if got_s != want_s {
            rep.fail(Failure {
                kind: Kind::ImplVsProperty,
                signature: "program:path:final-value".into(),
                input: p.text.clone(),
                implementation: format!("{} = {}", l.text, got_s),
                expected: want_s,
                note: "every location holds the last value stored into it, converted to its type; all others their initial value".into(),
            });
            return;
        }
        reads.push(format!("(r {})", l.model_path));
        imp.push(got_s);
    }
    let mut ops = p.ops.clone();
    ops.extend(reads);
    pend.push(Pending {
        req: format!("(arr.path {} ({}))", p.vars_sx, ops.join(" ")),
        imp: sx::list(imp.iter()),
        sig: "model:path",
        note: "RbModel.ArrPath.{assign, writeBack, resolve} vs the interpreter (var_path.rs, allocation.rs, Cast/FixLength emission)",
    });
}


// ---------------------------------------------------------------------------------------------
// family E: dynamic arrays (REDIM ... AS <type>, re-dimensioned with and without the type clause)
// ---------------------------------------------------------------------------------------------

#[derive(Clone, Copy, PartialEq, Eq, Debug)]
enum RTy {
    Leaf(LTy),
    /// TYPE RT : K AS INTEGER : F AS STRING * 2 : L AS LONG : END TYPE
    Record,
}

struct RedimProgram {
    text: String,
    lines: Vec<String>,
    error: Option<i32>,
    dump_name: String,
    dump: Vec<(Vec<Step>, Variant)>,
}

/// A bound, spelled as a literal or through the run-time variable `N%` (= `n`).
fn bound_text(rng: &mut Rng, b: i32, n: i32) -> String {
    match rng.below(3) {
        0 => b.to_string(),
        1 if b == n => "N%".to_owned(),
        _ => {
            let d = b - n;
            if d >= 0 { format!("N% + {}", d) } else { format!("N% - {}", -d) }
        }
    }
}

/// A numeric store whose conversion to the element type is visible: (statements, value after conversion).
fn visible_numeric_store(rng: &mut Rng, target: &str, ty: LTy) -> (String, Variant) {
    const FRACS: [f64; 6] = [0.125, 0.25, 0.375, 0.625, 0.75, 0.875];
    match ty {
        LTy::Int => {
            let x = rng.range(-32000, 32000) as f64 + *rng.pick(&FRACS[..]);
            (format!("{} = {}\n", target, x), convert_num(x, ty).unwrap())
        }
        LTy::Long => {
            if rng.chance(1, 2) {
                let x = rng.range(-2_000_000_000, 2_000_000_000) as f64 + *rng.pick(&FRACS[..]);
                (format!("{} = {:.3}#\n", target, x), convert_num(x, ty).unwrap())
            } else {
                let x = rng.range(-500_000, 500_000) as f64 + *rng.pick(&FRACS[..]);
                (format!("{} = {}\n", target, x), convert_num(x, ty).unwrap())
            }
        }
        LTy::Sgl => {
            if rng.chance(1, 2) {
                // a LONG that is not a SINGLE: rounded to 24 significant bits
                let v = (1i64 << 24) + 1 + 2 * rng.range(0, 1000);
                (format!("VL& = {}\n{} = VL&\n", v, target), Variant::VSingle(v as f32))
            } else {
                let v = rng.range(-30000, 30000);
                (format!("VI% = {}\n{} = VI%\n", v, target), Variant::VSingle(v as f32))
            }
        }
        LTy::Dbl => {
            let v = rng.range(-2_000_000_000, 2_000_000_000);
            (format!("VL& = {}\n{} = VL&\n", v, target), Variant::VDouble(v as f64))
        }
        _ => unreachable!(),
    }
}

fn gen_redim_program(rng: &mut Rng, rep: &mut Report) -> RedimProgram {
    let rty = match rng.below(8) {
        0 => RTy::Leaf(LTy::Int),
        1 | 2 => RTy::Leaf(LTy::Long),
        3 => RTy::Leaf(LTy::Sgl),
        4 => RTy::Leaf(LTy::Dbl),
        5 => RTy::Leaf(LTy::Str),
        6 => RTy::Leaf(LTy::Fix(rng.range(1, 4) as usize)),
        _ => RTy::Record,
    };
    let rank = rng.range(1, 2) as usize;
    let n = rng.range(-5, 9) as i32;
    let mut text = String::new();
    if rty == RTy::Record {
        text.push_str("TYPE RT\n  K AS INTEGER\n  F AS STRING * 2\n  L AS LONG\nEND TYPE\n");
    }
    text.push_str(&format!("N% = {}\n", n));
    let (decl, dump_name) = match rty {
        RTy::Leaf(t) => (t.decl(), format!("A{}", t.suffix())),
        RTy::Record => ("RT".to_owned(), "A".to_owned()),
    };
    let mut lines: Vec<String> = vec![];
    let mut error = None;
    let mut dims: Dims = vec![];
    let mut reference: HashMap<Vec<Step>, Variant> = HashMap::new();
    let rounds = rng.range(2, 4);
    let dynamic = !rng.chance(1, 8);
    // what a location of the array is: (program text, steps, leaf type)
    let locations = |dims: &Dims| -> Vec<(String, Vec<Step>, LTy)> {
        let mut res = vec![];
        for idx in enumerate_box(dims, 0) {
            let it = idx.iter().map(|i| i.to_string()).collect::<Vec<_>>().join(", ");
            match rty {
                RTy::Leaf(t) => res.push((format!("A({})", it), vec![Step::Idx(idx)], t)),
                RTy::Record => {
                    for (f, t) in [("K", LTy::Int), ("F", LTy::Fix(2)), ("L", LTy::Long)] {
                        res.push((format!("A({}).{}", it, f), vec![Step::Idx(idx.clone()), Step::Field(f.into())], t));
                    }
                }
            }
        }
        res
    };
    for round in 0..rounds {
        // (re-)dimension: same rank (the front end demands it), other bounds
        let old_dims = dims.clone();
        dims = (0..rank)
            .map(|_| {
                let ext = rng.range(1, if rank == 1 { 5 } else { 3 }) as i32;
                let lb = n + rng.range(-6, 6) as i32;
                (lb, lb + ext - 1)
            })
            .collect();
        let spec = dims.iter().map(|(l, u)| format!("{} TO {}", bound_text(rng, *l, n), bound_text(rng, *u, n))).collect::<Vec<_>>().join(", ");
        if round == 0 {
            if dynamic {
                text.push_str(&format!("REDIM A({}) AS {}\n", spec, decl));
                rep.bump(&format!("program.redim.declared.{}", decl.replace(' ', "")));
            } else {
                // a DIM with run-time bounds (cannot be re-dimensioned: the front end rejects it)
                text.push_str(&format!("DIM A({}) AS {}\n", spec, decl));
                rep.bump("program.redim.dim-with-runtime-bounds");
            }
        } else if !dynamic {
            dims = old_dims;
            break;
        } else if rng.chance(2, 3) {
            text.push_str(&format!("REDIM A({})\n", spec));
            rep.bump("program.redim.again-without-type");
        } else {
            text.push_str(&format!("REDIM A({}) AS {}\n", spec, decl));
            rep.bump("program.redim.again-with-type");
        }
        reference.clear(); // REDIM starts from default values
        // bounds
        for d in 1..=rank {
            text.push_str(&format!("PRINT LBOUND(A, {}); UBOUND(A, {})\n", d, d));
            lines.push(format!("{}{}", fmt_num(dims[d - 1].0 as i64), fmt_num(dims[d - 1].1 as i64)).trim_end().to_owned());
        }
        // stores with a visible conversion
        let locs = locations(&dims);
        let n_stores = rng.range(1, locs.len() as i64 + 1);
        for _ in 0..n_stores {
            let (t, st, ty) = rng.pick(&locs[..]).clone();
            match ty {
                LTy::Str => {
                    let w = format!("{}{}", rng.pick(&WORDS[..]), rng.below(100));
                    text.push_str(&format!("{} = \"{}\"\n", t, w));
                    reference.insert(st, Variant::VString(w));
                }
                LTy::Fix(k) => {
                    let w = format!("{}{}", rng.pick(&WORDS[..]), rng.below(100));
                    text.push_str(&format!("{} = \"{}\"\n", t, w));
                    reference.insert(st, Variant::VString(ref_fix(&w.chars().collect::<Vec<_>>(), k).into_iter().collect()));
                }
                _ => {
                    let (stmts, v) = visible_numeric_store(rng, &t, ty);
                    text.push_str(&stmts);
                    reference.insert(st, v);
                }
            }
        }
        // read back everything that prints without the float formatter
        for (t, st, ty) in &locs {
            let v = reference.get(st).cloned().unwrap_or(ty.default());
            match (&v, ty) {
                (Variant::VInteger(i), _) => {
                    text.push_str(&format!("PRINT {}\n", t));
                    lines.push(fmt_num(*i as i64).trim_end().to_owned());
                }
                (Variant::VLong(i), _) => {
                    text.push_str(&format!("PRINT {}\n", t));
                    lines.push(fmt_num(*i).trim_end().to_owned());
                }
                (Variant::VString(x), _) => {
                    text.push_str(&format!("PRINT \"[\" + {} + \"]\"; LEN({})\n", t, t));
                    lines.push(format!("[{}]{}", x, fmt_num(x.chars().count() as i64)).trim_end().to_owned());
                }
                _ => {}
            }
        }
        // an element of the previous shape that is outside the new one is out of range now
        if round > 0 && round == rounds - 1 && rng.chance(1, 3) {
            if let Some(old) = enumerate_box(&old_dims, 0).into_iter().find(|i| !in_box(&dims, i)) {
                let it = old.iter().map(|i| i.to_string()).collect::<Vec<_>>().join(", ");
                match rty {
                    RTy::Record => text.push_str(&format!("A({}).K = 1\n", it)),
                    RTy::Leaf(t) if t.is_str() => text.push_str(&format!("A({}) = \"x\"\n", it)),
                    RTy::Leaf(_) => text.push_str(&format!("A({}) = 1\n", it)),
                }
                text.push_str("PRINT \"not reached\"\n");
                error = Some(9);
                rep.bump("program.redim.tail-old-subscript");
            }
        }
    }
    let dump = locations(&dims).into_iter().map(|(_, st, ty)| {
        let v = reference.get(&st).cloned().unwrap_or(ty.default());
        (st, v)
    }).collect();
    RedimProgram { text, lines, error, dump_name, dump }
}

fn check_redim_program(rep: &mut Report, p: &RedimProgram) {
    let run = run_prog(&p.text);
    let want = match p.error {
        None => "ok".to_owned(),
        Some(9) => "error SubscriptOutOfRange".to_owned(),
        Some(c) => format!("error code {}", c),
    };
    let got_lines: Vec<String> = run.lines.iter().map(|l| l.trim_end().to_owned()).collect();
    let mut problem: Option<(&str, String, String)> = None;
    if run.result != want {
        problem = Some(("result", run.result.clone(), want));
    } else if got_lines != p.lines {
        let k = got_lines.iter().zip(p.lines.iter()).position(|(a, b)| a != b).unwrap_or(got_lines.len().min(p.lines.len()));
        problem = Some((
            "output",
            format!("line {}: {:?} ({} lines)", k, got_lines.get(k), got_lines.len()),
            format!("line {}: {:?} ({} lines)", k, p.lines.get(k), p.lines.len()),
        ));
    } else {
        for (st, v) in &p.dump {
            let got = run.vars.iter().find(|(n, _)| *n == p.dump_name).and_then(|(_, a)| resolve(a, st)).map(show_variant);
            let want_s = show_variant(v);
            if got.as_deref() != Some(want_s.as_str()) {
                problem = Some(("final-value", format!("{}{:?} = {:?}", p.dump_name, st, got), want_s));
                break;
            }
        }
    }
    if let Some((what, got, want)) = problem {
        rep.fail(Failure {
            kind: Kind::ImplVsProperty,
            signature: format!("program:redim:{}", what),
            input: p.text.clone(),
            implementation: got,
            expected: want,
            note: "a re-dimensioned array keeps its element type: what is read back is the stored value converted to the declared element type".into(),
        });
    }
}

// ---------------------------------------------------------------------------------------------

fn main() {
    let args: Vec<String> = std::env::args().collect();
    if args.len() == 3 && args[1] == "--run" {
        let text = std::fs::read_to_string(&args[2]).expect("cannot read the program");
        let r = run_prog(&text);
        println!("output lines: {:?}\nresult: {} (ERR {:?})\nfinal variables: {:?}", r.lines, r.result, r.code, r.vars);
        return;
    }
    std::panic::set_hook(Box::new(|_| {}));
    let mut rng = Rng::from_env();
    let mut rep = Report::new(
        "C04",
        "abs_index: (shape, index tuple) pairs — every tuple of the box grown by one for all small shapes of rank 1-3 \
         (4-5 in thorough) at several placements of the lower bounds, plus random large boxes with inside / face / far \
         tuples (class = shape + tuple; trivial = the single element of a one-element box); write/read sequences on VArray and \
         UserDefinedTypeValue (class = shape or field list + operation list); generated programs: arrays (DIM, writes, \
         LBOUND/UBOUND, read back all, out-of-range tail), records, STRING * n locations assigned directly and by reference \
         (class = program text).",
    );
    let thorough = rep.is_thorough();
    let mut pend: Vec<Pending> = vec![];

    // ---- 1a. small boxes, exhaustively: every tuple of the box grown by one on every side ------------------
    let max_rank = if thorough { 5 } else { 3 };
    let mut n_shapes = 0;
    for rank in 1..=max_rank {
        let max_ext = match rank {
            1 => 6,
            2 => 4,
            3 => 3,
            _ => 2,
        };
        for (s, ext) in extents_up_to(rank, max_ext).iter().enumerate() {
            let placements = if rank <= 3 { 3 } else { 1 };
            for p in 0..placements {
                let dims: Dims = ext
                    .iter()
                    .enumerate()
                    .map(|(i, e)| {
                        let lb = if p == 2 { *rng.pick(&LBS) } else { LBS[(p * 5 + i * 3 + s) % LBS.len()] };
                        (lb, lb + e - 1)
                    })
                    .collect();
                let tuples = enumerate_box(&dims, 1);
                check_tuples(&mut rep, &mut pend, &dims, &tuples, true);
                n_shapes += 1;
            }
        }
        // wrong number of indices (a debug assertion in the code; never produced by linted programs)
        let dims: Dims = (0..rank).map(|i| (i as i32 - 1, i as i32 + 1)).collect();
        let mut shorter: Vec<i32> = dims.iter().map(|(l, _)| *l).collect();
        shorter.pop();
        let mut longer: Vec<i32> = dims.iter().map(|(l, _)| *l).collect();
        longer.push(0);
        check_tuples(&mut rep, &mut pend, &dims, &[shorter, longer], false);
    }
    rep.exhaustive_parts.push(format!(
        "abs_index on every tuple of the index box grown by one on every side, for {} shapes: all extents 1..6 (rank 1), 1..4 (rank 2), 1..3 (rank 3){} at three placements of the lower bounds (small, INTEGER limits, i32 limits); bijection onto 0..len-1 checked per shape",
        n_shapes,
        if thorough { ", 1..2 (rank 4-5)" } else { "" }
    ));
    flush(&mut rep, &mut pend);

    // ---- 1b. random large boxes ----------------------------------------------------------------------
    let n_large = if thorough { 400 } else { 60 };
    for _ in 0..n_large {
        let rank = rng.range(1, max_rank as i64) as usize;
        let dims = random_dims(&mut rng, rank, if thorough { 2_000_000 } else { 200_000 }, true);
        let mut tuples: Vec<Vec<i32>> = vec![];
        // corners, faces +-1 through a random inside point, random inside, random outside
        tuples.push(dims.iter().map(|(l, _)| *l).collect());
        tuples.push(dims.iter().map(|(_, u)| *u).collect());
        let base = random_tuple(&mut rng, &dims, 100);
        for d in 0..rank {
            for v in [dims[d].0 - 1, dims[d].0, dims[d].1, dims[d].1 + 1] {
                let mut t = base.clone();
                t[d] = v;
                tuples.push(t);
            }
        }
        for _ in 0..40 {
            tuples.push(random_tuple(&mut rng, &dims, 100));
        }
        for _ in 0..15 {
            tuples.push(random_tuple(&mut rng, &dims, 0));
        }
        rep.bump(&format!("abs_index.large-box.rank{}", rank));
        check_tuples(&mut rep, &mut pend, &dims, &tuples, false);
    }
    flush(&mut rep, &mut pend);

    // ---- 2. write/read sequences on VArray vs HashMap reference and model ------------------------------
    let n_scripts = if thorough { 3000 } else { 400 };
    for k in 0..n_scripts {
        let rank = rng.range(1, max_rank as i64) as usize;
        let small = k % 4 != 0;
        let dims = if small { random_dims(&mut rng, rank, 60, true) } else { random_dims(&mut rng, rank, 20_000, true) };
        let n_ops = rng.range(5, 80) as usize;
        run_script(&mut rep, &mut rng, &mut pend, &dims, n_ops, small);
    }
    flush(&mut rep, &mut pend);

    // ---- 3. records --------------------------------------------------------------------------------------
    let n_rec = if thorough { 5000 } else { 600 };
    for _ in 0..n_rec {
        run_record_script(&mut rep, &mut rng, &mut pend);
    }
    flush(&mut rep, &mut pend);

    // ---- 4. programs ---------------------------------------------------------------------------------------
    let (n_a, n_b, n_c) = if thorough { (4000, 1500, 4000) } else { (350, 150, 400) };
    for k in 0..n_a {
        let e = gen_array_program(&mut rng, &mut rep);
        rep.case(Some(format!("pa{}", e.text)));
        if k == 0 {
            rep.sample(J::s(e.text.clone()));
        }
        check_program(&mut rep, "array", &e);
    }
    // DIM with an upper bound below the lower bound is itself Subscript out of range
    for (l, u) in [(3, 2), (0, -1), (-5, -7)] {
        let e = Expect { text: format!("DIM A({} TO {}) AS INTEGER\nPRINT \"not reached\"\n", l, u), lines: vec![], error: Some(9), dump: vec![] };
        rep.case(Some(format!("pa{}", e.text)));
        check_program(&mut rep, "array", &e);
    }
    // an array whose elements cannot be counted (2^64) is Out of memory (7), also in the model's checked count
    {
        let e = Expect {
            text: "DIM A(-32768 TO 32767, -32768 TO 32767, -32768 TO 32767, -32768 TO 32767) AS INTEGER\nPRINT \"not reached\"\n".into(),
            lines: vec![],
            error: Some(7),
            dump: vec![],
        };
        rep.case(Some(format!("pa{}", e.text)));
        check_program(&mut rep, "array", &e);
        let full: Dims = vec![(-32768, 32767); 4];
        let three: Dims = vec![(-32768, 32767); 3];
        for (d, want) in [(&full, "none".to_owned()), (&three, (1u64 << 48).to_string())] {
            pend.push(Pending {
                req: format!("(arr.dimsLenChecked {})", dims_sx(d)),
                imp: want,
                sig: "model:dimsLenChecked",
                note: "RbModel.Arr.dimsLenChecked vs dimensions_to_array_length (2^64 elements: Out of memory; 2^48: counted)",
            });
        }
    }
    for k in 0..n_b {
        let e = gen_record_program(&mut rng, &mut rep);
        rep.case(Some(format!("pb{}", e.text)));
        if k == 0 {
            rep.sample(J::s(e.text.clone()));
        }
        check_program(&mut rep, "record", &e);
    }
    // the F13 example verbatim, then generated programs
    let f13 = FixProgram {
        text: "DIM A AS STRING * 3\nA = CHR$(200) + \"ab\"\nPRINT LEN(A)\n".into(),
        targets: vec![FixTarget { text: "A".into(), dump_name: "A$".into(), path: vec![], n: 3, last_source: vec!['\u{c8}', 'a', 'b'] }],
    };
    rep.case(Some(format!("pc{}", f13.text)));
    check_fix_program(&mut rep, &mut pend, &f13);
    for k in 0..n_c {
        let p = gen_fix_program(&mut rng, &mut rep);
        rep.case(Some(format!("pc{}", p.text)));
        if k == 0 {
            rep.sample(J::s(p.text.clone()));
        }
        check_fix_program(&mut rep, &mut pend, &p);
    }
    flush(&mut rep, &mut pend);
    let n_e = if thorough { 3000 } else { 400 };
    for k in 0..n_e {
        let p = gen_redim_program(&mut rng, &mut rep);
        rep.case(Some(format!("pe{}", p.text)));
        if k == 0 {
            rep.sample(J::s(p.text.clone()));
        }
        check_redim_program(&mut rep, &p);
    }
    // the coordinator's example verbatim
    {
        let p = RedimProgram {
            text: "REDIM A(1 TO 3) AS LONG\nA(2) = 2.6\nPRINT A(2)\nREDIM A(-2 TO 5)\nPRINT LBOUND(A); UBOUND(A)\nA(-2) = 2.6\nA(5) = 100000.4\nPRINT A(-2); A(-1); A(5)\n".into(),
            lines: vec![" 3".into(), "-2  5".into(), " 3  0  100000".into()],
            error: None,
            dump_name: "A&".into(),
            dump: vec![(vec![Step::Idx(vec![-2])], Variant::VLong(3)), (vec![Step::Idx(vec![5])], Variant::VLong(100000))],
        };
        rep.case(Some(format!("pe{}", p.text)));
        check_redim_program(&mut rep, &p);
    }
    let n_d = if thorough { 3000 } else { 300 };
    for k in 0..n_d {
        let p = gen_path_program(&mut rng, &mut rep);
        rep.case(Some(format!("pd{}", p.text)));
        if k == 0 {
            rep.sample(J::s(p.text.clone()));
        }
        check_path_program(&mut rep, &mut pend, &p);
    }
    flush(&mut rep, &mut pend);
    rep.finish();
}
