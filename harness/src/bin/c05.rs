//! C05 — GOTO/GOSUB/RETURN and ON ERROR/RESUME transfer control exactly as written.
//!
//! Token programs (one statement per line, a trace token printed per statement) are run on the REAL
//! interpreter (in-memory hook) and on an independent line-based reference interpreter written here
//! (`Ref`, QBasic's statement-per-line semantics: every FOR keeps its own limit/step, RESUME
//! re-executes the failing line, RESUME NEXT continues with the line after it, RESUME label unwinds
//! to the module level) — ImplVsProperty.  The real VM's control state (pc, GOSUB stack, return
//! stack, handler, error registers) before every instruction is compared with the Lean control
//! machine `RbModel.Ctl` driven by the same branch decisions / error events — ModelVsImpl.
//!
//! `c05 --run <file.bas>` prints what the real interpreter does with a program (replay aid).

use std::cell::RefCell;
use std::collections::{BTreeMap, HashMap};
use std::rc::Rc;

use rb_harness::driver::ask;
use rb_harness::instr_sx;
use rb_harness::json::J;
use rb_harness::report::{Failure, Kind, Report};
use rb_harness::rng::Rng;
use rusty_basic::instruction_generator::{AddressOrLabel, Instruction};
use rusty_basic::interpreter::verif::{compile, run_instructions, Snapshot};

// ------------------------------------------------------------------------------------------------
// the token language
// ------------------------------------------------------------------------------------------------

#[derive(Clone, Debug, PartialEq)]
enum Ex {
    K(i32),
    /// `k / D%` (fails with 11 while D% = 0)
    DivD(i32),
}

#[derive(Clone, Debug, PartialEq)]
enum Cond {
    True,
    False,
    /// `v < k`
    Lt(String, Ex),
    /// `v >= k`
    Ge(String, Ex),
    /// `v = k`
    Eq(String, i32),
    /// `5 / D% = 5`
    FailEq,
}

#[derive(Clone, Debug, PartialEq)]
enum FK {
    AsgDiv,
    AsgOvf,
    Print,
    Array,
    Builtin,
    Read,
}

#[derive(Clone, Debug, PartialEq)]
enum L {
    Decl,
    Tok(String),
    PrintVars(String, Vec<String>),
    PrintErr(String),
    Set(String, i32),
    Add(String, i32),
    Fail(FK),
    If(Cond),
    ElseIf(Cond),
    Else,
    EndIf,
    For { var: String, from: i32, to: Ex, step: Option<i32> },
    Next,
    While(Cond),
    Wend,
    Do(Option<(bool, Cond)>),
    Loop(Option<(bool, Cond)>),
    Select(Ex),
    Case(Vec<i32>),
    CaseElse,
    EndSelect,
    Goto(String),
    Gosub(String),
    Return(Option<String>),
    Label(String),
    OnErrGoto(String),
    OnErrNext,
    OnErrZero,
    Resume,
    ResumeNext,
    ResumeLabel(String),
    Call(String, Option<Ex>),
    AssignFn(String),
    End,
    Sub(String, bool),
    EndSub,
    /// `EXIT SUB` / `EXIT FUNCTION`: the procedure is left at once, with whatever GOSUBs of its own are pending
    ExitSub,
    ExitFunction,
    Function(String),
    SetFnResult(String, i32),
    EndFunction,
    Const,
    Data,
}

fn ex_text(e: &Ex) -> String {
    match e {
        Ex::K(k) => k.to_string(),
        Ex::DivD(k) => format!("{} / D%", k),
    }
}

fn cond_text(c: &Cond) -> String {
    match c {
        Cond::True => "1 = 1".into(),
        Cond::False => "1 = 0".into(),
        Cond::Lt(v, e) => format!("{} < {}", v, ex_text(e)),
        Cond::Ge(v, e) => format!("{} >= {}", v, ex_text(e)),
        Cond::Eq(v, k) => format!("{} = {}", v, k),
        Cond::FailEq => "5 / D% = 5".into(),
    }
}

fn line_text(l: &L) -> String {
    match l {
        L::Decl => unreachable!(),
        L::Tok(t) => format!("PRINT \"{}\"", t),
        L::PrintVars(t, vs) => format!("PRINT \"{}\"; {}", t, vs.join("; ")),
        L::PrintErr(t) => format!("PRINT \"{}\"; ERR", t),
        L::Set(v, k) => format!("{} = {}", v, k),
        L::Add(v, k) => format!("{} = {} + {}", v, v, k),
        L::Fail(FK::AsgDiv) => "V% = 7 / D%".into(),
        L::Fail(FK::AsgOvf) => "V% = 32767 + (1 - D%)".into(),
        L::Fail(FK::Print) => "PRINT 8 / D%".into(),
        L::Fail(FK::Array) => "A%(D% - 1) = 3".into(),
        L::Fail(FK::Builtin) => "S$ = CHR$(66 * D% - 1)".into(),
        L::Fail(FK::Read) => "READ V%".into(),
        L::If(c) => format!("IF {} THEN", cond_text(c)),
        L::ElseIf(c) => format!("ELSEIF {} THEN", cond_text(c)),
        L::Else => "ELSE".into(),
        L::EndIf => "END IF".into(),
        L::For { var, from, to, step } => match step {
            Some(s) => format!("FOR {} = {} TO {} STEP {}", var, from, ex_text(to), s),
            None => format!("FOR {} = {} TO {}", var, from, ex_text(to)),
        },
        L::Next => "NEXT".into(),
        L::While(c) => format!("WHILE {}", cond_text(c)),
        L::Wend => "WEND".into(),
        L::Do(None) => "DO".into(),
        L::Do(Some((u, c))) => format!("DO {} {}", if *u { "UNTIL" } else { "WHILE" }, cond_text(c)),
        L::Loop(None) => "LOOP".into(),
        L::Loop(Some((u, c))) => format!("LOOP {} {}", if *u { "UNTIL" } else { "WHILE" }, cond_text(c)),
        L::Select(e) => format!("SELECT CASE {}", ex_text(e)),
        L::Case(vs) => format!("CASE {}", vs.iter().map(|v| v.to_string()).collect::<Vec<_>>().join(", ")),
        L::CaseElse => "CASE ELSE".into(),
        L::EndSelect => "END SELECT".into(),
        L::Goto(l) => format!("GOTO {}", l),
        L::Gosub(l) => format!("GOSUB {}", l),
        L::Return(None) => "RETURN".into(),
        L::Return(Some(l)) => format!("RETURN {}", l),
        L::Label(l) => format!("{}:", l),
        L::OnErrGoto(l) => format!("ON ERROR GOTO {}", l),
        L::OnErrNext => "ON ERROR RESUME NEXT".into(),
        L::OnErrZero => "ON ERROR GOTO 0".into(),
        L::Resume => "RESUME".into(),
        L::ResumeNext => "RESUME NEXT".into(),
        L::ResumeLabel(l) => format!("RESUME {}", l),
        L::Call(s, None) => s.clone(),
        L::Call(s, Some(e)) => format!("{} {}", s, ex_text(e)),
        // an operand is pending on the value stack during the call: whatever the callee leaves there shows
        L::AssignFn(f) => format!("V% = 100 + {}(1) - 100", f),
        L::End => "END".into(),
        L::Sub(n, false) => format!("SUB {}", n),
        L::Sub(n, true) => format!("SUB {} (X%)", n),
        L::EndSub => "END SUB".into(),
        L::ExitSub => "EXIT SUB".into(),
        L::ExitFunction => "EXIT FUNCTION".into(),
        L::Function(n) => format!("FUNCTION {} (X%)", n),
        L::SetFnResult(n, k) => format!("{} = {}", n, k),
        L::EndFunction => "END FUNCTION".into(),
        L::Const => unreachable!(),
        L::Data => "DATA 1".into(),
    }
}

#[derive(Clone, Default)]
struct Prog {
    lines: Vec<(String, L)>,
    n_const: usize,
}

impl Prog {
    fn new() -> Prog {
        let mut p = Prog::default();
        for d in ["D%", "V%", "N%", "W%", "I1%", "I2%", "I3%", "C1%", "C2%", "C3%", "G1%", "A%(3)"] {
            p.lines.push((format!("DIM SHARED {}", d), L::Decl));
        }
        p
    }
    fn bare() -> Prog {
        Prog::default()
    }
    fn push(&mut self, l: L) {
        let t = match &l {
            L::Const => {
                self.n_const += 1;
                format!("CONST KK{} = 1", self.n_const)
            }
            other => line_text(other),
        };
        self.lines.push((t, l));
    }
    fn extend(&mut self, ls: Vec<L>) {
        for l in ls {
            self.push(l);
        }
    }
    fn text(&self) -> String {
        let mut s = String::new();
        for (t, _) in &self.lines {
            s.push_str(t);
            s.push('\n');
        }
        s
    }
}

// ------------------------------------------------------------------------------------------------
// the reference interpreter (line based)
// ------------------------------------------------------------------------------------------------

#[derive(Clone, Debug, PartialEq)]
enum End {
    Ok,
    /// unhandled error: code, rows (innermost first)
    Err(i32, Vec<usize>),
    Budget,
    /// the property does not say what happens (error inside an active handler, ...)
    OutOfScope(&'static str),
}

struct RefRun {
    out: String,
    end: End,
}

#[derive(Clone, Default)]
struct Links {
    /// IF / ELSEIF -> next clause line (ELSEIF / ELSE / END IF); also SELECT/CASE -> next CASE
    next_clause: HashMap<usize, usize>,
    /// any clause line -> END IF / END SELECT
    end_of: HashMap<usize, usize>,
    /// FOR <-> NEXT, WHILE <-> WEND, DO <-> LOOP
    mate: HashMap<usize, usize>,
    labels: HashMap<String, usize>,
    subs: HashMap<String, usize>,
}

fn link(p: &Prog) -> Option<Links> {
    let mut k = Links::default();
    // stack of (kind, opening line, clause lines)
    let mut st: Vec<(u8, usize, Vec<usize>)> = vec![];
    for (i, (_, l)) in p.lines.iter().enumerate() {
        match l {
            L::If(_) => st.push((0, i, vec![i])),
            L::ElseIf(_) | L::Else => {
                let top = st.last_mut()?;
                if top.0 != 0 {
                    return None;
                }
                top.2.push(i);
            }
            L::EndIf => {
                let (kind, _, cl) = st.pop()?;
                if kind != 0 {
                    return None;
                }
                for w in 0..cl.len() {
                    k.next_clause.insert(cl[w], if w + 1 < cl.len() { cl[w + 1] } else { i });
                    k.end_of.insert(cl[w], i);
                }
            }
            L::Select(_) => st.push((1, i, vec![i])),
            L::Case(_) | L::CaseElse => {
                let top = st.last_mut()?;
                if top.0 != 1 {
                    return None;
                }
                top.2.push(i);
            }
            L::EndSelect => {
                let (kind, _, cl) = st.pop()?;
                if kind != 1 {
                    return None;
                }
                for w in 0..cl.len() {
                    k.next_clause.insert(cl[w], if w + 1 < cl.len() { cl[w + 1] } else { i });
                    k.end_of.insert(cl[w], i);
                }
            }
            L::For { .. } => st.push((2, i, vec![])),
            L::Next => {
                let (kind, o, _) = st.pop()?;
                if kind != 2 {
                    return None;
                }
                k.mate.insert(o, i);
                k.mate.insert(i, o);
            }
            L::While(_) => st.push((3, i, vec![])),
            L::Wend => {
                let (kind, o, _) = st.pop()?;
                if kind != 3 {
                    return None;
                }
                k.mate.insert(o, i);
                k.mate.insert(i, o);
            }
            L::Do(_) => st.push((4, i, vec![])),
            L::Loop(_) => {
                let (kind, o, _) = st.pop()?;
                if kind != 4 {
                    return None;
                }
                k.mate.insert(o, i);
                k.mate.insert(i, o);
            }
            L::Label(n) => {
                if k.labels.insert(n.clone(), i).is_some() {
                    return None;
                }
            }
            L::Sub(n, _) | L::Function(n) => {
                k.subs.insert(n.clone(), i);
            }
            _ => {}
        }
    }
    if !st.is_empty() {
        return None;
    }
    Some(k)
}

#[derive(Clone, Copy, PartialEq)]
enum H {
    None,
    Next,
    Addr(usize),
}

struct Frame {
    ret: usize,
    locals: HashMap<String, i32>,
    /// row of the call (for the reported stack)
    call_row: usize,
    assign_result: Option<String>,
    /// pending GOSUBs at the call: the ones made inside the procedure are forgotten when it is left
    gosub_mark: usize,
}

enum Go {
    Fall,
    To(usize),
    /// continue at a clause line (ELSEIF / CASE) that has to be evaluated
    Clause(usize),
    Halt,
}

struct Ref<'a> {
    p: &'a Prog,
    k: Links,
    g: HashMap<String, i32>,
    frames: Vec<Frame>,
    gosub: Vec<usize>,
    h: H,
    err_line: Option<usize>,
    err_eval: bool,
    err_code: i32,
    out: String,
    for_state: HashMap<usize, (i32, i32)>,
    select_val: Option<i32>,
    data_left: usize,
}

fn fmt_int(n: i32) -> String {
    if n < 0 { format!("{} ", n) } else { format!(" {} ", n) }
}

fn is_local(v: &str) -> bool {
    v == "L%" || v == "X%" || v == "M%"
}

impl<'a> Ref<'a> {
    fn get(&self, v: &str) -> i32 {
        if is_local(v) {
            *self.frames.last().unwrap().locals.get(v).unwrap_or(&0)
        } else {
            *self.g.get(v).unwrap_or(&0)
        }
    }
    fn set(&mut self, v: &str, x: i32) {
        if is_local(v) {
            self.frames.last_mut().unwrap().locals.insert(v.to_owned(), x);
        } else {
            self.g.insert(v.to_owned(), x);
        }
    }
    fn ex(&self, e: &Ex) -> Result<i32, i32> {
        match e {
            Ex::K(k) => Ok(*k),
            Ex::DivD(k) => {
                let d = self.get("D%");
                if d == 0 { Err(11) } else { Ok(k / d) }
            }
        }
    }
    fn cond(&self, c: &Cond) -> Result<bool, i32> {
        Ok(match c {
            Cond::True => true,
            Cond::False => false,
            Cond::Lt(v, e) => self.get(v) < self.ex(e)?,
            Cond::Ge(v, e) => self.get(v) >= self.ex(e)?,
            Cond::Eq(v, k) => self.get(v) == *k,
            Cond::FailEq => self.ex(&Ex::DivD(5))? == 5,
        })
    }
    fn label(&self, n: &str) -> usize {
        self.k.labels[n]
    }
    /// the line RESUME NEXT continues with after line `e` failed: a FOR whose bounds or step failed did
    /// not set up its loop, the statement that follows it is the one after NEXT (likewise SELECT CASE /
    /// END SELECT); after any other line, the next line
    fn after_failed(&self, e: usize) -> usize {
        match &self.p.lines[e].1 {
            L::For { .. } => self.k.mate[&e] + 1,
            L::Select(_) => self.k.end_of[&e] + 1,
            _ => e + 1,
        }
    }

    /// executes line `pc`; `eval` = a clause line reached by dispatch (to be evaluated)
    fn exec(&mut self, pc: usize, eval: bool) -> Result<Go, i32> {
        let l = self.p.lines[pc].1.clone();
        Ok(match l {
            L::Decl | L::Const | L::Data | L::Label(_) | L::EndIf | L::EndSelect => Go::Fall,
            L::Tok(t) => {
                self.out.push_str(&t);
                self.out.push('\n');
                Go::Fall
            }
            L::PrintVars(t, vs) => {
                let mut s = t.clone();
                for v in &vs {
                    s.push_str(&fmt_int(self.get(v)));
                }
                self.out.push_str(&s);
                self.out.push('\n');
                Go::Fall
            }
            L::PrintErr(t) => {
                self.out.push_str(&format!("{}{}\n", t, fmt_int(self.err_code)));
                Go::Fall
            }
            L::Set(v, k) => {
                self.set(&v, k);
                Go::Fall
            }
            L::Add(v, k) => {
                let x = self.get(&v) + k;
                if !(-32768..=32767).contains(&x) {
                    return Err(6);
                }
                self.set(&v, x);
                Go::Fall
            }
            L::Fail(fk) => {
                let d = self.get("D%");
                match fk {
                    FK::AsgDiv => {
                        if d == 0 {
                            return Err(11);
                        }
                        self.set("V%", 7 / d);
                    }
                    FK::AsgOvf => {
                        if 32767 + (1 - d) > 32767 {
                            return Err(6);
                        }
                        self.set("V%", 32767 + (1 - d));
                    }
                    FK::Print => {
                        if d == 0 {
                            return Err(11);
                        }
                        self.out.push_str(&format!("{}\n", fmt_int(8 / d)));
                    }
                    FK::Array => {
                        if !(0..=3).contains(&(d - 1)) {
                            return Err(9);
                        }
                    }
                    FK::Builtin => {
                        if !(0..=255).contains(&(66 * d - 1)) {
                            return Err(5);
                        }
                    }
                    FK::Read => {
                        if self.data_left == 0 {
                            return Err(4);
                        }
                        self.data_left -= 1;
                        self.set("V%", 1);
                    }
                }
                Go::Fall
            }
            L::If(c) => {
                if self.cond(&c)? { Go::Fall } else { Go::Clause(self.k.next_clause[&pc]) }
            }
            L::ElseIf(c) => {
                if !eval {
                    Go::To(self.k.end_of[&pc])
                } else if self.cond(&c)? {
                    Go::Fall
                } else {
                    Go::Clause(self.k.next_clause[&pc])
                }
            }
            L::Else => {
                if !eval { Go::To(self.k.end_of[&pc]) } else { Go::Fall }
            }
            L::For { var, from, to, step } => {
                let lim = self.ex(&to)?;
                let st = step.unwrap_or(1);
                self.set(&var, from);
                if st == 0 {
                    // ForLoopZeroStep: the FOR statement fails (after the counter has its start value)
                    return Err(258);
                }
                self.for_state.insert(pc, (lim, st));
                let x = self.get(&var);
                if (st >= 0 && x > lim) || (st < 0 && x < lim) { Go::To(self.k.mate[&pc] + 1) } else { Go::Fall }
            }
            L::Next => {
                let f = self.k.mate[&pc];
                let var = match &self.p.lines[f].1 {
                    L::For { var, .. } => var.clone(),
                    _ => unreachable!(),
                };
                match self.for_state.get(&f).copied() {
                    // the FOR statement never completed (its header failed and was skipped): the loop is over
                    None => Go::Fall,
                    Some((lim, st)) => {
                        let x = self.get(&var) + st;
                        if !(-32768..=32767).contains(&x) {
                            return Err(6);
                        }
                        self.set(&var, x);
                        if (st >= 0 && x > lim) || (st < 0 && x < lim) {
                            self.for_state.remove(&f);
                            Go::Fall
                        } else {
                            Go::To(f + 1)
                        }
                    }
                }
            }
            L::While(c) => {
                if self.cond(&c)? { Go::Fall } else { Go::To(self.k.mate[&pc] + 1) }
            }
            L::Wend => Go::To(self.k.mate[&pc]),
            L::Do(None) => Go::Fall,
            L::Do(Some((until, c))) => {
                if self.cond(&c)? != until { Go::Fall } else { Go::To(self.k.mate[&pc] + 1) }
            }
            L::Loop(None) => Go::To(self.k.mate[&pc]),
            L::Loop(Some((until, c))) => {
                if self.cond(&c)? != until { Go::To(self.k.mate[&pc]) } else { Go::Fall }
            }
            L::Select(e) => {
                let v = self.ex(&e)?;
                self.select_val = Some(v);
                Go::Clause(self.k.next_clause[&pc])
            }
            L::Case(vs) => {
                if !eval {
                    Go::To(self.k.end_of[&pc])
                } else if vs.contains(&self.select_val.unwrap_or(i32::MIN)) {
                    Go::Fall
                } else {
                    Go::Clause(self.k.next_clause[&pc])
                }
            }
            L::CaseElse => {
                if !eval { Go::To(self.k.end_of[&pc]) } else { Go::Fall }
            }
            L::Goto(n) => Go::To(self.label(&n)),
            L::Gosub(n) => {
                self.gosub.push(pc + 1);
                Go::To(self.label(&n))
            }
            // only a GOSUB of the running procedure can be answered (37cc5db): those pending in the callers are
            // below the height recorded at the call
            L::Return(_) if self.gosub.len() <= self.frames.last().map(|f| f.gosub_mark).unwrap_or(0) => return Err(3),
            L::Return(ol) => match self.gosub.pop() {
                None => return Err(3),
                Some(r) => match ol {
                    None => Go::To(r),
                    Some(n) => Go::To(self.label(&n)),
                },
            },
            L::OnErrGoto(n) => {
                self.h = H::Addr(self.label(&n));
                Go::Fall
            }
            L::OnErrNext => {
                self.h = H::Next;
                Go::Fall
            }
            L::OnErrZero => {
                self.h = H::None;
                Go::Fall
            }
            L::Resume | L::ResumeNext | L::ResumeLabel(_) => {
                let e = self.err_line.take();
                self.err_code = 0;
                match e {
                    None => return Err(20),
                    Some(e) => match l {
                        L::Resume => {
                            if self.err_eval { Go::Clause(e) } else { Go::To(e) }
                        }
                        L::ResumeNext => Go::To(self.after_failed(e)),
                        L::ResumeLabel(n) => {
                            // the label lives at the module level: the procedures in progress are left
                            if self.frames.len() > 1 {
                                let mark = self.frames[1].gosub_mark;
                                self.gosub.truncate(mark);
                            }
                            self.frames.truncate(1);
                            Go::To(self.label(&n))
                        }
                        _ => unreachable!(),
                    },
                }
            }
            L::Call(s, arg) => {
                let x = match &arg {
                    Some(e) => Some(self.ex(e)?),
                    None => None,
                };
                let mut locals = HashMap::new();
                if let Some(x) = x {
                    locals.insert("X%".to_owned(), x);
                }
                self.frames.push(Frame { ret: pc + 1, locals, call_row: pc + 1, assign_result: None, gosub_mark: self.gosub.len() });
                Go::To(self.k.subs[&s] + 1)
            }
            L::AssignFn(f) => {
                let mut locals = HashMap::new();
                locals.insert("X%".to_owned(), 1);
                self.frames.push(Frame { ret: pc + 1, locals, call_row: pc + 1, assign_result: Some(f.clone()), gosub_mark: self.gosub.len() });
                self.g.insert(format!("result:{}", self.frames.len()), 0);
                Go::To(self.k.subs[&f] + 1)
            }
            L::SetFnResult(_, k) => {
                self.g.insert(format!("result:{}", self.frames.len()), k);
                Go::Fall
            }
            L::End => Go::Halt,
            L::Sub(..) | L::Function(_) => Go::Halt, // the module-level code ends where the procedures begin
            L::EndSub | L::EndFunction | L::ExitSub | L::ExitFunction => {
                if self.frames.len() <= 1 {
                    return Ok(Go::Halt);
                }
                let depth = self.frames.len();
                let f = self.frames.pop().unwrap();
                self.gosub.truncate(f.gosub_mark);
                if f.assign_result.is_some() {
                    let r = *self.g.get(&format!("result:{}", depth)).unwrap_or(&0);
                    self.g.insert("V%".to_owned(), r);
                }
                Go::To(f.ret)
            }
        })
    }

    fn run(mut self, budget: usize) -> RefRun {
        let mut pc = 0usize;
        let mut eval = false;
        let mut steps = 0usize;
        let end = loop {
            if pc >= self.p.lines.len() {
                break End::Ok;
            }
            steps += 1;
            if steps > budget {
                break End::Budget;
            }
            match self.exec(pc, eval) {
                Ok(go) => {
                    let was_eval = eval;
                    let _ = was_eval;
                    eval = false;
                    match go {
                        Go::Fall => pc += 1,
                        Go::To(n) => pc = n,
                        Go::Clause(n) => {
                            pc = n;
                            eval = true;
                        }
                        Go::Halt => break End::Ok,
                    }
                }
                Err(code) => {
                    match self.h {
                        H::Addr(a) => {
                            if self.err_line.is_some() {
                                break End::OutOfScope("error while a handler is active");
                            }
                            self.err_line = Some(pc);
                            self.err_eval = eval;
                            self.err_code = code;
                            pc = a;
                            eval = false;
                        }
                        H::Next => {
                            if self.err_line.is_some() {
                                break End::OutOfScope("error while a handler is active");
                            }
                            self.err_code = code;
                            pc = self.after_failed(pc);
                            eval = false;
                        }
                        H::None => {
                            let mut rows = vec![pc + 1];
                            // the handler runs at the module level, but the calls in progress are still there
                            for f in self.frames.iter().skip(1).rev() {
                                rows.push(f.call_row);
                            }
                            break End::Err(code, rows);
                        }
                    }
                }
            }
        };
        RefRun { out: self.out, end }
    }
}

fn run_ref(p: &Prog, budget: usize) -> Option<RefRun> {
    let k = link(p)?;
    // every referenced label / procedure must exist
    for (_, l) in &p.lines {
        match l {
            L::Goto(n) | L::Gosub(n) | L::Return(Some(n)) | L::OnErrGoto(n) | L::ResumeLabel(n) => {
                if !k.labels.contains_key(n) {
                    return None;
                }
            }
            L::Call(n, _) | L::AssignFn(n) => {
                if !k.subs.contains_key(n) {
                    return None;
                }
            }
            _ => {}
        }
    }
    let data_left = p.lines.iter().filter(|(_, l)| *l == L::Data).count();
    let r = Ref {
        p,
        k,
        g: HashMap::new(),
        frames: vec![Frame { ret: 0, locals: HashMap::new(), call_row: 0, assign_result: None, gosub_mark: 0 }],
        gosub: vec![],
        h: H::None,
        err_line: None,
        err_eval: false,
        err_code: 0,
        out: String::new(),
        for_state: HashMap::new(),
        select_val: None,
        data_left,
    };
    Some(r.run(budget))
}

// ------------------------------------------------------------------------------------------------
// the real run
// ------------------------------------------------------------------------------------------------

#[derive(Clone, Debug, PartialEq)]
enum RealEnd {
    Ok,
    Err(i32, Vec<usize>),
    Budget,
    Panic,
}

#[derive(Clone, Debug, PartialEq)]
struct Snap {
    pc: usize,
    gosub: Vec<usize>,
    ret: Vec<usize>,
    hk: u8,
    ha: usize,
    ea: Option<usize>,
    ec: Option<i32>,
    regs: usize,
    row: usize,
    call_rows: Vec<usize>,
    /// heights of the value stack and of the variable-path stack
    vals: usize,
    paths: usize,
    /// `go_sub_marks`, `return_marks`, `last_error_marks` (hook commit `verif hook: … marks`), oldest first
    gm: Vec<(usize, usize)>,
    rm: Vec<(usize, usize, usize, usize)>,
    em: Option<(usize, usize)>,
}

struct RealRun {
    out: String,
    end: RealEnd,
    snaps: Vec<Snap>,
    capped: bool,
    /// (code sexp, addrs sexp, binary-search table sexp, control class per pc, jump target per pc)
    code: String,
    addrs: String,
    table: String,
    class: Vec<u8>,
    target: Vec<usize>,
    /// per pc: b'u' PushRegisters, b'o' PopRegisters, b'c' PushRet, b'r' PopRet, b'l' ResumeLabel, b'g' GoSub,
    /// b't' Return, b'w' anything else
    frame_op: Vec<u8>,
    /// per pc of a `ResumeLabel`: the FOR depth the generator recorded for the target address
    /// (`label_depths`, 1a4d83d)
    resume_fd: Vec<Option<usize>>,
    /// per pc: is it a recorded statement address
    stmt_start: Vec<bool>,
}

const SNAP_CAP: usize = 3000;

fn rows_of(dbg: &str) -> Vec<usize> {
    let mut rows = vec![];
    let mut rest = dbg;
    while let Some(i) = rest.find("row: ") {
        rest = &rest[i + 5..];
        let n: String = rest.chars().take_while(|c| c.is_ascii_digit()).collect();
        if let Ok(v) = n.parse() {
            rows.push(v);
        }
    }
    rows
}

fn run_real(text: &str, want_trace: bool, budget: u64) -> Result<RealRun, String> {
    let t = text.to_owned();
    let compiled = std::panic::catch_unwind(move || compile(&t));
    let (res, udt) = match compiled {
        Ok(Ok(x)) => x,
        Ok(Err(e)) => return Err(format!("{:?}", e)),
        Err(_) => return Err("PANIC in the front end".into()),
    };
    let (code, addrs) = if want_trace { instr_sx::program(&res) } else { (String::new(), String::new()) };
    let n = res.instructions.len();
    let mut class = vec![0u8; n];
    let mut target = vec![0usize; n];
    let frame_op: Vec<u8> = res
        .instructions
        .iter()
        .map(|ip| match ip.element {
            Instruction::PushRegisters => b'u',
            Instruction::PopRegisters => b'o',
            Instruction::PushRet(_) => b'c',
            Instruction::PopRet => b'r',
            Instruction::ResumeLabel(_) => b'l',
            Instruction::Resume | Instruction::ResumeNext => b'n',
            Instruction::GoSub(_) => b'g',
            Instruction::Return(_) => b't',
            _ => b'w',
        })
        .collect();
    let resume_fd: Vec<Option<usize>> = res
        .instructions
        .iter()
        .map(|ip| match &ip.element {
            Instruction::ResumeLabel(AddressOrLabel::Resolved(a)) => res.label_depths.get(a).map(|d| d.0),
            _ => None,
        })
        .collect();
    let mut stmt_start = vec![false; n + 1];
    for a in &res.statement_addresses {
        // the implicit declarations of variables are hoisted to the start of the module / procedure and
        // carry the position of the first use: not statement starts of the source
        let hoisted = matches!(
            res.instructions.get(*a).map(|ip| &ip.element),
            Some(Instruction::AllocateBuiltIn(_))
                | Some(Instruction::AllocateFixedLengthString(_))
                | Some(Instruction::AllocateArrayIntoA(_))
                | Some(Instruction::AllocateUserDefined(_))
        );
        if *a <= n && !hoisted {
            stmt_start[*a] = true;
        }
    }
    for (i, ip) in res.instructions.iter().enumerate() {
        let (c, t) = match &ip.element {
            Instruction::JumpIfFalse(AddressOrLabel::Resolved(a)) => (1, *a),
            Instruction::Jump(_)
            | Instruction::GoSub(_)
            | Instruction::Return(_)
            | Instruction::OnErrorGoTo(_)
            | Instruction::OnErrorResumeNext
            | Instruction::OnErrorGoToZero
            | Instruction::Resume
            | Instruction::ResumeNext
            | Instruction::ResumeLabel(_)
            | Instruction::Halt
            | Instruction::PushRet(_)
            | Instruction::PopRet => (2, 0),
            _ => (0, 0),
        };
        class[i] = c;
        target[i] = t;
    }
    let table = if want_trace {
        let mut s = String::from("(");
        for a in 0..=n {
            match res.statement_addresses.binary_search(&a) {
                Ok(i) => s.push_str(&format!("(ok {})", i)),
                Err(i) => s.push_str(&format!("(err {})", i)),
            }
        }
        s.push(')');
        s
    } else {
        String::new()
    };
    let snaps: Rc<RefCell<(Vec<Snap>, bool)>> = Rc::new(RefCell::new((vec![], false)));
    let obs: Option<Box<dyn FnMut(&Snapshot)>> = if want_trace {
        let s2 = snaps.clone();
        Some(Box::new(move |s: &Snapshot| {
            let mut v = s2.borrow_mut();
            if v.0.len() < SNAP_CAP {
                v.0.push(Snap {
                    pc: s.pc,
                    gosub: s.go_sub_address_stack.clone(),
                    ret: s.return_address_stack.clone(),
                    hk: s.handler_kind,
                    ha: s.handler_address,
                    ea: s.last_error_address,
                    ec: s.last_error_code,
                    regs: s.register_stack,
                    row: s.row as usize,
                    call_rows: s.stacktrace.iter().map(|(r, _)| *r as usize).collect(),
                    vals: s.value_stack,
                    paths: s.var_path_stack,
                    gm: s.go_sub_marks.clone(),
                    rm: s.return_marks.clone(),
                    em: s.error_marks,
                });
            } else {
                v.1 = true;
            }
        }))
    } else {
        None
    };
    let run = std::panic::catch_unwind(std::panic::AssertUnwindSafe(|| run_instructions(res, udt, b"", budget, obs, false)));
    let (out, end) = match run {
        Err(_) => (String::new(), RealEnd::Panic),
        Ok(rr) => {
            let out = String::from_utf8_lossy(&rr.stdout).replace("\r\n", "\n");
            let end = if rr.budget_exhausted {
                RealEnd::Budget
            } else {
                match &rr.result {
                    Ok(()) => RealEnd::Ok,
                    Err(e) => RealEnd::Err(rr.last_error_code.unwrap_or(-1), rows_of(&format!("{:?}", e))),
                }
            };
            (out, end)
        }
    };
    let (sn, capped) = {
        let b = snaps.borrow();
        (b.0.clone(), b.1)
    };
    Ok(RealRun { out, end, snaps: sn, capped, code, addrs, table, class, target, frame_op, resume_fd, stmt_start })
}

/// the events the Lean machine is driven with, derived from consecutive snapshots
fn events(r: &RealRun) -> (String, usize) {
    let n = r.snaps.len();
    let finished = !r.capped && matches!(r.end, RealEnd::Ok | RealEnd::Err(..));
    let n_ev = if finished { n } else { n.saturating_sub(1) };
    let mut s = String::from("(");
    for k in 0..n_ev {
        let cur = &r.snaps[k];
        let cls = r.class.get(cur.pc).copied().unwrap_or(0);
        if k > 0 {
            s.push(' ');
        }
        if cls == 2 {
            s.push('o');
            continue;
        }
        match r.snaps.get(k + 1) {
            Some(next) => {
                let normal_pc = next.pc == cur.pc + 1 || (cls == 1 && next.pc == r.target[cur.pc]);
                let err = next.ec != cur.ec || next.ea != cur.ea || !normal_pc;
                if err {
                    s.push_str(&format!("(e {})", next.ec.unwrap_or(-1)));
                } else if cls == 1 {
                    s.push(if next.pc == r.target[cur.pc] && next.pc != cur.pc + 1 { 'f' } else { 't' });
                } else {
                    s.push('o');
                }
            }
            None => match &r.end {
                RealEnd::Err(c, _) => s.push_str(&format!("(e {})", c)),
                _ => s.push(if cls == 1 { 't' } else { 'o' }),
            },
        }
    }
    s.push(')');
    (s, n_ev)
}

fn snap_str(s: &Snap) -> String {
    fn l(v: &[usize]) -> String {
        format!("({})", v.iter().map(|x| x.to_string()).collect::<Vec<_>>().join(" "))
    }
    format!(
        "({} {} {} {} {} {} {})",
        s.pc,
        l(&s.gosub),
        l(&s.ret),
        s.hk,
        s.ha,
        s.ea.map(|x| x.to_string()).unwrap_or("-".into()),
        s.ec.map(|x| x.to_string()).unwrap_or("-".into())
    )
}

/// the top-level elements of `(e1 e2 ...)`
fn split_top(s: &str) -> Vec<String> {
    let inner = s.trim();
    let inner = inner.strip_prefix('(').unwrap_or(inner);
    let inner = inner.strip_suffix(')').unwrap_or(inner);
    let mut out = vec![];
    let mut depth = 0i32;
    let mut cur = String::new();
    for ch in inner.chars() {
        match ch {
            '(' => {
                depth += 1;
                cur.push(ch);
            }
            ')' => {
                depth -= 1;
                cur.push(ch);
            }
            ' ' if depth == 0 => {
                if !cur.is_empty() {
                    out.push(std::mem::take(&mut cur));
                }
            }
            _ => cur.push(ch),
        }
    }
    if !cur.is_empty() {
        out.push(cur);
    }
    out
}

/// ImplVsProperty, on the real snapshots alone (hook: `go_sub_marks`, `return_marks`, `error_marks`): the recorded
/// heights belong to the address stacks entry by entry, what is recorded is the height of the moment, and a height
/// that is about to be used (RETURN, PopRet, RESUME, RESUME NEXT, RESUME label) is not above its stack.
/// Returns the first violation of the run.
fn marks_invariants(real: &RealRun, sig: &str, text: &str, rep: &mut Report) -> Option<Failure> {
    let fam = sig.split(':').next().unwrap_or("");
    let fail = |what: &str, k: usize, sn: &Snap, got: String, want: String| Failure {
        kind: Kind::ImplVsProperty,
        signature: format!("marks-invariant:{}:{}", what, fam),
        input: text.to_owned(),
        implementation: format!(
            "step {} (pc {}, row {}): {}; register / value / variable-path heights {} / {} / {}, go_sub_address_stack {:?}, go_sub_marks {:?}, \
             return_address_stack {:?}, return_marks {:?}, last_error_address {:?}, last_error_marks {:?}",
            k, sn.pc, sn.row, got, sn.regs, sn.vals, sn.paths, sn.gosub, sn.gm, sn.ret, sn.rm, sn.ea, sn.em
        ),
        expected: want,
        note: "go_sub_marks / return_marks are pushed, popped and truncated together with go_sub_address_stack / return_address_stack \
               (interpreter/main.rs: GoSub, Return, PushRet, PopRet, ResumeLabel); the heights are those of the moment of the GoSub / \
               PushRet / dispatch"
            .into(),
    };
    rep.bump_by("marks.snapshots-checked", real.snaps.len() as u64);
    for (k, sn) in real.snaps.iter().enumerate() {
        if sn.gm.len() != sn.gosub.len() {
            return Some(fail(
                "gosub-marks-length",
                k,
                sn,
                format!("{} entries in go_sub_marks, {} in go_sub_address_stack", sn.gm.len(), sn.gosub.len()),
                "go_sub_marks.len() == go_sub_address_stack.len() before every instruction".into(),
            ));
        }
        if sn.rm.len() != sn.ret.len() {
            return Some(fail(
                "return-marks-length",
                k,
                sn,
                format!("{} entries in return_marks, {} in return_address_stack", sn.rm.len(), sn.ret.len()),
                "return_marks.len() == return_address_stack.len() before every instruction".into(),
            ));
        }
        let op = real.frame_op.get(sn.pc).copied().unwrap_or(b'w');
        // ---- a recorded height that is about to be used is not above its stack
        match op {
            b't' if sn.gosub.len() > sn.rm.last().map(|m| m.1).unwrap_or(0) => {
                rep.bump("marks.uses-checked.return");
                if let Some((r, v)) = sn.gm.last().copied() {
                    if r > sn.regs || v > sn.vals {
                        return Some(fail(
                            "return-above-stack",
                            k,
                            sn,
                            format!("RETURN is about to cut back to ({}, {})", r, v),
                            "the heights recorded by the GOSUB are at most the present heights of the register and value stacks".into(),
                        ));
                    }
                }
            }
            b'r' => {
                rep.bump("marks.uses-checked.popret");
                if let Some((r, g, v, p)) = sn.rm.last().copied() {
                    if r > sn.regs || g > sn.gosub.len() || v > sn.vals || p > sn.paths {
                        return Some(fail(
                            "popret-above-stack",
                            k,
                            sn,
                            format!("PopRet is about to cut back to ({}, {}, {}, {})", r, g, v, p),
                            "the heights recorded by PushRet are at most the present heights of the register, GOSUB, value and variable-path stacks".into(),
                        ));
                    }
                }
            }
            b'n' if sn.ea.is_some() => {
                rep.bump("marks.uses-checked.resume");
                match sn.em {
                    Some((r, v)) if r <= sn.regs && v <= sn.vals => {}
                    _ => {
                        return Some(fail(
                            "resume-above-stack",
                            k,
                            sn,
                            format!("RESUME / RESUME NEXT is about to cut back to {:?}", sn.em),
                            "the heights recorded at the dispatch are at most the present heights of the register and value stacks".into(),
                        ));
                    }
                }
            }
            b'l' if sn.ea.is_some() => {
                rep.bump("marks.uses-checked.resume-label");
                if let Some((r, g, _, _)) = sn.rm.first().copied() {
                    if r > sn.regs || g > sn.gosub.len() {
                        return Some(fail(
                            "resume-label-above-stack",
                            k,
                            sn,
                            format!("RESUME label is about to cut back to ({}, {})", r, g),
                            "the heights recorded by the outermost PushRet are at most the present heights of the register and GOSUB stacks".into(),
                        ));
                    }
                }
            }
            _ => {}
        }
        // ---- what is recorded is the height of the moment
        let Some(nx) = real.snaps.get(k + 1) else { continue };
        let dispatched = sn.hk == 2 && nx.pc == sn.ha && nx.ea == Some(sn.pc);
        if dispatched {
            rep.bump("marks.records-checked.dispatch");
            // the handler's own frame is pushed after the heights are taken (df9ea58)
            if nx.em != Some((nx.regs.wrapping_sub(1), nx.vals)) {
                return Some(fail(
                    "dispatch-records",
                    k + 1,
                    nx,
                    format!("after the dispatch of the error at pc {} last_error_marks is {:?}", sn.pc, nx.em),
                    format!("({}, {}): the heights of the register stack (below the handler's own frame) and of the value stack", nx.regs.wrapping_sub(1), nx.vals),
                ));
            }
            continue;
        }
        let failed = nx.ec != sn.ec || nx.ea != sn.ea;
        if failed {
            continue;
        }
        match op {
            b'g' => {
                rep.bump("marks.records-checked.gosub");
                let mut want = sn.gm.clone();
                want.push((sn.regs, sn.vals));
                if nx.gm != want {
                    return Some(fail(
                        "gosub-records",
                        k + 1,
                        nx,
                        format!("after the GoSub at pc {} go_sub_marks is {:?}", sn.pc, nx.gm),
                        format!("{:?}: the entries there were + the heights of the register and value stacks at the GoSub", want),
                    ));
                }
            }
            b'c' => {
                rep.bump("marks.records-checked.pushret");
                let mut want = sn.rm.clone();
                want.push((sn.regs, sn.gosub.len(), sn.vals, sn.paths));
                if nx.rm != want {
                    return Some(fail(
                        "pushret-records",
                        k + 1,
                        nx,
                        format!("after the PushRet at pc {} return_marks is {:?}", sn.pc, nx.rm),
                        format!("{:?}: the entries there were + the heights of the register, GOSUB, value and variable-path stacks at the PushRet", want),
                    ));
                }
            }
            _ => {}
        }
    }
    None
}

struct Pending {
    sig: String,
    text: String,
    req: String,
    expect_states: Vec<String>,
    expect_outcome: Option<String>,
}

struct Ctx {
    rep: Report,
    pending: Vec<Pending>,
    /// (signature, program, request, expected answer)
    pending_frames: Vec<(String, String, String, String)>,
    jobs: Vec<Job>,
    model_every: usize,
    counter: usize,
    /// failures of the ON ERROR matrix, aggregated before they are reported: (kind, position, mode) -> failure
    matrix_fail: BTreeMap<(String, String, String), Failure>,
    matrix_seen: BTreeMap<(String, String, String), bool>,
}

fn end_str_ref(e: &End) -> String {
    match e {
        End::Ok => "ends normally".into(),
        End::Err(c, rows) => format!("ends with error {} at rows {:?}", c, rows),
        End::Budget => "(still running)".into(),
        End::OutOfScope(w) => format!("(out of scope: {})", w),
    }
}

fn end_str_real(e: &RealEnd) -> String {
    match e {
        RealEnd::Ok => "ends normally".into(),
        RealEnd::Err(c, rows) => format!("ends with error {} at rows {:?}", c, rows),
        RealEnd::Budget => "does not terminate (instruction budget exhausted)".into(),
        RealEnd::Panic => "PANIC".into(),
    }
}

struct Job {
    p: Prog,
    sig: String,
    class: String,
    trace: bool,
    matrix_key: Option<(String, String, String)>,
    big: bool,
    /// check `register stack height = 1 + enclosing FOR statements` at every statement start
    frames: bool,
}

struct Done {
    text: String,
    rf: Option<RefRun>,
    real: Option<Result<RealRun, String>>,
}

fn compute(job: &Job) -> Done {
    let text = job.p.text();
    // (reference lines, real instructions): the deeper nests of the target-layout family need more room
    let (b_ref, b_real) = if job.big { (5_000, 150_000) } else { (2_000, 60_000) };
    let Some(rf) = run_ref(&job.p, b_ref) else {
        return Done { text, rf: None, real: None };
    };
    let real = run_real(&text, job.trace, b_real);
    Done { text, rf: Some(rf), real: Some(real) }
}

/// Records one program's outcome; returns the ImplVsProperty failure, if any.
fn record(cx: &mut Ctx, job: &Job, done: Done) -> Option<Failure> {
    let sig = job.sig.as_str();
    let Some(rf) = done.rf else {
        cx.rep.bump("skipped.ill-formed-skeleton");
        return None;
    };
    let text = done.text;
    let real = match done.real.unwrap() {
        Ok(r) => r,
        Err(e) => {
            if e.starts_with("PANIC") {
                cx.rep.case(Some(text.clone()));
                return Some(Failure {
                    kind: Kind::ImplVsProperty,
                    signature: format!("{}:front-end-panic", sig),
                    input: text,
                    implementation: e,
                    expected: "the program is accepted".into(),
                    note: String::new(),
                });
            }
            cx.rep.bump("skipped.rejected-by-front-end");
            if std::env::var("VERIF_C05_DEBUG").is_ok() {
                eprintln!("REJECTED {}\n{}", e, text);
            }
            return None;
        }
    };
    cx.rep.case(Some(text.clone()));
    if cx.rep.samples.len() < 6 && cx.rep.evaluations % 397 == 1 {
        cx.rep.sample(J::obj([("signature", J::s(sig)), ("program", J::s(text.clone())), ("prints", J::s(real.out.clone()))]));
    }
    if let Some((k, p, m)) = &job.matrix_key {
        cx.matrix_seen.insert((k.clone(), p.clone(), m.clone()), true);
        cx.rep.bump(&format!("onerr-kind.{}", k));
        cx.rep.bump(&format!("onerr-position.{}", p));
    }
    cx.rep.bump(&format!("class.{}", job.class));
    cx.rep.bump(&format!(
        "outcome.{}",
        match &rf.end {
            End::Ok => "ok".to_owned(),
            End::Err(c, _) => format!("error-{}", c),
            End::Budget => "runs-forever".to_owned(),
            End::OutOfScope(_) => "out-of-scope".to_owned(),
        }
    ));
    // ---- register frames
    if job.trace && !real.snaps.is_empty() {
        // ModelVsImpl: the stack height before every executed instruction, by the Lean frame model
        let ops: Vec<String> = real
            .snaps
            .iter()
            .enumerate()
            .map(|(k, sn)| match real.frame_op.get(sn.pc) {
                // the instruction fails and the error is handed to the ON ERROR GOTO handler (the next instruction executed is
                // the handler's first, the failing address is recorded): the height is recorded, the handler gets a frame of
                // its own (dee4bd6, df9ea58)
                _ if sn.hk == 2
                    && real.snaps.get(k + 1).map(|nx| nx.pc == sn.ha && nx.ea == Some(sn.pc)).unwrap_or(false) =>
                {
                    "e".to_owned()
                }
                // RESUME / RESUME NEXT with an error to resume from: back to the recorded height
                Some(b'n') if sn.ea.is_some() => "n".to_owned(),
                Some(b'u') => "u".to_owned(),
                Some(b'o') => "o".to_owned(),
                Some(b'c') => "c".to_owned(),
                Some(b'r') => "r".to_owned(),
                // RESUME label leaves the procedures (and the loops the label is not in) only when there
                // is an error to resume from
                Some(b'l') if sn.ea.is_some() => match real.resume_fd.get(sn.pc).copied().flatten() {
                    Some(d) => format!("(l {})", d),
                    None => "l".to_owned(),
                },
                Some(b'g') => "g".to_owned(),
                // RETURN restores the height recorded by the GOSUB it answers (8f09b9b); without one of the running
                // procedure it fails (37cc5db: the GOSUBs of the callers, counted by the innermost `return_marks`
                // entry, are not its own)
                Some(b't') if sn.gosub.len() > sn.rm.last().map(|m| m.1).unwrap_or(0) => "t".to_owned(),
                _ => "w".to_owned(),
            })
            .collect();
        // the model's state: height, the register heights recorded by the pending GOSUBs (most recent first), the
        // (register, GOSUB) heights recorded by the calls in progress (innermost first), the register height recorded
        // at the last dispatch to a handler — against register_stack.len(), go_sub_marks[..].0, return_marks[..].(0, 1),
        // last_error_marks.0
        let want: Vec<String> = real
            .snaps
            .iter()
            .map(|sn| {
                format!(
                    "({} ({}) ({}) {})",
                    sn.regs,
                    sn.gm.iter().rev().map(|m| m.0.to_string()).collect::<Vec<_>>().join(" "),
                    sn.rm.iter().rev().map(|m| format!("({} {})", m.0, m.1)).collect::<Vec<_>>().join(" "),
                    sn.em.map(|m| m.0.to_string()).unwrap_or("-".into())
                )
            })
            .collect();
        cx.pending_frames.push((sig.to_owned(), text.clone(), format!("(frames.states ({}))", ops.join(" ")), format!("({})", want.join(" "))));
        if let Some(f) = marks_invariants(&real, sig, &text, &mut cx.rep) {
            cx.rep.fail(f);
        }
    }
    if job.frames && job.trace {
        // ImplVsProperty (the typing of Thm.C05.frames_intact): at the first instruction of every statement
        // the height is 1 + the FOR statements enclosing it + those enclosing the calls in progress
        let mut depth = vec![0usize; job.p.lines.len()];
        let mut d = 0usize;
        for (i, (_, l)) in job.p.lines.iter().enumerate() {
            match l {
                L::For { .. } => {
                    depth[i] = d;
                    d += 1;
                }
                L::Next => {
                    d = d.saturating_sub(1);
                    depth[i] = d;
                }
                _ => depth[i] = d,
            }
        }
        for sn in &real.snaps {
            if !real.stmt_start.get(sn.pc).copied().unwrap_or(false) || sn.row == 0 || sn.row > job.p.lines.len() {
                continue;
            }
            // the extra marks of FOR (before PopRegisters, the resume point of the header) and of procedure
            // ends carry the position of the FOR / SUB statement: not statement starts of the source
            if matches!(job.p.lines[sn.row - 1].1, L::For { .. } | L::Next | L::Sub(..) | L::Function(_) | L::EndSub | L::EndFunction) {
                continue;
            }
            let mut expected = 1 + depth[sn.row - 1];
            for r in &sn.call_rows {
                if *r >= 1 && *r <= depth.len() {
                    expected += depth[*r - 1];
                }
            }
            cx.rep.bump("frames.statement-starts-checked");
            if sn.regs != expected {
                cx.rep.fail(Failure {
                    kind: Kind::ImplVsProperty,
                    signature: format!("frame-depth:{}", sig),
                    input: text.clone(),
                    implementation: format!("register stack height {} at row {} (pc {})", sn.regs, sn.row, sn.pc),
                    expected: format!("height {} = 1 + enclosing FOR statements (+ those around the calls in progress, rows {:?})", expected, sn.call_rows),
                    note: "the frame discipline proved in Thm/C05Frames.lean needs PushRegisters / PopRegisters to follow the loop depth on every edge".into(),
                });
                break;
            }
        }
    }
    // ---- ModelVsImpl: queue the machine run (for the GOTO families: one traced program in eight)
    if job.trace && !real.snaps.is_empty() && (!job.frames || text.len() % 8 == 0) {
        let (evs, n_ev) = events(&real);
        let finished = n_ev == real.snaps.len();
        let expect_outcome = if !finished {
            Some("(running)".to_owned())
        } else {
            match &real.end {
                RealEnd::Ok => Some(format!("(halted {})", real.snaps.last().unwrap().pc)),
                RealEnd::Err(c, _) => Some(format!("(failed {} {})", c, real.snaps.last().unwrap().pc)),
                _ => None,
            }
        };
        cx.pending.push(Pending {
            sig: sig.to_owned(),
            text: text.clone(),
            req: format!("(ctl.run {} {} {} {})", real.code, real.addrs, real.table, evs),
            expect_states: real.snaps.iter().map(snap_str).collect(),
            expect_outcome,
        });
    }
    // ---- ImplVsProperty
    let fail = |what: &str| Failure {
        kind: Kind::ImplVsProperty,
        signature: format!("{}:{}", sig, what),
        input: text.clone(),
        implementation: format!("prints {:?}, {}", real.out.replace('\n', "|"), end_str_real(&real.end)),
        expected: format!("prints {:?}, {}", rf.out.replace('\n', "|"), end_str_ref(&rf.end)),
        note: "reference = line-based interpreter of the token language (harness/src/bin/c05.rs)".into(),
    };
    match (&rf.end, &real.end) {
        (End::OutOfScope(_), _) => None,
        (_, RealEnd::Panic) => Some(fail("panic")),
        (End::Budget, _) => None,
        (_, RealEnd::Budget) => Some(fail("no-termination")),
        (End::Ok, RealEnd::Ok) => {
            if rf.out == real.out { None } else { Some(fail("order")) }
        }
        (End::Err(c, rows), RealEnd::Err(c2, rows2)) => {
            if rf.out != real.out {
                Some(fail("order"))
            } else if c != c2 {
                Some(fail("error-code"))
            } else if rows != rows2 {
                Some(fail("error-position"))
            } else {
                None
            }
        }
        _ => Some(fail(if rf.out == real.out { "end" } else { "order" })),
    }
}

fn check(cx: &mut Ctx, p: &Prog, sig: &str, class: &str) {
    cx.counter += 1;
    let trace = cx.model_every > 0 && cx.counter % cx.model_every == 0;
    cx.jobs.push(Job { p: p.clone(), sig: sig.to_owned(), class: class.to_owned(), trace, matrix_key: None, big: false, frames: false });
}

const THREADS: usize = 8;

/// runs the queued programs (reference + real interpreter) on a few threads, records the outcomes in
/// order, then lets the Lean machine re-run the traced ones
fn run_jobs(cx: &mut Ctx) {
    let jobs = std::mem::take(&mut cx.jobs);
    for chunk in jobs.chunks(600) {
        let next = std::sync::atomic::AtomicUsize::new(0);
        let results: std::sync::Mutex<Vec<Option<Done>>> = std::sync::Mutex::new((0..chunk.len()).map(|_| None).collect());
        std::thread::scope(|sc| {
            for _ in 0..THREADS {
                sc.spawn(|| loop {
                    let i = next.fetch_add(1, std::sync::atomic::Ordering::SeqCst);
                    if i >= chunk.len() {
                        break;
                    }
                    let d = compute(&chunk[i]);
                    results.lock().unwrap()[i] = Some(d);
                });
            }
        });
        let results = results.into_inner().unwrap();
        for (job, d) in chunk.iter().zip(results.into_iter()) {
            let f = record(cx, job, d.expect("job result"));
            if let Some(mut f) = f {
                match &job.matrix_key {
                    Some(key) => {
                        f.note = format!("{} [{}]", f.note, f.signature);
                        cx.matrix_fail.insert(key.clone(), f);
                    }
                    None => cx.rep.fail(f),
                }
            }
        }
        flush_model(cx);
    }
}

fn flush_model(cx: &mut Ctx) {
    let pf = std::mem::take(&mut cx.pending_frames);
    if !pf.is_empty() {
        let reqs: Vec<String> = pf.iter().map(|p| p.2.clone()).collect();
        let answers = ask(&reqs);
        for ((sig, text, _, want), a) in pf.iter().zip(answers.iter()) {
            cx.rep.bump("model.frame-runs-compared");
            if a != want {
                let (wv, av) = (split_top(want), split_top(a));
                let k = wv.iter().zip(av.iter()).position(|(x, y)| x != y).unwrap_or(wv.len().min(av.len()));
                let none = String::from("-");
                let (w, m) = (wv.get(k).unwrap_or(&none), av.get(k).unwrap_or(&none));
                // the height itself, or only the recorded heights
                let height = |x: &str| x.trim_start_matches('(').split(' ').next().unwrap_or("").to_owned();
                let what = if height(w) != height(m) { "frame-machine" } else { "frame-machine-marks" };
                cx.rep.fail(Failure {
                    kind: Kind::ModelVsImpl,
                    signature: format!("{}:{}", what, sig.split(':').next().unwrap_or("")),
                    input: text.clone(),
                    implementation: format!("step {}: real {} (previous {})", k, w, if k > 0 { wv.get(k - 1).unwrap_or(&none) } else { &none }),
                    expected: format!("RbModel.Frames.states gives {}", m),
                    note: "state = (register stack height, go_sub_marks[..].0 most recent first, return_marks[..].(0 1) innermost first, last_error_marks.0); \
                           PushRegisters pushes a fresh frame, PopRegisters pops one, GoSub / PushRet / the dispatch to a handler record, \
                           Return / PopRet / RESUME cut back and drop what they recorded"
                        .into(),
                });
            } else {
                cx.rep.bump_by("model.frame-states-compared", split_top(want).len() as u64);
            }
        }
    }
    let pend = std::mem::take(&mut cx.pending);
    if pend.is_empty() {
        return;
    }
    let reqs: Vec<String> = pend.iter().map(|p| p.req.clone()).collect();
    let answers = ask(&reqs);
    for (p, a) in pend.iter().zip(answers.iter()) {
        cx.rep.bump("model.runs-compared");
        cx.rep.bump_by("model.states-compared", p.expect_states.len() as u64);
        let mut bad: Option<String> = None;
        if !a.starts_with("(ctl ") {
            bad = Some(format!("driver answered {}", a.chars().take(80).collect::<String>()));
        } else {
            // (ctl <adm> (<outcome>) (<states>))
            let rest = &a[5..];
            let adm = rest.starts_with('t');
            let rest = &rest[2..];
            let close = rest.find(')').unwrap_or(0);
            let outcome = &rest[..=close];
            let states_part = rest[close + 1..].trim();
            let states_inner = &states_part[1..states_part.len().saturating_sub(2)];
            let mut states: Vec<String> = vec![];
            let mut depth = 0;
            let mut cur = String::new();
            for ch in states_inner.chars() {
                if ch == '(' {
                    depth += 1;
                }
                if depth > 0 {
                    cur.push(ch);
                }
                if ch == ')' {
                    depth -= 1;
                    if depth == 0 {
                        states.push(std::mem::take(&mut cur));
                    }
                }
            }
            if !adm {
                bad = Some("an answer of the real binary_search violates the modelled contract".into());
            } else {
                for (k, want) in p.expect_states.iter().enumerate() {
                    match states.get(k) {
                        Some(got) if got == want => {}
                        other => {
                            bad = Some(format!(
                                "step {}: real VM state {} (previous {}), model {}",
                                k,
                                want,
                                if k > 0 { &p.expect_states[k - 1] } else { "-" },
                                other.map(|s| s.as_str()).unwrap_or("(no state: the model run ended earlier)")
                            ));
                            break;
                        }
                    }
                }
                if bad.is_none() {
                    if let Some(o) = &p.expect_outcome {
                        if o != outcome {
                            bad = Some(format!("the real run: {}, the model: {}", o, outcome));
                        }
                    }
                }
            }
        }
        if let Some(b) = bad {
            cx.rep.fail(Failure {
                kind: Kind::ModelVsImpl,
                signature: format!("ctl-machine:{}", p.sig.split(':').next().unwrap_or("")),
                input: p.text.clone(),
                implementation: b,
                expected: "RbModel.Ctl.run driven by the observed branch decisions / error events visits the same control states".into(),
                note: "state = (pc gosub-stack return-stack handler-kind handler-address error-address error-code)".into(),
            });
        }
    }
}

// ------------------------------------------------------------------------------------------------
// generators
// ------------------------------------------------------------------------------------------------

fn tok(t: &str) -> L {
    L::Tok(t.to_owned())
}
fn s(x: &str) -> String {
    x.to_owned()
}

// ---- A. skeletons (exhaustive label / jump / handler layouts)

const J_ALPHA: [&str; 10] = ["T", "LA", "LB", "GA", "GB", "SA", "SB", "R", "RA", "E"];
const E_ALPHA: [&str; 14] = ["T", "LA", "GA", "F", "OA", "ON", "OZ", "RS", "RN", "RL", "R", "SA", "E", "D1"];

fn sym_line(sym: &str, k: usize) -> L {
    match sym {
        "T" => L::Tok(format!("t{}", k)),
        "LA" => L::Label(s("LA")),
        "LB" => L::Label(s("LB")),
        "GA" => L::Goto(s("LA")),
        "GB" => L::Goto(s("LB")),
        "SA" => L::Gosub(s("LA")),
        "SB" => L::Gosub(s("LB")),
        "R" => L::Return(None),
        "RA" => L::Return(Some(s("LA"))),
        "E" => L::End,
        "F" => L::Fail(FK::AsgDiv),
        "OA" => L::OnErrGoto(s("LA")),
        "ON" => L::OnErrNext,
        "OZ" => L::OnErrZero,
        "RS" => L::Resume,
        "RN" => L::ResumeNext,
        "RL" => L::ResumeLabel(s("LA")),
        "D1" => L::Set(s("D%"), 1),
        _ => unreachable!(),
    }
}

fn skeleton_ok(syms: &[&str]) -> bool {
    let def_a = syms.iter().filter(|x| **x == "LA").count();
    let def_b = syms.iter().filter(|x| **x == "LB").count();
    if def_a > 1 || def_b > 1 {
        return false;
    }
    let use_a = syms.iter().any(|x| matches!(*x, "GA" | "SA" | "RA" | "OA" | "RL"));
    let use_b = syms.iter().any(|x| matches!(*x, "GB" | "SB"));
    if (use_a && def_a == 0) || (use_b && def_b == 0) {
        return false;
    }
    // a label nobody refers to only renames the program; B without A is A renamed
    if (def_a == 1 && !use_a) || (def_b == 1 && !use_b) || (def_b == 1 && def_a == 0) {
        return false;
    }
    // something must transfer control
    use_a || use_b || syms.iter().any(|x| matches!(*x, "R" | "F" | "RS" | "RN"))
}

fn skeleton_prog(syms: &[&str], in_sub: bool) -> Prog {
    let mut p = Prog::bare();
    if in_sub {
        p.push(L::Call(s("P"), None));
        p.push(tok("m"));
        p.push(L::Sub(s("P"), false));
    }
    for (k, sy) in syms.iter().enumerate() {
        p.push(sym_line(sy, k));
    }
    if in_sub {
        p.push(L::EndSub);
    }
    p
}

fn enumerate_skeletons(cx: &mut Ctx, rng: &mut Rng, alpha: &[&'static str], name: &str, len: usize, in_sub: bool, keep_1_in: u64) {
    let n = alpha.len();
    let total = n.pow(len as u32);
    let mut idx = vec![0usize; len];
    for code in 0..total {
        let mut c = code;
        for slot in idx.iter_mut() {
            *slot = c % n;
            c /= n;
        }
        let syms: Vec<&str> = idx.iter().map(|i| alpha[*i]).collect();
        if !skeleton_ok(&syms) {
            continue;
        }
        if keep_1_in > 1 && rng.below(keep_1_in) != 0 {
            continue;
        }
        let p = skeleton_prog(&syms, in_sub);
        let sig = format!("skeleton-{}{}:{}", name, if in_sub { "-in-sub" } else { "" }, syms.join("."));
        check(cx, &p, &sig, &format!("skeleton-{}{}-len{}", name, if in_sub { "-in-sub" } else { "" }, len));
    }
}

// ---- B. GOSUB nesting histories

fn gosub_history(rng: &mut Rng) -> (Prog, String) {
    let mut p = Prog::new();
    let k = rng.range(1, 4) as usize;
    let with_handler = rng.chance(1, 3);
    let fall_into = rng.chance(1, 5);
    let leak = rng.chance(1, 5);
    let ret_label = rng.chance(1, 4);
    let recursion = rng.chance(1, 3);
    if with_handler {
        p.push(L::OnErrGoto(s("HH")));
    }
    let n_main = rng.range(1, 4);
    for i in 0..n_main {
        p.push(L::Tok(format!("m{}", i)));
        p.push(L::Gosub(format!("R{}", rng.range(1, k as i64))));
    }
    if leak {
        // a subroutine that leaves by GOTO: its GOSUB stays pending, the next RETURN answers it
        p.push(L::Gosub(s("RLEAK")));
        p.push(tok("afterleak"));
        p.push(L::Label(s("BACK")));
        p.push(tok("back"));
        p.push(L::Add(s("G1%"), 1));
        p.push(L::If(Cond::Lt(s("G1%"), Ex::K(2))));
        p.push(L::Return(None));
        p.push(L::EndIf);
    }
    if ret_label {
        p.push(L::Gosub(s("RLBL")));
        p.push(tok("not-here"));
        p.push(L::Label(s("TARGET")));
        p.push(tok("target"));
    }
    if recursion {
        p.push(L::Set(s("N%"), 0));
        p.push(L::Gosub(s("RREC")));
        p.push(L::PrintVars(s("rec"), vec![s("N%")]));
    }
    p.push(tok("mainend"));
    if !fall_into {
        p.push(L::End);
    }
    for i in 1..=k {
        p.push(L::Label(format!("R{}", i)));
        p.push(L::Tok(format!("r{}a", i)));
        let n = rng.range(0, 2);
        for _ in 0..n {
            if i < k {
                p.push(L::Gosub(format!("R{}", rng.range(i as i64 + 1, k as i64))));
                p.push(L::Tok(format!("r{}b", i)));
            }
        }
        p.push(L::Return(None));
    }
    p.push(L::Label(s("RLEAK")));
    p.push(tok("leak"));
    p.push(L::Goto(s("BACK2")));
    p.push(L::Label(s("BACK2")));
    if leak {
        p.push(L::Goto(s("BACK")));
    } else {
        p.push(L::Return(None));
    }
    p.push(L::Label(s("RLBL")));
    p.push(tok("rlbl"));
    if ret_label {
        p.push(L::Return(Some(s("TARGET"))));
    } else {
        p.push(L::Return(None));
    }
    let depth = rng.range(1, 25) as i32;
    p.push(L::Label(s("RREC")));
    p.push(L::Add(s("N%"), 1));
    p.push(L::If(Cond::Lt(s("N%"), Ex::K(depth))));
    p.push(L::Gosub(s("RREC")));
    p.push(L::EndIf);
    p.push(L::Add(s("W%"), 1));
    p.push(L::Return(None));
    p.push(L::Label(s("HH")));
    p.push(L::PrintErr(s("h")));
    p.push(L::ResumeNext);
    let sig = format!(
        "gosub-history:{}{}{}{}{}",
        if with_handler { "handler," } else { "" },
        if fall_into { "return-without-gosub," } else { "" },
        if leak { "leave-by-goto," } else { "" },
        if ret_label { "return-label," } else { "" },
        if recursion { "recursion," } else { "" }
    );
    (p, sig)
}


// ---- B2. RETURN from inside the routine's own loops and SELECT CASE blocks (8f09b9b)

const CALLERS: [&str; 7] = ["none", "for", "forstep", "forneg", "while", "select", "if"];

/// GOSUB issued inside `kc` (main module, a SUB called from a FOR body, or a FUNCTION called with an operand
/// pending); the routine returns from inside the constructs `nest` (guarded: only in one iteration)
fn return_out(kc: &str, nest: &[&str], guarded: bool, place: usize) -> Prog {
    let mut p = Prog::new();
    let mut b: Vec<L> = vec![];
    if kc != "none" {
        b.extend(open(kc, 1));
    }
    b.push(tok("a"));
    b.push(L::Gosub(s("RT")));
    b.push(L::PrintVars(s("back"), vec![loop_var(if kc == "none" { "for" } else { kc }, 1)]));
    if kc != "none" {
        b.extend(close(kc, 1));
    }
    b.push(L::PrintVars(s("end"), vec![loop_var(if kc == "none" { "for" } else { kc }, 1)]));
    // the stacks must be sane afterwards: another nest runs its full course
    b.push(L::For { var: s("I3%"), from: 1, to: Ex::K(2), step: None });
    b.push(L::Select(Ex::K(2)));
    b.push(L::Case(vec![2]));
    b.push(L::PrintVars(s("z"), vec![s("I3%")]));
    b.push(L::EndSelect);
    b.push(L::Next);
    let mut r: Vec<L> = vec![L::Label(s("RT")), tok("r0")];
    for (j, k) in nest.iter().enumerate() {
        r.extend(open(k, 2 + j));
        r.push(L::Tok(format!("r{}", j + 1)));
    }
    let last = *nest.last().unwrap();
    if guarded && !matches!(last, "select" | "if") {
        r.push(L::If(Cond::Eq(loop_var(last, 1 + nest.len()), 2)));
        r.push(L::Return(None));
        r.push(L::EndIf);
    } else {
        r.push(L::Return(None));
    }
    r.push(tok("rx"));
    for (j, k) in nest.iter().enumerate().rev() {
        r.extend(close(k, 2 + j));
    }
    r.push(tok("ry"));
    r.push(L::Return(None));
    match place {
        0 => {
            p.extend(b);
            p.push(L::End);
            p.extend(r);
        }
        1 => {
            p.push(L::For { var: s("W%"), from: 1, to: Ex::K(2), step: None });
            p.push(L::Call(s("P"), None));
            p.push(L::PrintVars(s("caller"), vec![s("W%")]));
            p.push(L::Next);
            p.push(L::End);
            p.push(L::Sub(s("P"), false));
            p.extend(b);
            p.push(L::Call(s("Q"), None));
            p.push(L::Goto(s("FIN")));
            p.extend(r);
            p.push(L::Label(s("FIN")));
            p.push(L::EndSub);
            p.push(L::Sub(s("Q"), false));
            p.push(tok("q"));
            p.push(L::EndSub);
        }
        _ => {
            p.push(L::For { var: s("W%"), from: 1, to: Ex::K(2), step: None });
            p.push(L::AssignFn(s("G%")));
            p.push(L::PrintVars(s("caller"), vec![s("W%"), s("V%")]));
            p.push(L::Next);
            p.push(L::End);
            p.push(L::Function(s("G%")));
            p.extend(b);
            p.push(L::SetFnResult(s("G%"), 7));
            p.push(L::Goto(s("FIN")));
            p.extend(r);
            p.push(L::Label(s("FIN")));
            p.push(L::EndFunction);
        }
    }
    p
}

fn return_out_family(cx: &mut Ctx, thorough: bool) {
    for kc in CALLERS {
        for k1 in INNER {
            let mut nests: Vec<Vec<&str>> = vec![vec![k1]];
            for k2 in INNER {
                if thorough || matches!(k2, "for" | "select" | "while") {
                    nests.push(vec![k1, k2]);
                }
            }
            for nest in nests {
                for guarded in [false, true] {
                    for place in 0..3usize {
                        if !thorough && place > 0 && (guarded || nest.len() > 1) && kc != "for" {
                            continue;
                        }
                        let p = return_out(kc, &nest, guarded, place);
                        let sig = format!(
                            "return-out:from-{}:gosub-in-{}:{}",
                            nest.join(">"),
                            kc,
                            ["main", "sub", "function"][place]
                        );
                        cx.counter += 1;
                        let trace = cx.model_every > 0;
                        cx.jobs.push(Job { p, sig, class: "return-out-of-loop".to_owned(), trace, matrix_key: None, big: false, frames: false });
                    }
                }
            }
        }
    }
}

// ---- B3. procedures left while a GOSUB of their own is pending, called from a caller's GOSUB routine (after a wave-9 seed)

const LEAVES: [&str; 9] = ["exit-sub", "end-sub", "exit-sub-second-call", "nested-exit", "exit-function", "end-function", "resume-label", "return", "return-function"];
const LP_SITES: [&str; 4] = ["none", "for", "forstep", "while"];

/// The procedure `Q` (or the function `G%`) issues a GOSUB of its own (`q_for`: from inside a FOR of its own) and is
/// left without answering it: EXIT SUB / EXIT FUNCTION inside the routine (at once, on the second call only, or from a
/// second routine nested in the first), END SUB / END FUNCTION reached by running into the routine, or an error in the
/// routine handled in the main module by RESUME label (`return`, `return-function`: controls, the routine RETURNs).
/// It is called from inside the caller's own GOSUB routine `RT`, at FOR / SELECT CASE depth `nest.len()` (0..2) of that
/// routine, which then RETURNs from inside those constructs (guarded: in the second round only); with `chain2` the
/// caller has two GOSUBs pending (`RA` calls `RB` from inside a construct, `RB` calls the procedure).  The caller's
/// GOSUB is issued inside `site` (none / FOR / FOR STEP / WHILE) of the main module or of a SUB called from a FOR body.
/// Every loop prints its counter in every round: a RETURN that takes the heights of a GOSUB that is not its own shows
/// as a loop running on another loop's limit and step.
fn left_pending(site: &str, nest: &[&str], guarded: bool, leave: &str, q_for: bool, caller_sub: bool, chain2: bool) -> Prog {
    let mut p = Prog::new();
    let is_fn = matches!(leave, "exit-function" | "end-function" | "return-function");
    let resume = leave == "resume-label";
    let site_var = loop_var(if site == "none" { "for" } else { site }, 1);
    // ---- the caller: the GOSUB site and the routine(s)
    let mut b: Vec<L> = vec![];
    if site != "none" {
        b.extend(open(site, 1));
    }
    b.push(tok("a"));
    b.push(L::Gosub(s(if chain2 { "RA" } else { "RT" })));
    // the label of RESUME label lives in the main module, inside the FOR / WHILE body that issued the GOSUB (behind
    // the loop for FOR ... STEP: a label in such a body is known finding C05-a)
    let lr_inside = resume && !caller_sub && site != "forstep";
    if lr_inside {
        b.push(L::Label(s("LR")));
    }
    b.push(L::PrintVars(s("back"), vec![site_var.clone()]));
    if site != "none" {
        b.extend(close(site, 1));
    }
    if resume && !caller_sub && !lr_inside {
        b.push(L::Label(s("LR")));
    }
    b.push(L::PrintVars(s("end"), vec![site_var.clone()]));
    // the stacks must be sane afterwards: another nest runs its full course
    b.push(L::For { var: s("I3%"), from: 1, to: Ex::K(2), step: None });
    b.push(L::Select(Ex::K(2)));
    b.push(L::Case(vec![2]));
    b.push(L::PrintVars(s("z"), vec![s("I3%")]));
    b.push(L::EndSelect);
    b.push(L::Next);
    let call = if is_fn { L::AssignFn(s("G%")) } else { L::Call(s("Q"), None) };
    // a routine: its constructs (levels j0, j0 + 1, ...), the payload, the RETURN from inside them
    let routine = |label: &str, kinds: &[&str], j0: usize, payload: Vec<L>| -> Vec<L> {
        let mut r: Vec<L> = vec![L::Label(s(label)), L::Tok(format!("{}0", label.to_lowercase()))];
        let mut vars: Vec<String> = vec![];
        for (j, k) in kinds.iter().enumerate() {
            r.extend(open(k, j0 + j));
            if !matches!(*k, "select" | "if") {
                vars.push(loop_var(k, j0 + j));
            }
        }
        r.extend(payload);
        if vars.is_empty() {
            r.push(L::Tok(format!("{}1", label.to_lowercase())));
        } else {
            r.push(L::PrintVars(format!("{}1", label.to_lowercase()), vars.clone()));
        }
        match kinds.last() {
            Some(last) if guarded && !matches!(*last, "select" | "if") => {
                r.push(L::If(Cond::Eq(loop_var(last, j0 + kinds.len() - 1), 2)));
                r.push(L::Return(None));
                r.push(L::EndIf);
            }
            Some(_) => r.push(L::Return(None)),
            None => {}
        }
        r.push(L::Tok(format!("{}x", label.to_lowercase())));
        for (j, k) in kinds.iter().enumerate().rev() {
            r.extend(close(k, j0 + j));
        }
        r.push(L::Tok(format!("{}y", label.to_lowercase())));
        r.push(L::Return(None));
        r
    };
    let count_call = vec![L::Add(s("G1%"), 1), call];
    let routines: Vec<L> = if chain2 {
        let (k1, k2) = (nest[0], nest[1]);
        let mut v = routine("RA", &[k1], 2, vec![L::Gosub(s("RB"))]);
        v.extend(routine("RB", &[k2], 3, count_call));
        v
    } else {
        routine("RT", nest, 2, count_call)
    };
    if resume {
        p.push(L::OnErrGoto(s("HH")));
    }
    if caller_sub {
        p.push(L::For { var: s("W%"), from: 1, to: Ex::K(2), step: None });
        p.push(L::Call(s("P"), None));
        if resume {
            p.push(L::Label(s("LR")));
        }
        p.push(L::PrintVars(s("caller"), vec![s("W%")]));
        p.push(L::Next);
    } else {
        p.extend(b.clone());
    }
    p.push(L::Label(s("GIVEUP")));
    p.push(L::End);
    if !caller_sub {
        p.extend(routines.clone());
    }
    if resume {
        p.push(L::Label(s("HH")));
        p.push(L::Add(s("N%"), 1));
        p.push(L::If(Cond::Ge(s("N%"), Ex::K(40))));
        p.push(L::Goto(s("GIVEUP")));
        p.push(L::EndIf);
        p.push(L::PrintErr(s("h")));
        p.push(L::ResumeLabel(s("LR")));
    }
    if caller_sub {
        p.push(L::Sub(s("P"), false));
        p.extend(b);
        p.push(L::Goto(s("FIN")));
        p.extend(routines);
        p.push(L::Label(s("FIN")));
        p.push(L::EndSub);
    }
    // ---- the procedure that is left with its own GOSUB pending
    let exit = if is_fn { L::ExitFunction } else { L::ExitSub };
    if is_fn {
        p.push(L::Function(s("G%")));
        p.push(L::SetFnResult(s("G%"), 7));
    } else {
        p.push(L::Sub(s("Q"), false));
    }
    p.push(tok("q0"));
    if q_for {
        p.push(L::For { var: s("M%"), from: 1, to: Ex::K(2), step: None });
    }
    p.push(L::Gosub(s("QR")));
    p.push(if q_for { L::PrintVars(s("q1"), vec![s("M%")]) } else { tok("q1") });
    if q_for {
        p.push(L::Next);
    }
    p.push(tok("q2"));
    if !matches!(leave, "end-sub" | "end-function") {
        p.push(exit.clone());
    }
    p.push(L::Label(s("QR")));
    p.push(tok("qr"));
    match leave {
        "exit-sub" | "exit-function" => p.push(exit.clone()),
        "end-sub" | "end-function" => {}
        "exit-sub-second-call" => {
            p.push(L::If(Cond::Ge(s("G1%"), Ex::K(2))));
            p.push(exit.clone());
            p.push(L::EndIf);
            p.push(L::Return(None));
        }
        "nested-exit" => {
            p.push(L::Gosub(s("QS")));
            p.push(tok("not-here"));
            p.push(L::Return(None));
            p.push(L::Label(s("QS")));
            p.push(tok("qs"));
            p.push(exit.clone());
        }
        "resume-label" => {
            p.push(L::Fail(FK::AsgDiv));
            p.push(tok("not-here"));
            p.push(L::Return(None));
        }
        _ => p.push(L::Return(None)),
    }
    p.push(if is_fn { L::EndFunction } else { L::EndSub });
    p
}

fn left_pending_family(cx: &mut Ctx, thorough: bool) {
    let nests: [&[&str]; 8] = [&[], &["for"], &["forstep"], &["select"], &["for", "for"], &["for", "select"], &["select", "for"], &["forstep", "for"]];
    let mut push = |cx: &mut Ctx, site: &str, nest: &[&str], guarded: bool, leave: &str, q_for: bool, caller_sub: bool, chain2: bool| {
        let p = left_pending(site, nest, guarded, leave, q_for, caller_sub, chain2);
        let sig = format!(
            "left-pending:{}{}:{}return-from-{}:gosub-in-{}:{}",
            leave,
            if q_for { "-in-for" } else { "" },
            // RESUME label: one signature per GOSUB site (recorded finding C05-i does not depend on the routine's own nest)
            if chain2 && leave != "resume-label" { "two-pending:" } else { "" },
            if leave == "resume-label" { "*".to_owned() } else if nest.is_empty() { "top".to_owned() } else { nest.join(">") },
            site,
            if caller_sub { "sub" } else { "main" }
        );
        cx.counter += 1;
        let trace = cx.model_every > 0;
        cx.jobs.push(Job { p, sig, class: format!("left-pending.{}", leave), trace, matrix_key: None, big: true, frames: false });
    };
    for site in LP_SITES {
        for nest in nests {
            for leave in LEAVES {
                for guarded in [false, true] {
                    let loop_last = nest.last().map(|k| !matches!(*k, "select" | "if")).unwrap_or(false);
                    if guarded && !loop_last {
                        continue;
                    }
                    for q_for in [false, true] {
                        for caller_sub in [false, true] {
                            // quick: the procedure's own FOR for the plain exits only, the caller inside a SUB for a GOSUB
                            // issued in a FOR body only
                            if !thorough && q_for && !matches!(leave, "exit-sub" | "end-sub" | "exit-function") {
                                continue;
                            }
                            if !thorough && caller_sub && (site != "for" || q_for || guarded) {
                                continue;
                            }
                            push(cx, site, nest, guarded, leave, q_for, caller_sub, false);
                        }
                    }
                }
            }
        }
        // two GOSUBs pending in the caller: the heights of the inner one must not be handed to the outer one
        for k1 in ["for", "select", "forstep"] {
            for k2 in ["for", "forstep", "select"] {
                for leave in LEAVES {
                    for guarded in [false, true] {
                        if (guarded && k2 == "select") || (!thorough && guarded && k1 != "for") {
                            continue;
                        }
                        push(cx, site, &[k1, k2], guarded, leave, false, false, true);
                    }
                }
            }
        }
    }
}

// ---- C. GOTO out of loops

const LOOPS: [&str; 6] = ["for", "forstep", "forneg", "while", "dotop", "dobottom"];
const INNER: [&str; 8] = ["for", "forstep", "forneg", "while", "dotop", "dobottom", "select", "if"];

fn loop_var(kind: &str, j: usize) -> String {
    match kind {
        "for" | "forstep" | "forneg" => format!("I{}%", j),
        _ => format!("C{}%", j),
    }
}

fn open(kind: &str, j: usize) -> Vec<L> {
    let i = format!("I{}%", j);
    let c = format!("C{}%", j);
    // every nesting level has its own limit, so that a loop running on another loop's registers shows
    let n = 2 + j as i32;
    match kind {
        "for" => vec![L::For { var: i, from: 1, to: Ex::K(n), step: None }],
        "forstep" => vec![L::For { var: i, from: 1, to: Ex::K(2 * n - 1), step: Some(2) }],
        "forneg" => vec![L::For { var: i, from: n, to: Ex::K(1), step: Some(-1) }],
        "while" => vec![L::Set(c.clone(), 0), L::While(Cond::Lt(c.clone(), Ex::K(n))), L::Add(c, 1)],
        "dotop" => vec![L::Set(c.clone(), 0), L::Do(Some((true, Cond::Ge(c.clone(), Ex::K(n))))), L::Add(c, 1)],
        "dobottom" => vec![L::Set(c.clone(), 0), L::Do(None), L::Add(c, 1)],
        "select" => vec![L::Select(Ex::K(2)), L::Case(vec![1]), tok("c1"), L::Case(vec![2, 5])],
        "if" => vec![L::If(Cond::True)],
        _ => unreachable!(),
    }
}

fn close(kind: &str, j: usize) -> Vec<L> {
    let c = format!("C{}%", j);
    let n = 2 + j as i32;
    match kind {
        "for" | "forstep" | "forneg" => vec![L::Next],
        "while" => vec![L::Wend],
        "dotop" => vec![L::Loop(None)],
        "dobottom" => vec![L::Loop(Some((false, Cond::Lt(c, Ex::K(n)))))],
        "select" => vec![L::CaseElse, tok("ce"), L::EndSelect],
        "if" => vec![L::Else, tok("el"), L::EndIf],
        _ => unreachable!(),
    }
}

/// shape: 0 = target in the outer body after the inner construct, 1 = target after the outer loop,
/// 2 = three levels (target in the outermost body), 3 = target before the inner construct (re-enter)
fn goto_out(ko: &str, km: &str, ki: &str, shape: usize, guarded: bool, in_sub: bool) -> Prog {
    let mut p = Prog::new();
    let mut b: Vec<L> = vec![];
    let inner_level = if shape == 2 { 3 } else { 2 };
    let jump = |b: &mut Vec<L>| {
        if guarded && !matches!(ki, "select" | "if") {
            b.push(L::If(Cond::Eq(loop_var(ki, inner_level), 2)));
            b.push(L::Goto(s("LX")));
            b.push(L::EndIf);
        } else if shape == 3 {
            b.push(L::If(Cond::Lt(s("G1%"), Ex::K(3))));
            b.push(L::Goto(s("LX")));
            b.push(L::EndIf);
        } else {
            b.push(L::Goto(s("LX")));
        }
    };
    b.extend(open(ko, 1));
    b.push(tok("o1"));
    if shape == 3 {
        b.push(L::Label(s("LX")));
        b.push(L::Add(s("G1%"), 1));
        b.push(L::PrintVars(s("re"), vec![loop_var(ko, 1)]));
    }
    if shape == 2 {
        b.extend(open(km, 2));
        b.push(tok("m1"));
    }
    b.extend(open(ki, inner_level));
    b.push(tok("i1"));
    jump(&mut b);
    b.push(tok("i2"));
    b.extend(close(ki, inner_level));
    if shape == 2 {
        b.push(tok("m2"));
        b.extend(close(km, 2));
    }
    b.push(tok("o2"));
    if shape == 0 || shape == 2 {
        b.push(L::Label(s("LX")));
    }
    b.push(L::PrintVars(s("o"), vec![loop_var(ko, 1)]));
    b.extend(close(ko, 1));
    if shape == 1 {
        b.push(tok("skipped"));
        b.push(L::Label(s("LX")));
    }
    b.push(L::PrintVars(s("end"), vec![loop_var(ko, 1)]));
    // the register frames must be sane afterwards: another nest runs its full course
    b.push(L::For { var: s("I3%"), from: 1, to: Ex::K(2), step: None });
    b.push(L::For { var: s("I2%"), from: 1, to: Ex::K(2), step: Some(1) });
    b.push(L::PrintVars(s("z"), vec![s("I3%"), s("I2%")]));
    b.push(L::Next);
    b.push(L::Next);
    if in_sub {
        p.push(L::For { var: s("W%"), from: 1, to: Ex::K(2), step: None });
        p.push(L::Call(s("P"), None));
        p.push(L::PrintVars(s("caller"), vec![s("W%")]));
        p.push(L::Next);
        p.push(L::End);
        p.push(L::Sub(s("P"), false));
        p.push(L::Set(s("G1%"), 0));
        p.extend(b);
        p.push(L::EndSub);
    } else {
        p.extend(b);
        p.push(L::End);
    }
    p
}

// ---- C2. GOTO target layouts: the label at any statement position of any enclosing or sibling block

/// block kinds that may enclose both the GOTO and the label (FOR ... STEP bodies are left out here:
/// a label inside one is emitted twice, known finding C05-a, matched by family C)
const ENCL: [&str; 9] = ["for", "while", "dotop", "dobottom", "then", "elseif", "else", "case", "caseelse"];
/// where the label sits relative to the innermost common block B
const PLACES: [&str; 8] = ["after", "last", "before", "sib-then", "sib-elseif", "sib-else", "sib-then-first", "cousin"];

fn level_var(kind: &str, j: usize) -> Option<String> {
    match kind {
        "for" | "forstep" | "forneg" => Some(format!("I{}%", j)),
        "while" | "dotop" | "dobottom" => Some(format!("C{}%", j)),
        _ => None,
    }
}

/// puts `inner` into a block of the given kind at nesting level `j`; `cousin` (if any) goes into the
/// NEXT block of the same IF / SELECT CASE statement
fn wrap_block(kind: &str, j: usize, inner: Vec<L>, cousin: Option<Vec<L>>) -> Vec<L> {
    let mut v: Vec<L> = vec![];
    let t = |x: &str| L::Tok(format!("{}{}", x, j));
    match kind {
        "for" | "forstep" | "forneg" | "while" | "dotop" | "dobottom" => {
            v.extend(open(kind, j));
            v.push(t("in"));
            v.extend(inner);
            v.push(L::PrintVars(format!("x{}", j), vec![level_var(kind, j).unwrap()]));
            v.extend(close(kind, j));
            v.push(L::PrintVars(format!("done{}", j), vec![level_var(kind, j).unwrap()]));
        }
        "then" => {
            v.push(L::If(Cond::True));
            v.extend(inner);
            match cousin {
                Some(c) => {
                    v.push(L::ElseIf(Cond::True));
                    v.push(t("ei"));
                    v.push(L::Else);
                    v.extend(c);
                }
                None => {
                    v.push(L::Else);
                    v.push(t("el"));
                }
            }
            v.push(L::EndIf);
        }
        "elseif" => {
            v.extend(vec![L::If(Cond::False), t("th"), L::ElseIf(Cond::True)]);
            v.extend(inner);
            v.push(L::Else);
            match cousin {
                Some(c) => v.extend(c),
                None => v.push(t("el")),
            }
            v.push(L::EndIf);
        }
        "else" => {
            v.extend(vec![L::If(Cond::False), t("th"), L::Else]);
            v.extend(inner);
            v.push(L::EndIf);
        }
        "case" => {
            v.extend(vec![L::Select(Ex::K(2)), L::Case(vec![1]), t("c1"), L::Case(vec![2])]);
            v.extend(inner);
            match cousin {
                Some(c) => {
                    v.push(L::Case(vec![3]));
                    v.push(t("c3"));
                    v.push(L::CaseElse);
                    v.extend(c);
                }
                None => {
                    v.push(L::CaseElse);
                    v.push(t("ce"));
                }
            }
            v.push(L::EndSelect);
        }
        "caseelse" => {
            v.extend(vec![L::Select(Ex::K(9)), L::Case(vec![1]), t("c1"), L::CaseElse]);
            v.extend(inner);
            v.push(L::EndSelect);
        }
        _ => unreachable!(),
    }
    v
}

/// `chain`: the blocks that enclose both the GOTO and the label (outermost first; empty = top level);
/// `source`: the constructs the GOTO leaves (outermost first); `place`: where the label is.
/// None when the combination does not exist (a cousin block needs a THEN / ELSEIF / CASE block).
fn goto_target(chain: &[&str], source: &[&str], place: &str, guarded: bool, in_sub: bool) -> Option<Prog> {
    let n = chain.len();
    if place == "cousin" && !matches!(chain.last().copied(), Some("then") | Some("elseif") | Some("case")) {
        return None;
    }
    let inner_kind = *source.last().unwrap();
    let inner_var = level_var(inner_kind, n + source.len());
    if guarded && (inner_var.is_none() || place == "before") {
        return None;
    }
    // the GOTO, in the innermost construct it leaves
    let mut core: Vec<L> = vec![tok("i1")];
    if place == "before" {
        core.extend(vec![L::If(Cond::Lt(s("G1%"), Ex::K(3))), L::Goto(s("LX")), L::EndIf]);
    } else if guarded {
        core.extend(vec![L::If(Cond::Eq(inner_var.clone().unwrap(), 2)), L::Goto(s("LX")), L::EndIf]);
    } else {
        core.push(L::Goto(s("LX")));
    }
    core.push(tok("i2"));
    let mut nest = core;
    for (k, kind) in source.iter().enumerate().rev() {
        let j = n + k + 1;
        nest = match *kind {
            "select" => wrap_block("case", j, nest, None),
            "if" => wrap_block("then", j, nest, None),
            other => wrap_block(other, j, nest, None),
        };
    }
    // the loop counters that must be intact at the label
    let outer_vars: Vec<String> = chain.iter().enumerate().filter_map(|(k, kind)| level_var(kind, k + 1)).collect();
    let at = |tag: &str| -> L {
        if outer_vars.is_empty() { tok(tag) } else { L::PrintVars(s(tag), outer_vars.clone()) }
    };
    let landing = |v: &mut Vec<L>, trailing: bool| {
        v.push(L::Label(s("LX")));
        if trailing {
            v.push(at("at"));
        }
    };
    // the innermost common block B
    let mut b: Vec<L> = vec![tok("b1")];
    let mut cousin: Option<Vec<L>> = None;
    match place {
        "before" => {
            landing(&mut b, true);
            b.push(L::Add(s("G1%"), 1));
            b.extend(nest);
            b.push(tok("b2"));
        }
        "after" => {
            b.extend(nest);
            b.push(tok("b2"));
            landing(&mut b, true);
            b.push(tok("b3"));
        }
        "last" => {
            b.extend(nest);
            b.push(tok("b2"));
            landing(&mut b, false);
        }
        "sib-then" | "sib-then-first" => {
            b.extend(nest);
            b.push(tok("b2"));
            b.push(L::If(Cond::False));
            if place == "sib-then" {
                b.push(tok("s0"));
            }
            landing(&mut b, true);
            b.extend(vec![L::Else, tok("s2"), L::EndIf, tok("b3")]);
        }
        "sib-elseif" => {
            b.extend(nest);
            b.push(tok("b2"));
            b.extend(vec![L::If(Cond::False), tok("s0"), L::ElseIf(Cond::False), tok("s1")]);
            landing(&mut b, true);
            b.extend(vec![L::Else, tok("s2"), L::EndIf, tok("b3")]);
        }
        "sib-else" => {
            b.extend(nest);
            b.push(tok("b2"));
            b.extend(vec![L::If(Cond::True), tok("s0"), L::Else, tok("s1")]);
            landing(&mut b, true);
            b.extend(vec![tok("s2"), L::EndIf, tok("b3")]);
        }
        "cousin" => {
            b.extend(nest);
            b.push(tok("b2"));
            let mut c = vec![tok("k0")];
            landing(&mut c, true);
            c.push(tok("k1"));
            cousin = Some(c);
        }
        _ => unreachable!(),
    }
    let mut body = b;
    for (k, kind) in chain.iter().enumerate().rev() {
        body = wrap_block(kind, k + 1, body, if k + 1 == n { cousin.take() } else { None });
    }
    let mut all = vec![L::Set(s("G1%"), 0)];
    all.extend(body);
    all.push(tok("end"));
    // the register frames must be sane afterwards
    all.push(L::For { var: s("Y1%"), from: 1, to: Ex::K(2), step: None });
    all.push(L::For { var: s("Y2%"), from: 1, to: Ex::K(3), step: Some(2) });
    all.push(L::PrintVars(s("z"), vec![s("Y1%"), s("Y2%")]));
    all.push(L::Next);
    all.push(L::Next);
    let mut p = Prog::bare();
    if in_sub {
        p.push(L::For { var: s("W%"), from: 1, to: Ex::K(2), step: None });
        p.push(L::Call(s("P"), None));
        p.push(L::PrintVars(s("caller"), vec![s("W%")]));
        p.push(L::Next);
        p.push(L::End);
        p.push(L::Sub(s("P"), false));
        p.extend(all);
        p.push(L::EndSub);
    } else {
        p.extend(all);
        p.push(L::End);
    }
    Some(p)
}

/// the block that directly holds the label (for the signature)
fn label_host(chain: &[&str], place: &str, in_sub: bool) -> String {
    match place {
        "sib-then" | "sib-then-first" => "then".into(),
        "sib-elseif" => "elseif".into(),
        "sib-else" => "else".into(),
        "cousin" => match chain.last().copied() {
            Some("case") => "caseelse".into(),
            _ => "else".into(),
        },
        _ => match chain.last() {
            Some(k) => k.to_string(),
            None => (if in_sub { "sub-body" } else { "top-level" }).into(),
        },
    }
}

fn goto_target_family(cx: &mut Ctx, rng: &mut Rng, thorough: bool) {
    let mut chains: Vec<Vec<&str>> = vec![vec![]];
    for a in ENCL {
        chains.push(vec![a]);
        for b in ENCL {
            chains.push(vec![a, b]);
            if thorough {
                for c in ENCL {
                    chains.push(vec![a, b, c]);
                }
            }
        }
    }
    let mut sources: Vec<Vec<&str>> = INNER.iter().map(|k| vec![*k]).collect();
    for a in ["for", "forneg", "while", "select", "if"] {
        for b in ["for", "forstep", "dobottom", "select"] {
            sources.push(vec![a, b]);
        }
    }
    for chain in &chains {
        for source in &sources {
            for place in PLACES {
                for guarded in [false, true] {
                    for in_sub in [false, true] {
                        // quick: every chain of <= 2 blocks x every single construct x every placement in the
                        // main module; the rest (two constructs left at once, guarded jumps, SUB bodies) sampled
                        let basic = source.len() == 1 && !guarded && !in_sub;
                        // quick, chains of two blocks: a fixed sub-grid (deterministic, every chain covered)
                        let core = basic
                            && matches!(source[0], "for" | "forneg" | "while" | "select")
                            && matches!(place, "after" | "before" | "sib-else" | "cousin");
                        let keep = if thorough {
                            chain.len() < 3 || basic || rng.below(6) == 0
                        } else if chain.len() < 2 {
                            basic || rng.below(8) == 0
                        } else {
                            core || rng.below(100) == 0
                        };
                        if !keep {
                            continue;
                        }
                        let Some(p) = goto_target(chain, source, place, guarded, in_sub) else { continue };
                        let sig = format!("goto-target:leaves-{}:label-in-{}", source.join("+"), label_host(chain, place, in_sub));
                        // the control machine is re-run on one program in twelve of this family
                        cx.counter += 1;
                        let trace = cx.model_every > 0 && (thorough || cx.counter % 2 == 0);
                        cx.jobs.push(Job { p, sig, class: format!("goto-target.{}", place), trace, matrix_key: None, big: true, frames: true });
                        cx.rep.bump(&format!("goto-target-enclosing.{}", if chain.is_empty() { "none".to_owned() } else { chain.join(">") }));
                    }
                }
            }
        }
    }
}

// ---- D. the ON ERROR matrix: failing statement kind x position x resume mode

const KINDS: [&str; 20] = [
    "asg-div", "asg-ovf", "print", "array", "builtin", "read", "sub-arg", "for-hdr", "for-zero", "if-cond", "elseif-cond", "while-cond",
    "dotop-cond", "loop-cond", "select-expr", "next-ovf", "next-ovf-step", "next-ovf-neg", "return-no-gosub", "const-then-return",
];
const POSITIONS: [&str; 28] = [
    "main-mid", "main-last", "if-first", "if-mid", "if-last", "if-last-noelse", "elseif-last", "else-last", "for-first", "for-last",
    "forstep-last", "forneg-last", "while-first", "while-last", "dotop-last", "dobottom-last", "case-first", "case-last",
    "caseelse-last", "sub-first", "sub-mid", "sub-last", "fn-last", "gosub-last", "gosub-in-for", "for-in-for-last", "sub-in-for", "select-in-for-last",
];
const MODES: [&str; 6] = ["resume", "resume-next", "resume-label", "on-error-resume-next", "goto-0", "no-handler"];

fn failing(kind: &str) -> Vec<L> {
    let c = s("C3%");
    match kind {
        "asg-div" => vec![L::Fail(FK::AsgDiv)],
        "asg-ovf" => vec![L::Fail(FK::AsgOvf)],
        "print" => vec![L::Fail(FK::Print)],
        "array" => vec![L::Fail(FK::Array)],
        "builtin" => vec![L::Fail(FK::Builtin)],
        "read" => vec![L::Fail(FK::Read)],
        "sub-arg" => vec![L::Call(s("Q"), Some(Ex::DivD(9)))],
        "for-hdr" => vec![L::For { var: c, from: 1, to: Ex::DivD(2), step: None }, tok("k"), L::Next],
        "if-cond" => vec![L::If(Cond::FailEq), tok("i"), L::Else, tok("j"), L::EndIf],
        "elseif-cond" => vec![L::If(Cond::False), tok("i"), L::ElseIf(Cond::FailEq), tok("j"), L::Else, tok("m"), L::EndIf],
        "while-cond" => vec![L::Set(c.clone(), 0), L::While(Cond::Lt(c.clone(), Ex::DivD(2))), L::Add(c, 1), L::Set(s("D%"), 1), tok("w"), L::Wend],
        "dotop-cond" => {
            vec![L::Set(c.clone(), 0), L::Do(Some((false, Cond::Lt(c.clone(), Ex::DivD(2))))), L::Add(c, 1), L::Set(s("D%"), 1), tok("w"), L::Loop(None)]
        }
        "loop-cond" => vec![L::Set(c.clone(), 0), L::Do(None), L::Add(c.clone(), 1), tok("w"), L::Loop(Some((true, Cond::Ge(c, Ex::DivD(2)))))],
        "select-expr" => vec![L::Select(Ex::DivD(3)), L::Case(vec![3]), tok("c3"), L::CaseElse, tok("ce"), L::EndSelect],
        // a zero step fails the FOR statement (error 258): RESUME runs the FOR again, RESUME NEXT continues behind NEXT
        "for-zero" => vec![L::For { var: c, from: 1, to: Ex::K(3), step: Some(0) }, tok("k"), L::Next],
        "next-ovf" => vec![L::For { var: c, from: 32766, to: Ex::K(32767), step: None }, tok("n"), L::Next],
        "next-ovf-step" => vec![L::For { var: c, from: 32765, to: Ex::K(32767), step: Some(2) }, tok("n"), L::Next],
        "next-ovf-neg" => vec![L::For { var: c, from: -32767, to: Ex::K(-32768), step: Some(-1) }, tok("n"), L::Next],
        "return-no-gosub" => vec![L::Return(None)],
        "const-then-return" => vec![L::Const, L::Return(None)],
        _ => unreachable!(),
    }
}

fn matrix_program(kind: &str, pos: &str, mode: &str) -> Option<Prog> {
    // RESUME would fail again for ever when the handler cannot repair the cause
    // (a failed NEXT is run again after the handler has moved the counter back: the loop goes round once more and NEXT fails
    // again; a zero step fails again; both until the handler gives up after nine calls)
    if mode == "resume" && matches!(kind, "read" | "return-no-gosub" | "const-then-return") {
        return None;
    }
    if pos == "main-last" && mode == "resume-label" {
        return None;
    }
    // a pending GOSUB would make the bare RETURN succeed
    if matches!(pos, "gosub-last" | "gosub-in-for") && matches!(kind, "return-no-gosub" | "const-then-return") {
        return None;
    }
    let lr = mode == "resume-label";
    let st = failing(kind);
    let mut p = Prog::new();
    p.push(L::Set(s("M%"), 3));
    if kind == "read" {
        p.push(L::Data);
        p.push(L::Fail(FK::Read));
    }
    let handler = |p: &mut Prog| {
        p.push(L::Label(s("HH")));
        p.push(L::Add(s("N%"), 1));
        p.push(L::If(Cond::Ge(s("N%"), Ex::K(9))));
        p.push(L::Goto(s("GIVEUP")));
        p.push(L::EndIf);
        p.push(L::PrintErr(s("h")));
        p.push(L::PrintVars(s("hv"), vec![s("D%"), s("V%")]));
        p.push(L::Set(s("D%"), 1));
        p.push(L::Set(s("W%"), 9));
        if mode == "resume" {
            match kind {
                "next-ovf" => p.push(L::Set(s("C3%"), 32765)),
                "next-ovf-step" => p.push(L::Set(s("C3%"), 32763)),
                "next-ovf-neg" => p.push(L::Set(s("C3%"), -32766)),
                _ => {}
            }
        }
        p.push(match mode {
            "resume" => L::Resume,
            "resume-label" => L::ResumeLabel(s("LR")),
            _ => L::ResumeNext,
        });
    };
    let has_handler = matches!(mode, "resume" | "resume-next" | "resume-label" | "goto-0");
    let setup = |p: &mut Prog| match mode {
        "resume" | "resume-next" | "resume-label" => p.push(L::OnErrGoto(s("HH"))),
        "on-error-resume-next" => p.push(L::OnErrNext),
        "goto-0" => {
            p.push(L::OnErrGoto(s("HH")));
            p.push(L::OnErrZero);
        }
        _ => {}
    };
    let mut subs: Vec<L> = vec![];
    let sub_p = |body: Vec<L>| {
        let mut v = vec![L::Sub(s("P"), false)];
        v.extend(body);
        v.push(L::EndSub);
        v
    };
    let with = |pre: Vec<L>, post: Vec<L>| {
        let mut v = pre;
        v.extend(st.clone());
        v.extend(post);
        v
    };
    let label = |v: &mut Vec<L>| {
        if lr {
            v.push(L::Label(s("LR")));
        }
    };
    if pos == "main-last" {
        p.push(L::Goto(s("M0")));
        p.push(L::Label(s("GIVEUP")));
        p.push(L::End);
        if has_handler {
            handler(&mut p);
        }
        p.push(L::Label(s("M0")));
        setup(&mut p);
        p.push(tok("a"));
        p.extend(st.clone());
        if kind == "sub-arg" {
            p.extend(vec![L::Sub(s("Q"), true), L::PrintVars(s("q"), vec![s("X%")]), L::EndSub]);
        }
        return Some(p);
    }
    let mut b: Vec<L> = vec![tok("a")];
    match pos {
        "main-mid" => {
            b.extend(with(vec![], vec![tok("b")]));
            label(&mut b);
        }
        "if-first" => {
            b.push(L::If(Cond::True));
            b.extend(with(vec![], vec![tok("b")]));
            b.extend(vec![L::Else, tok("x"), L::EndIf]);
            label(&mut b);
        }
        "if-mid" => {
            b.push(L::If(Cond::True));
            b.extend(with(vec![tok("b")], vec![tok("c")]));
            b.extend(vec![L::Else, tok("x"), L::EndIf]);
            label(&mut b);
        }
        "if-last" => {
            b.push(L::If(Cond::True));
            b.extend(with(vec![tok("b")], vec![]));
            b.extend(vec![L::Else, tok("x"), L::EndIf]);
            label(&mut b);
        }
        "if-last-noelse" => {
            b.push(L::If(Cond::True));
            b.extend(with(vec![tok("b")], vec![]));
            b.extend(vec![L::EndIf]);
            label(&mut b);
        }
        "elseif-last" => {
            b.extend(vec![L::If(Cond::False), tok("x0"), L::ElseIf(Cond::True)]);
            b.extend(with(vec![tok("b")], vec![]));
            b.extend(vec![L::ElseIf(Cond::True), tok("x1"), L::Else, tok("x2"), L::EndIf]);
            label(&mut b);
        }
        "else-last" => {
            b.extend(vec![L::If(Cond::False), tok("x0"), L::Else]);
            b.extend(with(vec![tok("b")], vec![]));
            b.push(L::EndIf);
            label(&mut b);
        }
        "for-first" | "for-last" | "forstep-last" | "forneg-last" => {
            b.push(match pos {
                "forstep-last" => L::For { var: s("I1%"), from: 1, to: Ex::K(3), step: Some(2) },
                "forneg-last" => L::For { var: s("I1%"), from: 2, to: Ex::K(1), step: Some(-1) },
                _ => L::For { var: s("I1%"), from: 1, to: Ex::K(2), step: None },
            });
            if pos == "for-first" {
                b.extend(with(vec![], vec![L::PrintVars(s("b"), vec![s("I1%")])]));
            } else {
                b.extend(with(vec![L::PrintVars(s("b"), vec![s("I1%")])], vec![]));
            }
            b.push(L::Next);
            label(&mut b);
        }
        "while-first" | "while-last" => {
            b.extend(vec![L::Set(s("C1%"), 0), L::While(Cond::Lt(s("C1%"), Ex::K(2)))]);
            if pos == "while-first" {
                b.extend(with(vec![], vec![L::Add(s("C1%"), 1), tok("b")]));
            } else {
                b.extend(with(vec![L::Add(s("C1%"), 1), tok("b")], vec![]));
            }
            b.push(L::Wend);
            label(&mut b);
        }
        "dotop-last" => {
            b.extend(vec![L::Set(s("C1%"), 0), L::Do(Some((true, Cond::Ge(s("C1%"), Ex::K(2)))))]);
            b.extend(with(vec![L::Add(s("C1%"), 1), tok("b")], vec![]));
            b.push(L::Loop(None));
            label(&mut b);
        }
        "dobottom-last" => {
            b.extend(vec![L::Set(s("C1%"), 0), L::Do(None)]);
            b.extend(with(vec![L::Add(s("C1%"), 1), tok("b")], vec![]));
            b.push(L::Loop(Some((false, Cond::Lt(s("C1%"), Ex::K(2))))));
            label(&mut b);
        }
        "case-first" | "case-last" => {
            b.extend(vec![L::Select(Ex::K(1)), L::Case(vec![1])]);
            if pos == "case-first" {
                b.extend(with(vec![], vec![tok("b")]));
            } else {
                b.extend(with(vec![tok("b")], vec![]));
            }
            b.extend(vec![L::Case(vec![2]), tok("x1"), L::CaseElse, tok("x2"), L::EndSelect]);
            label(&mut b);
        }
        "caseelse-last" => {
            b.extend(vec![L::Select(Ex::K(7)), L::Case(vec![1]), tok("x1"), L::CaseElse]);
            b.extend(with(vec![tok("b")], vec![]));
            b.push(L::EndSelect);
            label(&mut b);
        }
        "sub-first" | "sub-mid" | "sub-last" | "sub-in-for" => {
            if pos == "sub-in-for" {
                b.push(L::For { var: s("I1%"), from: 1, to: Ex::K(2), step: None });
            }
            b.push(L::Call(s("P"), None));
            b.push(tok("b"));
            if pos == "sub-in-for" {
                b.push(L::PrintVars(s("o"), vec![s("I1%")]));
                b.push(L::Next);
            }
            label(&mut b);
            subs = sub_p(match pos {
                "sub-first" => with(vec![], vec![L::Set(s("L%"), 5), L::PrintVars(s("l"), vec![s("L%")])]),
                "sub-mid" => with(vec![L::Set(s("L%"), 5), tok("p1")], vec![L::PrintVars(s("l"), vec![s("L%")])]),
                _ => with(vec![L::Set(s("L%"), 5), L::PrintVars(s("l"), vec![s("L%")])], vec![]),
            });
        }
        "fn-last" => {
            b.push(L::AssignFn(s("G%")));
            b.push(L::PrintVars(s("g"), vec![s("V%")]));
            label(&mut b);
            subs = vec![L::Function(s("G%")), L::SetFnResult(s("G%"), 4), tok("g1")];
            subs.extend(st.clone());
            subs.push(L::EndFunction);
        }
        "gosub-last" => {
            b.extend(vec![L::Gosub(s("R1")), tok("b"), L::Goto(s("X1")), L::Label(s("R1")), tok("r")]);
            b.extend(st.clone());
            b.extend(vec![L::Return(None), L::Label(s("X1"))]);
            label(&mut b);
        }
        "gosub-in-for" => {
            // the routine is called from a FOR body; the target of RESUME label is a label of the ROUTINE (26672d3: the
            // frame of the FOR whose body issued the GOSUB must survive the RESUME label)
            b.push(L::For { var: s("I1%"), from: 1, to: Ex::K(2), step: None });
            b.extend(vec![L::Gosub(s("R1")), L::PrintVars(s("b"), vec![s("I1%")]), L::Next, L::Goto(s("X1")), L::Label(s("R1")), tok("r")]);
            b.extend(st.clone());
            label(&mut b);
            b.extend(vec![tok("l"), L::Return(None), L::Label(s("X1"))]);
        }
        "for-in-for-last" => {
            b.push(L::For { var: s("I1%"), from: 1, to: Ex::K(2), step: None });
            b.push(L::For { var: s("I2%"), from: 1, to: Ex::K(3), step: Some(2) });
            b.extend(with(vec![L::PrintVars(s("b"), vec![s("I1%"), s("I2%")])], vec![]));
            b.push(L::Next);
            label(&mut b);
            b.push(L::PrintVars(s("o"), vec![s("I1%")]));
            b.push(L::Next);
        }
        "select-in-for-last" => {
            b.push(L::For { var: s("I1%"), from: 1, to: Ex::K(2), step: None });
            b.extend(vec![L::Select(Ex::K(1)), L::Case(vec![1])]);
            b.extend(with(vec![tok("b")], vec![]));
            b.extend(vec![L::CaseElse, tok("x2"), L::EndSelect]);
            label(&mut b);
            b.push(L::PrintVars(s("o"), vec![s("I1%")]));
            b.push(L::Next);
        }
        _ => unreachable!(),
    }
    setup(&mut p);
    p.extend(b);
    p.push(tok("z"));
    p.push(L::PrintVars(s("v"), vec![s("D%"), s("V%"), s("N%"), s("W%"), s("M%")]));
    if mode != "on-error-resume-next" {
        p.push(L::PrintErr(s("e")));
    }
    p.push(L::For { var: s("I3%"), from: 1, to: Ex::K(2), step: None });
    p.push(L::PrintVars(s("y"), vec![s("I3%")]));
    p.push(L::Next);
    p.push(L::Label(s("GIVEUP")));
    p.push(L::End);
    if has_handler {
        handler(&mut p);
    }
    p.extend(subs);
    if kind == "sub-arg" {
        p.extend(vec![L::Sub(s("Q"), true), L::PrintVars(s("q"), vec![s("X%")]), L::EndSub]);
    }
    Some(p)
}


// ---- H. errors several calls deep: procedures calling procedures, the error in the innermost

const LEVEL_SHAPES: [&str; 4] = ["plain", "for", "gosub", "for+gosub"];

/// the body of a procedure at call level `k` whose "payload" (the call of the next procedure, or the
/// failing statement) sits inside a FOR with a limit and step of its own and / or inside a GOSUB routine
fn level_body(k: usize, shape: &str, payload: Vec<L>) -> Vec<L> {
    let kv = format!("K{}%", k);
    let w = format!("W{}", k);
    let e = format!("E{}", k);
    let k10 = 10 * k as i32;
    let mut v = vec![L::Tok(format!("p{}", k))];
    let for_open = L::For { var: kv.clone(), from: k10, to: Ex::K(3 * k10), step: Some(k10) };
    match shape {
        "plain" => {
            v.extend(payload);
            v.push(L::Tok(format!("p{}z", k)));
        }
        "for" => {
            v.push(for_open);
            v.extend(payload);
            v.push(L::PrintVars(format!("p{}k", k), vec![kv]));
            v.push(L::Next);
        }
        "gosub" | "for+gosub" => {
            if shape == "for+gosub" {
                v.push(for_open);
            }
            v.push(L::Gosub(w.clone()));
            if shape == "for+gosub" {
                v.push(L::PrintVars(format!("p{}k", k), vec![kv]));
                v.push(L::Next);
            }
            v.push(L::Tok(format!("p{}z", k)));
            v.push(L::Goto(e.clone()));
            v.push(L::Label(w));
            v.extend(payload);
            v.push(L::Tok(format!("w{}z", k)));
            v.push(L::Return(None));
            v.push(L::Label(e));
        }
        _ => unreachable!(),
    }
    v
}

/// `shapes[k-1]` = the shape of procedure `P<k>`; the last one holds the failing statement
fn deep_call(shapes: &[&str], ctx: &str, kind: &str, mode: &str) -> Prog {
    let depth = shapes.len();
    let lr = mode == "resume-label";
    let mut p = Prog::new();
    p.push(L::Set(s("M%"), 3));
    p.push(L::OnErrGoto(s("HH")));
    let mut call: Vec<L> = vec![L::Call(s("P1"), None)];
    if lr {
        call.push(L::Label(s("LR")));
    }
    match ctx {
        "top" => {
            p.push(tok("m"));
            p.extend(call);
            p.push(tok("back"));
        }
        "in-for" => {
            p.push(L::For { var: s("I1%"), from: 1, to: Ex::K(2), step: None });
            p.push(L::PrintVars(s("m"), vec![s("I1%")]));
            p.extend(call);
            p.push(L::PrintVars(s("back"), vec![s("I1%")]));
            p.push(L::Next);
            p.push(L::PrintVars(s("after"), vec![s("I1%")]));
        }
        "in-gosub" => {
            p.extend(vec![L::Gosub(s("MG")), tok("mg-returned"), L::Goto(s("MX")), L::Label(s("MG")), tok("mg")]);
            p.extend(call);
            p.extend(vec![tok("back"), L::Return(None), L::Label(s("MX"))]);
        }
        _ => unreachable!(),
    }
    // afterwards the module level must be as if the procedures had never been entered
    p.push(L::PrintVars(s("v"), vec![s("D%"), s("V%"), s("N%"), s("W%"), s("M%")]));
    p.push(L::For { var: s("I3%"), from: 1, to: Ex::K(3), step: None });
    p.push(L::PrintVars(s("y"), vec![s("I3%")]));
    p.push(L::Next);
    p.push(L::For { var: s("I2%"), from: 9, to: Ex::K(3), step: Some(-3) });
    p.push(L::PrintVars(s("x"), vec![s("I2%")]));
    p.push(L::Next);
    p.push(L::PrintErr(s("e")));
    p.push(L::OnErrZero);
    p.push(tok("now-return"));
    p.push(L::Return(None)); // nothing is pending: error 3, here
    p.push(tok("not-reached"));
    p.push(L::Label(s("GIVEUP")));
    p.push(L::End);
    p.push(L::Label(s("HH")));
    p.push(L::Add(s("N%"), 1));
    p.push(L::If(Cond::Ge(s("N%"), Ex::K(40))));
    p.push(L::Goto(s("GIVEUP")));
    p.push(L::EndIf);
    p.push(L::PrintErr(s("h")));
    if mode == "resume" {
        p.push(L::Set(s("D%"), 1));
    }
    p.push(L::Set(s("W%"), 9));
    p.push(match mode {
        "resume" => L::Resume,
        "resume-label" => L::ResumeLabel(s("LR")),
        _ => L::ResumeNext,
    });
    for k in 1..=depth {
        let payload = if k < depth {
            vec![L::Call(format!("P{}", k + 1), None)]
        } else {
            let mut f = vec![L::Set(s("L%"), 5)];
            f.extend(failing(kind));
            f.push(L::PrintVars(s("l"), vec![s("L%")]));
            f
        };
        p.push(L::Sub(format!("P{}", k), false));
        p.extend(level_body(k, shapes[k - 1], payload));
        p.push(L::EndSub);
    }
    if kind == "sub-arg" {
        p.extend(vec![L::Sub(s("Q"), true), L::PrintVars(s("q"), vec![s("X%")]), L::EndSub]);
    }
    p
}

fn deep_call_family(cx: &mut Ctx, rng: &mut Rng, thorough: bool) {
    let mut shape_lists: Vec<Vec<&str>> = vec![];
    for a in LEVEL_SHAPES {
        shape_lists.push(vec![a]);
        for b in LEVEL_SHAPES {
            shape_lists.push(vec![a, b]);
            for c in LEVEL_SHAPES {
                shape_lists.push(vec![a, b, c]);
            }
        }
    }
    for shapes in &shape_lists {
        for ctx in ["top", "in-for", "in-gosub"] {
            for kind in ["asg-div", "array", "sub-arg"] {
                for mode in ["resume-label", "resume-next", "resume"] {
                    // quick: call depth 1 and 2 in full for the plain failing assignment; depth 3 and the other
                    // failing statements sampled
                    let keep = thorough
                        || (shapes.len() <= 2 && kind == "asg-div")
                        || (shapes.len() <= 2 && rng.below(6) == 0)
                        || (shapes.len() == 3 && rng.below(if kind == "asg-div" { 5 } else { 30 }) == 0);
                    if !keep {
                        continue;
                    }
                    let p = deep_call(shapes, ctx, kind, mode);
                    let sig = format!("deep-call:depth{}:{}:{}:{}:{}", shapes.len(), shapes.join(">"), ctx, kind, mode);
                    cx.counter += 1;
                    let trace = cx.model_every > 0;
                    cx.jobs.push(Job { p, sig, class: format!("deep-call.depth{}.{}", shapes.len(), mode), trace, matrix_key: None, big: true, frames: false });
                }
            }
        }
    }
}

// ---- E. orders of enabling / disabling handlers

fn handler_orders(cx: &mut Ctx) {
    let alpha = ["OA", "OB", "ON", "OZ"];
    let seqs = |max: usize, min: usize| {
        let mut v: Vec<Vec<&str>> = vec![];
        for len in min..=max {
            for code in 0..alpha.len().pow(len as u32) {
                let mut c = code;
                let mut q = vec![];
                for _ in 0..len {
                    q.push(alpha[c % 4]);
                    c /= 4;
                }
                v.push(q);
            }
        }
        v
    };
    let line = |x: &str| match x {
        "OA" => L::OnErrGoto(s("H1")),
        "OB" => L::OnErrGoto(s("H2")),
        "ON" => L::OnErrNext,
        _ => L::OnErrZero,
    };
    for s1 in seqs(2, 1) {
        for s2 in seqs(2, 0) {
            let mut p = Prog::new();
            for x in &s1 {
                p.push(line(x));
            }
            p.push(tok("a"));
            p.push(L::Fail(FK::AsgDiv));
            p.push(tok("b"));
            for x in &s2 {
                p.push(line(x));
            }
            p.push(L::Fail(FK::Array));
            p.push(tok("c"));
            p.push(L::PrintVars(s("v"), vec![s("N%")]));
            p.push(L::End);
            p.push(L::Label(s("H1")));
            p.push(L::Add(s("N%"), 1));
            p.push(L::PrintErr(s("h1")));
            p.push(L::ResumeNext);
            p.push(L::Label(s("H2")));
            p.push(L::Add(s("N%"), 10));
            p.push(L::PrintErr(s("h2")));
            p.push(L::ResumeNext);
            let sig = format!("handler-order:{}/{}", s1.join("."), s2.join("."));
            check(cx, &p, &sig, "handler-order");
        }
    }
}

// ---- F. the real binary_search obeys the contract the model assumes

fn finder_contract(cx: &mut Ctx, rng: &mut Rng, n: usize) {
    let mut reqs = vec![];
    let mut inputs = vec![];
    for _ in 0..n {
        let len = rng.range(0, 12) as usize;
        let mut v: Vec<usize> = vec![];
        let mut x = 0usize;
        for _ in 0..len {
            x += *rng.pick(&[0usize, 0, 1, 1, 2, 5]);
            v.push(x);
        }
        let a = rng.range(0, x as i64 + 2) as usize;
        let r = match v.binary_search(&a) {
            Ok(i) => format!("(ok {})", i),
            Err(i) => format!("(err {})", i),
        };
        if let Ok(i) = v.binary_search(&a) {
            cx.rep.bump(if v.get(i + 1) == Some(&a) { "binary-search.ok-answer-not-the-last-occurrence" } else { "binary-search.ok-answer-is-the-last-occurrence" });
        }
        reqs.push(format!("(ctl.finder ({}) {} {})", v.iter().map(|x| x.to_string()).collect::<Vec<_>>().join(" "), a, r));
        inputs.push((v, a, r));
    }
    let answers = ask(&reqs);
    for ((v, a, r), ans) in inputs.iter().zip(answers.iter()) {
        cx.rep.case(if v.len() > 1 { Some(format!("bs:{:?}:{}", v, a)) } else { None });
        cx.rep.bump("class.binary-search-contract");
        if !ans.starts_with("(finder t ") {
            cx.rep.fail(Failure {
                kind: Kind::ModelVsImpl,
                signature: "binary-search-contract".into(),
                input: format!("{:?}.binary_search(&{})", v, a),
                implementation: r.clone(),
                expected: "an answer admitted by RbModel.Ctl.Admissible".into(),
                note: ans.clone(),
            });
        }
    }
}

fn report_matrix(cx: &mut Ctx) {
    // aggregate: a (position, mode) failing for every kind tried -> `*:position:mode`;
    // then a (kind, mode) failing at every position tried -> `kind:*:mode`
    let fails = std::mem::take(&mut cx.matrix_fail);
    let seen = std::mem::take(&mut cx.matrix_seen);
    let mut left: BTreeMap<(String, String, String), Failure> = fails.clone();
    let mut out: Vec<Failure> = vec![];
    let mut by_pm: BTreeMap<(String, String), (usize, usize)> = BTreeMap::new();
    for ((_, p, m), _) in seen.iter() {
        by_pm.entry((p.clone(), m.clone())).or_insert((0, 0)).0 += 1;
    }
    for ((_, p, m), _) in fails.iter() {
        by_pm.entry((p.clone(), m.clone())).or_insert((0, 0)).1 += 1;
    }
    for ((p, m), (tried, failed)) in by_pm.iter() {
        if *tried >= 4 && tried == failed {
            let keys: Vec<_> = left.keys().filter(|k| &k.1 == p && &k.2 == m).cloned().collect();
            let mut first = left[&keys[0]].clone();
            first.signature = format!("onerr:*:{}:{}", p, m);
            first.note = format!("fails for every failing-statement kind tried at this position ({}); {}", tried, first.note);
            out.push(first);
            for k in keys {
                left.remove(&k);
            }
        }
    }
    let mut by_km: BTreeMap<(String, String), (usize, usize)> = BTreeMap::new();
    for ((k, p, m), _) in seen.iter() {
        if by_pm.get(&(p.clone(), m.clone())).map(|(t, f)| *t >= 4 && t == f).unwrap_or(false) {
            continue;
        }
        by_km.entry((k.clone(), m.clone())).or_insert((0, 0)).0 += 1;
    }
    for ((k, _, m), _) in left.iter() {
        by_km.entry((k.clone(), m.clone())).or_insert((0, 0)).1 += 1;
    }
    for ((k, m), (tried, failed)) in by_km.iter() {
        if *tried >= 4 && tried == failed {
            let keys: Vec<_> = left.keys().filter(|x| &x.0 == k && &x.2 == m).cloned().collect();
            let mut first = left[&keys[0]].clone();
            first.signature = format!("onerr:{}:*:{}", k, m);
            first.note = format!("fails at every position tried ({}); {}", tried, first.note);
            out.push(first);
            for x in keys {
                left.remove(&x);
            }
        }
    }
    for ((k, p, m), mut f) in left {
        f.signature = format!("onerr:{}:{}:{}", k, p, m);
        out.push(f);
    }
    for f in out {
        cx.rep.fail(f);
    }
}

fn main() {
    std::panic::set_hook(Box::new(|_| {}));
    let args: Vec<String> = std::env::args().collect();
    if args.len() >= 3 && args[1] == "--run" {
        let text = std::fs::read_to_string(&args[2]).expect("file");
        match run_real(&text, false, 60_000) {
            Ok(r) => println!("prints {:?}\n{}", r.out.replace('\n', "|"), end_str_real(&r.end)),
            Err(e) => println!("front end: {}", e),
        }
        return;
    }
    let mut rng = Rng::from_env();
    let rep = Report::new(
        "C05",
        "token programs (one statement per line, a token printed per statement): exhaustive label/jump/handler skeletons, \
         GOSUB nesting histories, GOTO out of every loop kind under every enclosing loop kind, GOTO target layouts (the label at any statement position of any enclosing or sibling block: loop bodies, THEN / ELSEIF / ELSE, CASE / CASE ELSE, SUB body, top level), the ON ERROR matrix \
         (failing statement kind x position in a block x resume mode), errors 1..3 calls deep (the outer procedures inside FOR loops / GOSUB routines; afterwards module-level loops and a RETURN that must raise error 3), all orders of enabling/disabling handlers; each is run on \
         the real interpreter and on the line-based reference interpreter (ImplVsProperty) and the real VM's control state before \
         every instruction is compared with the Lean control machine driven by the observed decisions (ModelVsImpl). \
         distinct = distinct program texts accepted by the front end.",
    );
    let thorough = rep.is_thorough();
    let mut cx = Ctx {
        rep,
        pending: vec![],
        pending_frames: vec![],
        jobs: vec![],
        model_every: if std::env::var("VERIF_C05_NOMODEL").is_ok() { 0 } else if thorough { 3 } else { 4 },
        counter: 0,
        matrix_fail: BTreeMap::new(),
        matrix_seen: BTreeMap::new(),
    };

    let only = std::env::var("VERIF_C05_ONLY").unwrap_or_default();
    let want = |x: &str| only.is_empty() || only.contains(x);
    let t0 = std::time::Instant::now();
    // A. skeletons
    if !want("A") {
    } else if thorough {
        for len in 1..=5 {
            enumerate_skeletons(&mut cx, &mut rng, &J_ALPHA, "jump", len, false, 1);
        }
        enumerate_skeletons(&mut cx, &mut rng, &J_ALPHA, "jump", 6, false, 12);
        for len in 1..=4 {
            enumerate_skeletons(&mut cx, &mut rng, &J_ALPHA, "jump", len, true, 1);
            enumerate_skeletons(&mut cx, &mut rng, &E_ALPHA, "error", len, false, 1);
        }
        enumerate_skeletons(&mut cx, &mut rng, &E_ALPHA, "error", 5, false, 4);
        enumerate_skeletons(&mut cx, &mut rng, &E_ALPHA, "error", 6, false, 80);
        cx.rep.exhaustive_parts.push(
            "every sequence of <= 5 statements over {PRINT, A:, B:, GOTO A, GOTO B, GOSUB A, GOSUB B, RETURN, RETURN A, END} in the main module \
             and of <= 4 inside a SUB; every sequence of <= 4 statements over {PRINT, A:, GOTO A, failing assignment, ON ERROR GOTO A, \
             ON ERROR RESUME NEXT, ON ERROR GOTO 0, RESUME, RESUME NEXT, RESUME A, RETURN, GOSUB A, END, D% = 1} (well-formed ones); \
             1/12 of the jump skeletons of length 6, 1/4 (1/80) of the error skeletons of length 5 (6)"
                .into(),
        );
    } else {
        for len in 1..=3 {
            enumerate_skeletons(&mut cx, &mut rng, &J_ALPHA, "jump", len, false, 1);
            enumerate_skeletons(&mut cx, &mut rng, &E_ALPHA, "error", len, false, 1);
        }
        enumerate_skeletons(&mut cx, &mut rng, &J_ALPHA, "jump", 4, false, 3);
        enumerate_skeletons(&mut cx, &mut rng, &J_ALPHA, "jump", 5, false, 80);
        enumerate_skeletons(&mut cx, &mut rng, &J_ALPHA, "jump", 3, true, 1);
        enumerate_skeletons(&mut cx, &mut rng, &J_ALPHA, "jump", 4, true, 8);
        enumerate_skeletons(&mut cx, &mut rng, &E_ALPHA, "error", 4, false, 8);
        enumerate_skeletons(&mut cx, &mut rng, &E_ALPHA, "error", 5, false, 200);
        cx.rep.exhaustive_parts.push(
            "every well-formed sequence of <= 3 statements over the jump alphabet (main module and inside a SUB) and over the error alphabet; \
             samples of lengths 4 and 5"
                .into(),
        );
    }
    run_jobs(&mut cx);
    eprintln!("skeletons done {:?}", t0.elapsed());

    // B. GOSUB histories
    for _ in 0..(if !want("B") { 0 } else if thorough { 3000 } else { 400 }) {
        let (p, sig) = gosub_history(&mut rng);
        check(&mut cx, &p, &sig, "gosub-history");
    }
    run_jobs(&mut cx);

    if want("B") {
        return_out_family(&mut cx, thorough);
        run_jobs(&mut cx);
    }
    if want("B") || want("P") {
        left_pending_family(&mut cx, thorough);
        cx.rep.exhaustive_parts.push("procedures left while a GOSUB of their own is pending (EXIT SUB / EXIT FUNCTION inside the routine, at once / on the second call / from a nested routine; END SUB / END FUNCTION reached inside the routine; an error in the routine handled by RESUME label; controls that RETURN) x the procedure's GOSUB issued at its top level / in a FOR x called at FOR / SELECT CASE depth 0..2 of the caller's own GOSUB routine, which RETURNs from inside those constructs (at once / in the second round) x the caller's GOSUB issued in none / FOR / FOR STEP / WHILE x caller = main module / SUB called from a FOR body x one or two GOSUBs pending in the caller (quick: the procedure's FOR and the SUB caller sampled)".into());
        run_jobs(&mut cx);
    }
    eprintln!("gosub done {:?}", t0.elapsed());
    // C. GOTO out of loops
    for ko in if want("C") { &LOOPS[..] } else { &LOOPS[..0] } {
        let ko = *ko;
        for ki in INNER {
            for shape in [0usize, 1, 3] {
                for guarded in [false, true] {
                    for in_sub in [false, true] {
                        if !thorough && in_sub && guarded {
                            continue;
                        }
                        let p = goto_out(ko, "for", ki, shape, guarded, in_sub);
                        let _ = (shape, guarded, in_sub);
                        let sig = format!("goto-out:from-{}:label-in-{}-body", ki, ko);
                        {
                    cx.counter += 1;
                    let trace = cx.model_every > 0;
                    cx.jobs.push(Job { p, sig, class: "goto-out-of-loop".to_owned(), trace, matrix_key: None, big: false, frames: true });
                }
                    }
                }
            }
            for km in LOOPS {
                if !thorough && km != "for" && km != "while" && km != "forstep" {
                    continue;
                }
                let p = goto_out(ko, km, ki, 2, false, false);
                let _ = km;
                let sig = format!("goto-out:from-{}:label-in-{}-body", ki, ko);
                {
                    cx.counter += 1;
                    let trace = cx.model_every > 0;
                    cx.jobs.push(Job { p, sig, class: "goto-out-of-loop".to_owned(), trace, matrix_key: None, big: false, frames: true });
                }
            }
        }
    }
    cx.rep.exhaustive_parts.push("GOTO out of {FOR, FOR STEP +, FOR STEP -, WHILE, DO top, DO bottom, SELECT CASE, IF} x enclosing loop kind x target (outer body, after the outer loop, before the inner construct, 3 levels) x main module / SUB".into());
    run_jobs(&mut cx);

    eprintln!("goto-out done {:?}", t0.elapsed());
    // C2. GOTO target layouts
    if want("T") {
        goto_target_family(&mut cx, &mut rng, thorough);
        cx.rep.exhaustive_parts.push("GOTO target layouts: every chain of <= 2 (thorough: <= 3) enclosing blocks over {FOR, WHILE, DO top, DO bottom, THEN, ELSEIF, ELSE, CASE, CASE ELSE} (and none) x construct left by the jump {FOR, FOR STEP +/-, WHILE, DO top/bottom, SELECT CASE, IF} x label position {after the construct, last statement of the block, before the construct, inside the THEN / ELSEIF / ELSE block of a sibling IF (first or later statement), in the next block of the same IF / SELECT CASE} in the main module (quick, chains of 2: constructs {FOR, FOR STEP -, WHILE, SELECT CASE} x positions {after, before, sibling ELSE, next block of the same statement}); two constructs left at once, jumps taken on the second iteration only and SUB bodies sampled".into());
        run_jobs(&mut cx);
    }
    eprintln!("goto-target done {:?}", t0.elapsed());
    // D. the ON ERROR matrix
    for kind in if want("D") { &KINDS[..] } else { &KINDS[..0] } {
        let kind = *kind;
        for pos in POSITIONS {
            for mode in MODES {
                let Some(p) = matrix_program(kind, pos, mode) else { continue };
                let key = (kind.to_string(), pos.to_string(), mode.to_string());
                let sig = format!("onerr:{}:{}:{}", kind, pos, mode);
                cx.counter += 1;
                let trace = cx.model_every > 0 && (thorough || cx.counter % 2 == 0);
                cx.jobs.push(Job { p, sig, class: format!("onerr.{}", mode), trace, matrix_key: Some(key), big: false, frames: false });
            }
        }
    }
    run_jobs(&mut cx);
    report_matrix(&mut cx);
    cx.rep.exhaustive_parts.push(format!("ON ERROR matrix: {} failing-statement kinds x {} positions x {} resume modes (combinations that cannot terminate excluded)", KINDS.len(), POSITIONS.len(), MODES.len()));

    eprintln!("matrix done {:?}", t0.elapsed());
    // H. errors several calls deep
    if want("H") {
        deep_call_family(&mut cx, &mut rng, thorough);
        cx.rep.exhaustive_parts.push("errors 1..3 calls deep (procedures calling procedures, the failing statement in the innermost): every procedure plain / inside a FOR with its own limit and step / inside a GOSUB routine / both x the outermost call at the top level / inside a module-level FOR / inside a module-level GOSUB routine x RESUME label / RESUME NEXT / RESUME; afterwards module-level loops print their counters and a RETURN with nothing pending must raise error 3 (quick: depth 1 and 2 in full, depth 3 sampled)".into());
        run_jobs(&mut cx);
    }
    eprintln!("deep-call done {:?}", t0.elapsed());
    // E. handler orders
    if want("E") {
        handler_orders(&mut cx);
    }
    cx.rep.exhaustive_parts.push("all sequences of 1..2 ON ERROR statements (two handlers, RESUME NEXT, GOTO 0) before a first failure x all sequences of 0..2 before a second".into());
    run_jobs(&mut cx);

    // F. contract of the real binary_search
    eprintln!("orders done {:?}", t0.elapsed());
    // G. the duplicate-address witness of Thm.C05.finder_next_for_any_answer_false, tried on the real code:
    // a CONST (records an address, emits nothing) right before a statement whose FIRST instruction fails
    if want("G") {
        for before in 0..(if thorough { 40 } else { 16 }) {
            for after in 0..(if thorough { 12 } else { 4 }) {
                for n_const in 1..=2 {
                    for mode in ["on-error-resume-next", "resume-next"] {
                        let mut p = Prog::bare();
                        if mode == "resume-next" {
                            p.push(L::OnErrGoto(s("HH")));
                        } else {
                            p.push(L::OnErrNext);
                        }
                        for k in 0..before {
                            p.push(L::Tok(format!("b{}", k)));
                        }
                        for _ in 0..n_const {
                            p.push(L::Const);
                        }
                        p.push(L::Return(None));
                        for k in 0..after {
                            p.push(L::Tok(format!("a{}", k)));
                        }
                        p.push(L::End);
                        p.push(L::Label(s("HH")));
                        p.push(L::PrintErr(s("h")));
                        p.push(L::ResumeNext);
                        check(&mut cx, &p, &format!("const-before-failing-first-instruction:{}", mode), "const-duplicate-address");
                    }
                }
            }
        }
        run_jobs(&mut cx);
    }
    finder_contract(&mut cx, &mut rng, if thorough { 20_000 } else { 2_000 });

    cx.rep.notes.push("reference semantics chosen where the property is silent: RESUME NEXT after a failed FOR header (bounds or step) continues after NEXT and after a failed SELECT CASE expression after END SELECT (the statement did not set up its loop / selector); after a failed IF/ELSEIF/WHILE/DO condition it enters the block; RESUME label leaves the procedures in progress; errors raised while a handler is active are out of scope (not compared)".into());
    cx.rep.finish();
}
