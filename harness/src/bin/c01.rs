//! C01 — running a core-language program yields exactly the prescribed output and outcome.
//! Real implementation (parser + linter + generator + VM through the in-memory hook) vs the
//! big-step reference semantics `RbModel.Ref` (Lean driver) on type-directed random core programs.

use rb_harness::corpus;
use rb_harness::driver::ask;
use rb_harness::gen_prog::{generate, Opts};
use rb_harness::json::J;
use rb_harness::refrun::{core_ast, core_src_and_code, parse_ref_answer, run_real, Observed};
use rb_harness::report::{Failure, Kind, Report};
use rb_harness::rng::Rng;

const FUEL: u64 = 4000;
const BUDGET: u64 = 400_000;

fn core_opts(faults: bool) -> Opts {
    Opts {
        max_depth: 3,
        max_block: 3,
        top_stmts: 8,
        subs: false,
        gosub: false,
        goto_fwd: false,
        on_error: false,
        data: true,
        strings: true,
        floats: true,
        select: true,
        division: true,
        faults,
        jumps_out: false,
        relayout: true,
    }
}

struct Case {
    text: String,
    ast: String,
    feats: String,
}

fn disagree(real: &Observed, rf: &(String, Vec<u8>, String)) -> Option<&'static str> {
    if rf.0 == "inexact" || rf.0 == "outOfFuel" || real.outcome == "budget" {
        return None;
    }
    if real.outcome != rf.0 {
        return Some("outcome");
    }
    if real.out != rf.1 {
        return Some("output");
    }
    None
}

fn shrink(text: &str, what: &str) -> String {
    // time-boxed: shrinking is a convenience, the unshrunk program is a failing input already
    let deadline = std::time::Instant::now() + std::time::Duration::from_secs(25);
    let mut lines: Vec<String> = text.lines().map(|l| l.to_owned()).collect();
    let mut changed = true;
    let mut rounds = 0;
    while changed && rounds < 6 && std::time::Instant::now() < deadline {
        changed = false;
        rounds += 1;
        let mut i = 0;
        while i < lines.len() && std::time::Instant::now() < deadline {
            let mut cand = lines.clone();
            cand.remove(i);
            let t = cand.join("\n") + "\n";
            if let Some(ast) = core_ast(&t) {
                let tc = std::time::Instant::now();
                let real = run_real(&t, b"", BUDGET);
                let t_real = tc.elapsed().as_secs_f32();
                if std::env::var("VERIF_C01_TRACE").is_ok() {
                    eprintln!("[c01] shrink candidate: real {:.1}s, {} lines", t_real, cand.len());
                }
                if real.outcome == "budget" {
                    // deleting the line made the program loop: not a smaller failing program, and the reference
                    // interpreter would burn its whole fuel on it
                    i += 1;
                    continue;
                }
                let ans = ask(&[format!("(ref.run {} {})", FUEL.min(30_000), ast)]);
                if let Some(rf) = parse_ref_answer(&ans[0]) {
                    if rf.0 != "outOfFuel" && disagree(&real, &rf) == Some(if what == "outcome" { "outcome" } else { "output" }) {
                        lines = cand;
                        changed = true;
                        continue;
                    }
                }
            }
            i += 1;
        }
    }
    lines.join("\n") + "\n"
}

fn main() {
    std::panic::set_hook(Box::new(|_| {}));
    let mut rng = Rng::from_env();
    let mut rep = Report::new(
        "C01",
        "type-directed random programs over the core grammar (five value types, 13 binary + 2 unary operators, parentheses, \
         assignment with conversion, PRINT with ; and , DATA/READ, IF/ELSEIF/ELSE, SELECT CASE with simple/IS/range lists, FOR with \
         constant / negative / run-time computed STEP, WHILE, DO top/bottom WHILE/UNTIL; nesting <= 3; a third of the programs with one \
         injected run-time fault: division by zero, overflow, READ past DATA, zero STEP) + the core-language programs of the repository's \
         own tests + the directed families boundary-arith (+ - * and unary minus at the ends of the INTEGER / LONG ranges) and \
         bare-condition (a bare LONG / SINGLE / DOUBLE literal or variable as the condition of every conditional construct); each run on the real implementation and on the reference semantics; compared: stdout bytes and outcome (normal, or \
         error code + row + col). class = (construct set, outcome kind); non-trivial = at least one loop or branch.",
    );
    let thorough = rep.is_thorough();
    let n_gen = if thorough { 30_000 } else { 500 };
    let mut cases: Vec<Case> = vec![];
    // corpus programs inside the core language
    for t in corpus::accepted_programs() {
        if corpus::needs_real_devices(&t) {
            continue;
        }
        match core_ast(&t) {
            Some(ast) => cases.push(Case { text: t, ast, feats: "corpus".into() }),
            None => rep.bump("corpus.outside-core"),
        }
    }
    rep.bump_by("corpus.core-programs", cases.len() as u64);
    let mut outside = 0;
    for k in 0..n_gen {
        let (text, feats) = generate(&mut rng, &core_opts(k % 3 == 0));
        match core_ast(&text) {
            Some(ast) => cases.push(Case { text, ast, feats: feats.join("+") }),
            None => outside += 1,
        }
    }
    let n_grid = if rep.is_thorough() { 400 } else { 40 };
    for _ in 0..n_grid {
        let text = rb_harness::gen_prog::grid(&mut rng);
        match core_ast(&text) {
            Some(ast) => cases.push(Case { text, ast, feats: "grid".into() }),
            None => outside += 1,
        }
    }
    rep.bump_by("generated.grid", n_grid as u64);
    // operators at the ends of the ranges (after a wave-8 seed: `a - b` computed as `a + (-b)` fails for
    // b = -32768 although the difference fits): every ordered pair of boundary values of INTEGER / LONG, also
    // mixed, under + - * and unary minus, operands in variables and as literals; one operation per program
    // (an Overflow ends the run), several harmless operations first
    {
        let ints = ["-32768", "-32767", "-1", "0", "1", "32767"];
        let longs = ["-2147483648", "-2147483647", "-32769", "-1", "1", "32768", "2147483647"];
        let mut pairs: Vec<(String, String, &str, &str)> = vec![];
        for a in ints {
            for b in ints {
                pairs.push((a.into(), b.into(), "%", "%"));
            }
            for b in longs {
                pairs.push((a.into(), b.into(), "%", "&"));
                pairs.push((b.into(), a.into(), "&", "%"));
            }
        }
        for a in longs {
            for b in longs {
                pairs.push((a.into(), b.into(), "&", "&"));
            }
        }
        let keep_1_in = if thorough { 1 } else { 4 };
        let mut n_boundary = 0u64;
        for (a, b, sa, sb) in pairs {
            for op in ["+", "-", "*"] {
                if rng.below(keep_1_in) != 0 {
                    continue;
                }
                let text = if rng.chance(1, 2) {
                    format!("A{sa} = {a}\nB{sb} = {b}\nPRINT \"go\"\nPRINT A{sa} {op} B{sb}\nC& = A{sa} {op} B{sb}\nPRINT C&; -A{sa}; -B{sb}\n")
                } else {
                    format!("A{sa} = {a}\nPRINT \"go\"\nPRINT A{sa} {op} ({b}); ({b}) {op} A{sa}\nPRINT -A{sa}\n")
                };
                match core_ast(&text) {
                    Some(ast) => {
                        cases.push(Case { text, ast, feats: "boundary-arith".into() });
                        n_boundary += 1;
                    }
                    None => outside += 1,
                }
            }
        }
        rep.bump_by("generated.boundary-arith", n_boundary);
    }
    // conditions that are not comparisons (after a wave-11 seed: JumpIfFalse read its operand as an INTEGER): a bare
    // LONG / SINGLE / DOUBLE value - non-zero below one half, beyond the INTEGER range, zero, negative - as a literal
    // and in a variable, as the condition of every conditional construct of the core language
    {
        let values: [(&str, &str); 14] = [
            ("!", "0.25"), ("!", "-0.25"), ("!", "0.4375"), ("!", "0"), ("!", "40000.5"), ("!", "-70000.5"), ("!", "1.5"),
            ("#", "0.125#"), ("#", "-0.375#"), ("#", "3000000000.5#"), ("#", "0"),
            ("&", "100000"), ("&", "-32769"), ("&", "0"),
        ];
        let mut n_bare = 0u64;
        for (sfx, v) in values {
            for as_var in [false, true] {
                let c = if as_var { format!("V{}", sfx) } else { v.to_owned() };
                let c = if as_var || !v.starts_with('-') { c } else { format!("({})", c) };
                let init = if as_var { format!("V{} = {}\n", sfx, v) } else { String::new() };
                let forms = [
                    format!("IF {c} THEN\nPRINT \"t\"\nELSE\nPRINT \"f\"\nEND IF\n"),
                    format!("IF N% = 1 THEN\nPRINT \"a\"\nELSEIF {c} THEN\nPRINT \"t\"\nELSE\nPRINT \"f\"\nEND IF\n"),
                    format!("WHILE {c}\nN% = N% + 1\nPRINT N%\nIF N% = 2 THEN\nV{sfx} = 0\nEND IF\nIF N% > 3 THEN\nPRINT \"x\"\nSYSTEM\nEND IF\nWEND\n"),
                    format!("DO WHILE {c}\nN% = N% + 1\nPRINT N%\nIF N% > 2 THEN\nPRINT \"x\"\nSYSTEM\nEND IF\nLOOP\n"),
                    format!("DO UNTIL {c}\nN% = N% + 1\nPRINT N%\nIF N% > 2 THEN\nPRINT \"x\"\nSYSTEM\nEND IF\nLOOP\n"),
                    format!("DO\nN% = N% + 1\nPRINT N%\nIF N% > 2 THEN\nPRINT \"x\"\nSYSTEM\nEND IF\nLOOP WHILE {c}\n"),
                    format!("DO\nN% = N% + 1\nPRINT N%\nIF N% > 2 THEN\nPRINT \"x\"\nSYSTEM\nEND IF\nLOOP UNTIL {c}\n"),
                ];
                for (fi, body) in forms.into_iter().enumerate() {
                    let text = format!("{}PRINT \"go\"\n{}PRINT \"done\"; N%\n", init, body);
                    match core_ast(&text) {
                        Some(ast) => {
                            cases.push(Case { text, ast, feats: "bare-condition".into() });
                            n_bare += 1;
                        }
                        None => {
                            rep.bump(&format!("bare-condition.outside-core.form{}.{}.{}{}", fi, if as_var { "var" } else { "lit" }, v, sfx));
                            outside += 1
                        }
                    }
                }
            }
        }
        rep.bump_by("generated.bare-condition", n_bare);
    }
    rep.bump_by("generated.outside-core-or-rejected", outside);
    // every program runs once on the real implementation (in parallel threads), results are shared by the comparisons
    let t0 = std::time::Instant::now();
    let reals: Vec<Observed> = {
        let texts: Vec<String> = cases.iter().map(|c| c.text.clone()).collect();
        let n_threads = 8;
        let chunk = (texts.len() + n_threads - 1) / n_threads.max(1);
        let mut handles = vec![];
        for part in texts.chunks(chunk.max(1)) {
            let part: Vec<String> = part.to_vec();
            handles.push(std::thread::spawn(move || part.iter().map(|t| run_real(t, b"", BUDGET)).collect::<Vec<_>>()));
        }
        handles.into_iter().flat_map(|h| h.join().unwrap()).collect()
    };
    let reqs: Vec<String> = cases.iter().map(|c| format!("(ref.run {} {})", FUEL, c.ast)).collect();
    eprintln!("[c01] {:.1}s before: let answers = ask(&reqs);", t0.elapsed().as_secs_f32());
    let answers = ask(&reqs);
    // the code-generator model: compile(model) must equal the real instruction list, instruction for instruction
    let mut creqs = vec![];
    let mut cidx = vec![];
    for (k, c) in cases.iter().enumerate() {
        if let Some((src, table, code)) = core_src_and_code(&c.text) {
            creqs.push(format!("(core.compare {} {} {})", src, table, code));
            cidx.push(k);
        } else {
            rep.bump("compile-model.not-serialisable");
        }
    }
    eprintln!("[c01] {:.1}s before: let canswers = ask(&creqs);", t0.elapsed().as_secs_f32());
    let canswers = ask(&creqs);
    // the VM model run on the model-compiled code must behave like the real pipeline too
    let vreqs: Vec<String> = creqs
        .iter()
        .map(|r| {
            // (core.compare <src> <table> <code>) -> (core.run <fuel> <src>)
            let src_end = {
                // the first top-level s-expression after the command
                let body = &r["(core.compare ".len()..];
                let mut depth = 0i32;
                let mut end = 0;
                for (i, ch) in body.char_indices() {
                    if ch == '(' {
                        depth += 1;
                    } else if ch == ')' {
                        depth -= 1;
                        if depth == 0 {
                            end = i + 1;
                            break;
                        }
                    }
                }
                end
            };
            format!("(core.run {} {})", BUDGET, &r["(core.compare ".len().."(core.compare ".len() + src_end])
        })
        .collect();
    eprintln!("[c01] {:.1}s before: let vanswers = ask(&vreqs);", t0.elapsed().as_secs_f32());
    let vanswers = ask(&vreqs);
    // how many explored programs satisfy the premise of C01_core_correct (decided by the verified checker wfTopB)
    let wreqs: Vec<String> = vreqs
        .iter()
        .map(|r| {
            let rest = &r["(core.run ".len()..];
            let sp = rest.find(' ').unwrap_or(0);
            format!("(core.wf {}", &rest[sp + 1..])
        })
        .collect();
    eprintln!("[c01] {:.1}s before: let wanswers = ask(&wreqs);", t0.elapsed().as_secs_f32());
    let wanswers = ask(&wreqs);
    let mut outside_shown = 0;
    for (j, a) in wanswers.iter().enumerate() {
        if a.starts_with("(wf true") {
            rep.bump("theorem-premise.wfTopB-true");
        } else if a.starts_with("(wf false") {
            rep.bump("theorem-premise.wfTopB-false");
            if outside_shown < 2 {
                outside_shown += 1;
                rep.sample(J::s(format!("outside the premise of C01_core_correct:\n{}", cases[cidx[j]].text)));
            }
        } else {
            rep.bump("theorem-premise.unreadable");
        }
    }
    for (j, a) in vanswers.iter().enumerate() {
        let c = &cases[cidx[j]];
        let real = reals[cidx[j]].clone();
        match parse_ref_answer(a) {
            Some(vm) => {
                if vm.0 == "outOfFuel" || real.outcome == "budget" {
                    rep.bump("vm-model.discarded-fuel");
                } else if vm.0 == "stuck" {
                    // the model VM gives up on inexact floats (and on anything the real VM would panic on)
                    rep.bump("vm-model.stuck-or-inexact");
                } else if vm.0 != real.outcome || vm.1 != real.out {
                    rep.fail(Failure {
                        kind: Kind::ModelVsImpl,
                        signature: format!("vm-model:{}", if vm.0 != real.outcome { "outcome" } else { "output" }),
                        input: c.text.clone(),
                        implementation: format!("{} / {:?}", real.outcome, String::from_utf8_lossy(&real.out)),
                        expected: format!("{} / {:?}", vm.0, String::from_utf8_lossy(&vm.1)),
                        note: "real pipeline vs RbModel.CoreVm.run (RbModel.Core.compile p)".into(),
                    });
                } else {
                    rep.bump("vm-model.same");
                }
            }
            None => rep.bump("vm-model.unreadable"),
        }
    }
    for (j, a) in canswers.iter().enumerate() {
        let c = &cases[cidx[j]];
        if a.starts_with("(same") {
            rep.bump("compile-model.same");
            let n: u64 = a.trim_matches(|ch| ch == '(' || ch == ')').split(' ').nth(1).and_then(|x| x.parse().ok()).unwrap_or(0);
            rep.bump_by("compile-model.instructions-compared", n);
        } else if a.starts_with("(not-core") {
            rep.bump("compile-model.instruction-outside-core");
        } else {
            let parts: Vec<&str> = a.trim_matches(|ch| ch == '(' || ch == ')').split(' ').collect();
            let kind: String = parts.get(2).map(|x| x.split('@').next().unwrap_or("").chars().take_while(|ch| !ch.is_ascii_digit() && *ch != ':').collect()).unwrap_or_default();
            rep.fail(Failure {
                kind: Kind::ModelVsImpl,
                signature: format!("compile:{}:{}", parts.first().unwrap_or(&"?"), kind),
                input: c.text.clone(),
                implementation: a.clone(),
                expected: "RbModel.Core.compile = normalise(real instruction list)".into(),
                note: "(differ <index> <model instr> <real instr> <model len> <real len>)".into(),
            });
        }
    }
    eprintln!("[c01] {:.1}s before: let mut shrunk = 0;", t0.elapsed().as_secs_f32());
    let mut shrunk = 0;
    for (k, c) in cases.iter().enumerate() {
        if std::env::var("VERIF_C01_TRACE").is_ok() && k % 20 == 0 {
            eprintln!("[c01] {:.1}s case {}", t0.elapsed().as_secs_f32(), k);
        }
        let real = reals[k].clone();
        let real2 = if k % 50 == 0 { Some(run_real(&c.text, b"", BUDGET)) } else { None };
        let Some(rf) = parse_ref_answer(&answers[k]) else {
            rep.case(Some(c.text.clone()));
            rep.fail(Failure {
                kind: Kind::ModelVsImpl,
                signature: "ref:unreadable-ast".into(),
                input: c.text.clone(),
                implementation: c.ast.chars().take(300).collect(),
                expected: answers[k].clone(),
                note: "the Lean reader rejected the serialised linted AST".into(),
            });
            continue;
        };
        let okind = real.outcome.split(' ').take(2).collect::<Vec<_>>().join(" ");
        let nontrivial = c.feats.contains("for") || c.feats.contains("if") || c.feats.contains("while") || c.feats.contains("do") || c.feats.contains("select") || c.feats == "corpus";
        rep.case(if nontrivial { Some(format!("{}|{}", c.feats, okind)) } else { None });
        rep.bump(&format!("outcome.{}", okind));
        if rf.0 == "inexact" {
            rep.bump("discarded.inexact-float");
            continue;
        }
        if rf.0 == "outOfFuel" || real.outcome == "budget" {
            rep.bump("discarded.out-of-fuel");
            continue;
        }
        if let Some(r2) = real2 {
            if r2 != real {
                rep.fail(Failure {
                    kind: Kind::ImplVsProperty,
                    signature: "nondeterministic".into(),
                    input: c.text.clone(),
                    implementation: format!("{:?} then {:?}", real.outcome, r2.outcome),
                    expected: "the same outcome and output on every run".into(),
                    note: "the outcome must be a function of program text and input".into(),
                });
            }
        }
        if let Some(what) = disagree(&real, &rf) {
            // the first few failing programs are shrunk (and re-run); the others are reported as they are, with the
            // results already at hand: a change that breaks many programs must not run the check into its time limit
            let (text, real_s, rf_s) = if shrunk < 6 {
                shrunk += 1;
                let text = shrink(&c.text, what);
                let real_s = run_real(&text, b"", BUDGET);
                let rf_s = core_ast(&text)
                    .map(|a| ask(&[format!("(ref.run {} {})", FUEL, a)])[0].clone())
                    .and_then(|a| parse_ref_answer(&a))
                    .unwrap_or(rf.clone());
                (text, real_s, rf_s)
            } else {
                (c.text.clone(), real.clone(), rf.clone())
            };
            rep.fail(Failure {
                kind: Kind::ImplVsProperty,
                signature: format!("ref:{}", what),
                input: text,
                implementation: format!("{} / {:?}", real_s.outcome, String::from_utf8_lossy(&real_s.out)),
                expected: format!("{} / {:?}", rf_s.0, String::from_utf8_lossy(&rf_s.1)),
                note: "implementation vs reference semantics (RbModel.Ref)".into(),
            });
        }
        if k < 2 || (k == cases.len() - 1) {
            rep.sample(J::s(c.text.clone()));
        }
    }
    if std::env::var("VERIF_C01_TRACE").is_ok() {
        eprintln!("[c01] {:.1}s before finish", t0.elapsed().as_secs_f32());
    }
    rep.finish();
}
