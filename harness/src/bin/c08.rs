//! C08 — a program the checker accepts always compiles and runs to a BASIC-level outcome.
//!
//! Every input (program text + bytes on standard input) is run on the REAL front end, instruction
//! generator and interpreter (`run_in_memory`, instruction budget) under `catch_unwind`, in worker
//! *processes* (this binary re-executed with `--worker`, 256 MB stack, address-space limit, own scratch
//! directory), so that an abort, a stack overflow or a hang is observed instead of being fatal.
//! Allowed ends of an accepted program: normal termination, budget exhausted, or a `RuntimeError` with a
//! numeric code and at least one source position.  A panic / abort / hang is an impl-vs-property
//! failure whose signature is the panic site (file + head of the message); the input is shrunk.
//!
//! Families: (a) the repository's own programs (every string literal of its Rust sources + fixtures),
//! (b) type-directed random programs with faults and ON ERROR, (c) every built-in with every statically
//! admissible argument type tuple in eight argument shapes at boundary values, (d) the statement-level
//! repertoire (DIM/REDIM, TYPE, STRING * n, SHARED, STATIC, recursion, DEF SEG/PEEK/POKE, files,
//! PRINT USING, LPRINT, INPUT / LINE INPUT with arbitrary bytes, READ with arbitrary DATA), (c'') / (d') non-scalar
//! values (records, whole arrays, fixed-length strings, record fields, undefined-function calls) in every
//! argument position of every built-in and every expression position of the statement repertoire.
//! (e) jumps into FOR bodies and SELECT CASE blocks (`jump-into-block`): GOTO, GOSUB, ON ERROR GOTO, RESUME label,
//! RETURN label x a label inside FOR / FOR STEP / CASE / CASE ELSE and two-level nests x the jump before / behind /
//! in a sibling block / in the enclosing block / inside / leaving x main module / SUB: the checker refuses the static
//! kinds (d540f83), the VM answers NEXT without FOR / Illegal function call for the dynamic ones (18f92cd).
//! (f) `arg-fault` (gen_prog::arg_fault_programs, after a wave-9 seed): a run-time fault raised INSIDE an argument list
//! (a failing built-in function, a subscript out of range, a division by zero as an argument of a user SUB / FUNCTION,
//! of another built-in, of PRINT, as a subscript, as a DIM bound) x module level / FOR / one and two procedures deep x
//! ON ERROR RESUME NEXT / handler + RESUME NEXT / RESUME / RESUME label / no handler, followed by more calls and the
//! procedures' normal returns (3 960 programs).
//! A sample of the accepted programs is also given to the proved checker `wfCheck` (Lean driver), the
//! hypothesis of theorem `wf_no_vm_failure`; observed error codes are compared with the extracted table.

use std::collections::{BTreeMap, BTreeSet};
use std::io::{BufRead, BufReader, Write};
use std::process::{Command, Stdio};
use std::sync::mpsc;
use std::time::{Duration, Instant};

use rb_harness::builtins::{self as bi, Ctx, Outcome, Shape, Special, Ty, ALL_SHAPES, TYS};
use rb_harness::corpus;
use rb_harness::driver::ask;
use rb_harness::gen_prog::{Ext, Opts, arg_fault_programs, generate_ext};
use rb_harness::instr_sx;
use rb_harness::json::J;
use rb_harness::report::{Failure, Kind, Report};
use rb_harness::rng::Rng;
use rusty_basic::interpreter::verif::compile;

const STACK: usize = 256 << 20;
const BUDGET: u64 = 60_000;
/// address-space limit of a worker, in KiB (ulimit -v)
const WORKER_MEM_KIB: u64 = 6 << 20;

#[derive(Clone, Debug)]
struct Input {
    family: String,
    text: String,
    stdin: Vec<u8>,
}

#[derive(Clone, Debug, PartialEq)]
enum Res {
    Done(Outcome),
    /// no answer within the limit: the worker was killed
    Hang,
    /// the worker process died (abort, stack overflow, out of memory)
    Abort(String),
}

fn hex(b: &[u8]) -> String {
    if b.is_empty() {
        return "-".into();
    }
    b.iter().map(|x| format!("{:02x}", x)).collect()
}

fn unhex(s: &str) -> Vec<u8> {
    if s == "-" {
        return vec![];
    }
    (0..s.len() / 2).filter_map(|i| u8::from_str_radix(&s[2 * i..2 * i + 2], 16).ok()).collect()
}

fn encode(o: &Outcome) -> String {
    match o {
        Outcome::Rejected(m) => format!("rej {}", hex(m.as_bytes())),
        Outcome::Ok => "ok".into(),
        Outcome::Budget => "budget".into(),
        Outcome::Err { variant, code, positions, row, col } => format!("err {} {} {} {} {}", variant, code, positions, row, col),
        Outcome::Panic { site, msg } => format!("panic {} {}", hex(site.as_bytes()), hex(msg.as_bytes())),
    }
}

fn decode(line: &str) -> Option<Outcome> {
    let p: Vec<&str> = line.split(' ').collect();
    let s = |h: &str| String::from_utf8_lossy(&unhex(h)).into_owned();
    match p.as_slice() {
        ["rej", m] => Some(Outcome::Rejected(s(m))),
        ["ok"] => Some(Outcome::Ok),
        ["budget"] => Some(Outcome::Budget),
        ["err", v, c, n, r, k] => Some(Outcome::Err {
            variant: v.to_string(),
            code: c.parse().ok()?,
            positions: n.parse().ok()?,
            row: r.parse().ok()?,
            col: k.parse().ok()?,
        }),
        ["panic", a, b] => Some(Outcome::Panic { site: s(a), msg: s(b) }),
        _ => None,
    }
}

/// `--worker <input file> <scratch dir>`: one `hex(text) hex(stdin)` per line in, one result line per input out.
fn worker_main(path: String, scratch: String) {
    bi::install_panic_capture();
    std::fs::create_dir_all(&scratch).expect("scratch");
    std::env::set_current_dir(&scratch).expect("chdir");
    let handle = std::thread::Builder::new()
        .stack_size(STACK)
        .spawn(move || {
            let f = std::fs::File::open(&path).expect("worker input file");
            let out = std::io::stdout();
            for line in BufReader::new(f).lines() {
                let line = line.expect("read");
                let (t, i) = line.trim().split_once(' ').expect("two fields");
                let text = String::from_utf8_lossy(&unhex(t)).into_owned();
                let stdin = unhex(i);
                bi::clean_scratch();
                let o = bi::run_case(&text, &stdin, BUDGET);
                let mut lock = out.lock();
                writeln!(lock, "{}", encode(&o)).expect("write");
                lock.flush().expect("flush");
            }
            bi::clean_scratch();
        })
        .expect("spawn worker thread");
    let _ = handle.join();
}

/// Runs the inputs in worker processes, restarting after a hang or an abort.
fn run_in_workers(inputs: &[Input], limit: Duration, tag: &str, mem_kib: u64) -> Vec<Res> {
    let exe = std::env::current_exe().expect("current exe");
    let dir = std::env::var("VERIF_WORK").unwrap_or_else(|_| std::env::temp_dir().to_string_lossy().into_owned());
    let scratch = format!("{}/scratch-{}-{}", dir, std::process::id(), tag);
    let mut res: Vec<Res> = Vec::with_capacity(inputs.len());
    let mut round = 0;
    while res.len() < inputs.len() {
        round += 1;
        let path = format!("{}/c08-worker-{}-{}-{}.in", dir, std::process::id(), tag, round);
        {
            let mut f = std::io::BufWriter::new(std::fs::File::create(&path).expect("create worker input"));
            for t in &inputs[res.len()..] {
                writeln!(f, "{} {}", hex(t.text.as_bytes()), hex(&t.stdin)).unwrap();
            }
        }
        let mut child = Command::new("sh")
            .arg("-c")
            .arg(format!("ulimit -v {}; exec \"$0\" \"$@\"", mem_kib))
            .arg(&exe)
            .arg("--worker")
            .arg(&path)
            .arg(&scratch)
            .stdin(Stdio::null())
            .stdout(Stdio::piped())
            .stderr(Stdio::null())
            .spawn()
            .expect("spawn worker");
        let stdout = child.stdout.take().unwrap();
        let (tx, rx) = mpsc::channel::<String>();
        let reader = std::thread::spawn(move || {
            for line in BufReader::new(stdout).lines() {
                match line {
                    Ok(l) => {
                        if tx.send(l).is_err() {
                            break;
                        }
                    }
                    Err(_) => break,
                }
            }
        });
        loop {
            if res.len() == inputs.len() {
                break;
            }
            match rx.recv_timeout(limit) {
                Ok(line) => match decode(&line) {
                    Some(o) => res.push(Res::Done(o)),
                    None => res.push(Res::Abort(format!("unreadable worker line {:?}", line))),
                },
                Err(mpsc::RecvTimeoutError::Timeout) => {
                    let _ = child.kill();
                    res.push(Res::Hang);
                    break;
                }
                Err(mpsc::RecvTimeoutError::Disconnected) => {
                    let status = child.wait().map(|s| format!("{}", s)).unwrap_or_else(|e| format!("{}", e));
                    res.push(Res::Abort(status));
                    break;
                }
            }
        }
        let _ = child.kill();
        let _ = child.wait();
        let _ = reader.join();
        let _ = std::fs::remove_file(&path);
    }
    let _ = std::fs::remove_dir_all(&scratch);
    res
}

fn run_parallel(inputs: &[Input], limit: Duration, phase: &str) -> Vec<Res> {
    let workers = std::thread::available_parallelism().map(|n| n.get()).unwrap_or(4).clamp(2, 10);
    // round-robin so that every worker gets a mix of cheap and expensive inputs
    let mut parts: Vec<Vec<(usize, Input)>> = vec![vec![]; workers];
    for (k, i) in inputs.iter().enumerate() {
        parts[k % workers].push((k, i.clone()));
    }
    let mut handles = vec![];
    for (w, part) in parts.into_iter().enumerate() {
        let tag = format!("{}{}", phase, w);
        handles.push(std::thread::spawn(move || {
            let ins: Vec<Input> = part.iter().map(|(_, i)| i.clone()).collect();
            let rs = run_in_workers(&ins, limit, &tag, WORKER_MEM_KIB);
            part.into_iter().map(|(k, _)| k).zip(rs).collect::<Vec<_>>()
        }));
    }
    let mut out: Vec<Option<Res>> = vec![None; inputs.len()];
    for h in handles {
        for (k, r) in h.join().expect("worker supervisor") {
            out[k] = Some(r);
        }
    }
    out.into_iter().map(|r| r.expect("result")).collect()
}

// ---- input families ---------------------------------------------------------------------------------

fn random_bytes(rng: &mut Rng) -> Vec<u8> {
    let n = match rng.below(6) {
        0 => 0,
        1 => rng.below(4),
        2 => rng.below(40),
        3 => rng.below(300),
        4 => 2000 + rng.below(6000),
        _ => rng.below(80),
    } as usize;
    let style = rng.below(5);
    (0..n)
        .map(|_| match style {
            0 => rng.below(256) as u8,
            1 => *rng.pick(b"0123456789,.-+eE \n\r\""),
            2 => *rng.pick(b"abcXYZ,\" \n\t;:"),
            3 => {
                if rng.chance(1, 6) {
                    b'\n'
                } else {
                    (128 + rng.below(128)) as u8
                }
            }
            _ => *rng.pick(b"12,3\n4.5,\"a,b\"\n-7\n1e5\n\n,,\n\x00\x1a\xff"),
        })
        .collect()
}

fn corpus_inputs(rng: &mut Rng, out: &mut Vec<Input>) {
    for t in corpus::candidate_texts() {
        if corpus::needs_real_devices(&t) {
            continue;
        }
        out.push(Input { family: "corpus".into(), text: t.clone(), stdin: b"1\n2\n3\n".to_vec() });
        let u = t.to_ascii_uppercase();
        if u.contains("INPUT") {
            for _ in 0..2 {
                out.push(Input { family: "corpus+stdin".into(), text: t.clone(), stdin: random_bytes(rng) });
            }
        }
    }
}

fn generated_inputs(rng: &mut Rng, n: usize, out: &mut Vec<Input>, rep: &mut Report) {
    for k in 0..n {
        let o = Opts { on_error: k % 2 == 0, faults: true, ..Opts::default() };
        // RESUME label targets also inside FOR bodies / SELECT CASE blocks (C15's checker does not cover those)
        let (text, feats) = generate_ext(rng, &o, &Ext { block_labels: true, resume_label_in_for_select: true });
        // how many of the generated programs have a label inside a block with a jump to it (after a wave-9 seed)
        let mut any = false;
        for f in feats.iter().filter(|f| f.starts_with("label-in-") || f.starts_with("jump-") || f.starts_with("resume-label-")) {
            rep.bump(&format!("generated.feature.{}", f));
            any = true;
        }
        if any {
            rep.bump("generated.feature.any-block-label");
        }
        out.push(Input { family: "generated".into(), text, stdin: random_bytes(rng) });
    }
}

/// Family `arg-fault` (gen_prog::arg_fault_programs, after a wave-9 seed): one run-time fault raised inside an
/// argument list (a failing built-in function, a subscript out of range, a division by zero as an argument of a user
/// SUB / FUNCTION, of another built-in, of PRINT, as a subscript, as a DIM bound), at the module level and one or two
/// procedures deep, under every handler mode and without a handler, followed by more calls and the procedures' normal
/// returns: whatever the abandoned call left on the context / argument / value stacks is popped by the wrong party.
fn arg_fault_inputs(out: &mut Vec<Input>) {
    for (name, text) in arg_fault_programs() {
        let mode = name.rsplit('/').next().unwrap_or("?").to_owned();
        out.push(Input { family: format!("arg-fault:{}", mode), text, stdin: vec![] });
    }
}

/// the directed family `block-labels` of `gen_prog.rs`: a label inside a block of every kind and a jump to it (GOTO /
/// RESUME label) from the same block, a sibling block or a nested construct, at the module level and in procedures
fn block_label_inputs(out: &mut Vec<Input>) {
    for (name, text) in rb_harness::gen_prog::block_label_family() {
        let what = name.split('/').nth(3).unwrap_or("").to_owned();
        out.push(Input { family: format!("block-labels:{}", what), text, stdin: vec![] });
    }
}

fn type_tuples(arity: usize) -> Vec<Vec<Ty>> {
    let mut all: Vec<Vec<Ty>> = vec![vec![]];
    for _ in 0..arity {
        let mut next = vec![];
        for t in &all {
            for ty in TYS {
                let mut u = t.clone();
                u.push(ty);
                next.push(u);
            }
        }
        all = next;
    }
    all
}

/// (c) phase 1: which (built-in, type tuple) does the front end accept at all (variables / literals)?
fn builtin_probes() -> Vec<(usize, Vec<Ty>, Input)> {
    let mut v = vec![];
    for (k, b) in bi::built_ins().iter().enumerate() {
        let mut arities: Vec<usize> = b.arities.to_vec();
        if b.name == "LOCATE" || b.name == "WIDTH" || b.name == "INPUT" || b.name == "READ" {
            arities.push(3);
            arities.sort();
            arities.dedup();
        }
        for ar in arities {
            for tys in type_tuples(ar) {
                let args: Vec<(Ty, Shape)> = tys.iter().map(|t| (*t, Shape::Var)).collect();
                let c = bi::row_cases(b, Ctx::NoFile, &args, 1).remove(0);
                v.push((k, tys, Input { family: "probe".into(), text: c.text, stdin: vec![] }));
            }
        }
    }
    v
}

/// (c) phase 2: the accepted type tuples in every argument shape (sampled for arity >= 2), at boundary values.
fn builtin_inputs(rng: &mut Rng, accepted: &[(usize, Vec<Ty>)], thorough: bool, out: &mut Vec<Input>) {
    let all = bi::built_ins();
    for (k, tys) in accepted {
        let b = &all[*k];
        let mut shape_tuples: Vec<Vec<Shape>> = vec![];
        if tys.len() <= 1 {
            for s in ALL_SHAPES {
                shape_tuples.push(tys.iter().map(|_| s).collect());
            }
        } else {
            shape_tuples.push(tys.iter().map(|_| Shape::Lit).collect());
            let n = if thorough { 24 } else { 5 };
            for _ in 0..n {
                shape_tuples.push(tys.iter().map(|_| *rng.pick(&ALL_SHAPES)).collect());
            }
        }
        shape_tuples.sort();
        shape_tuples.dedup();
        for shapes in shape_tuples {
            let args: Vec<(Ty, Shape)> = tys.iter().cloned().zip(shapes.iter().cloned()).collect();
            for ctx in b.ctxs {
                let cap = if thorough { 40 } else if tys.len() <= 1 { 10 } else { 3 };
                let mut cases = bi::row_cases(b, *ctx, &args, if tys.len() <= 1 { cap } else { 64 });
                if cases.len() > cap {
                    // random sample of the combinations
                    let mut picked = vec![];
                    for _ in 0..cap {
                        let i = rng.below(cases.len() as u64) as usize;
                        picked.push(cases.swap_remove(i));
                    }
                    cases = picked;
                }
                for c in cases {
                    let stdin = if b.special == Special::Console && rng.chance(1, 2) { random_bytes(rng) } else { c.stdin };
                    out.push(Input { family: format!("builtin:{}", b.name), text: c.text, stdin });
                }
            }
        }
    }
}

/// (c') every built-in function call, with well-typed AND ill-typed arguments, in the positions the
/// post-conversion linters used to skip (F10): in parentheses, as an array subscript on either side of
/// an assignment, as the argument of a user-defined function. Whatever the linter lets through must run.
fn nested_inputs(out: &mut Vec<Input>) {
    for b in bi::built_ins().iter().filter(|b| b.is_fn) {
        for ar in [0usize, 1, 2, 3] {
            if ar == 3 && !(b.name == "MID$" || b.name == "INSTR") {
                continue;
            }
            for tys in type_tuples(ar) {
                let args: Vec<(Ty, Shape)> = tys.iter().map(|t| (*t, Shape::Lit)).collect();
                let vals: Vec<String> = tys.iter().map(|t| bi::values(*t)[1].clone()).collect();
                let text = bi::program(b, Ctx::NoFile, &args, &vals, "");
                // the statement is the last line: PRINT <call>
                let call = text.lines().last().unwrap_or("").trim_start_matches("PRINT ").to_string();
                let pre: String = text.lines().take(text.lines().count().saturating_sub(1)).map(|l| format!("{}\n", l)).collect();
                for t in [
                    format!("{}PRINT ({})\n", pre, call),
                    format!("{}DIM ZZ(1 TO 3)\nPRINT ZZ({})\n", pre, call),
                    format!("{}DIM ZZ(1 TO 3)\nZZ({}) = 1\n", pre, call),
                    format!("{}PRINT UF(({}))\nFUNCTION UF (X)\n UF = X\nEND FUNCTION\n", pre, call),
                    format!("{}PRINT US$(({}))\nFUNCTION US$ (X$)\n US$ = X$\nEND FUNCTION\n", pre, call),
                ] {
                    out.push(Input { family: format!("nested:{}", b.name), text: t, stdin: vec![] });
                }
            }
        }
    }
}

/// (c'') every built-in with, in each argument position in turn (and in all positions at once), each of the
/// non-scalar kinds of `bi::odd_kinds` (bare and in parentheses): record variable, record-typed array
/// element, record-valued field, whole array with and without `()`, fixed-length string, record field of
/// each type, undefined-function call, unassigned variable. The other positions hold variables of a type
/// tuple the front end accepts for that arity. Whatever the checker lets through must run.
fn odd_builtin_inputs(accepted: &[(usize, Vec<Ty>)], thorough: bool, out: &mut Vec<Input>) {
    let all = bi::built_ins();
    let kinds = bi::odd_kinds(true);
    let mut bases: BTreeMap<(usize, usize), Vec<Vec<Ty>>> = BTreeMap::new();
    for (k, tys) in accepted {
        if !tys.is_empty() {
            bases.entry((*k, tys.len())).or_default().push(tys.clone());
        }
    }
    // arities for which no scalar tuple is accepted are still tried (all-INTEGER base): a checker that
    // forgets the arity test for odd arguments must not get through
    for (k, b) in all.iter().enumerate() {
        for ar in b.arities.iter().filter(|a| **a > 0 && **a <= 2) {
            bases.entry((k, *ar)).or_insert_with(|| vec![vec![Ty::Int; *ar]]);
        }
    }
    for ((k, ar), tuples) in bases.iter() {
        let b = &all[*k];
        // first and (thorough: also last) accepted tuple of the arity as the base
        let mut chosen: Vec<&Vec<Ty>> = vec![&tuples[0]];
        if thorough && tuples.len() > 1 {
            chosen.push(&tuples[tuples.len() - 1]);
        }
        let ctx = *b.ctxs.last().unwrap_or(&Ctx::NoFile);
        let (data, stdin): (&str, Vec<u8>) = match b.special {
            Special::Data => ("DATA 1, 2, 3", vec![]),
            Special::Console => ("", b"1,2,3\n4\n".to_vec()),
            _ => ("", b"5\n".to_vec()),
        };
        for tys in chosen {
            for (_, text) in kinds.iter() {
                let mut position_sets: Vec<Vec<usize>> = (0..*ar).map(|i| vec![i]).collect();
                if *ar > 1 {
                    position_sets.push((0..*ar).collect());
                }
                for at in position_sets {
                    out.push(Input {
                        family: format!("odd-arg:{}", b.name),
                        text: bi::program_with_odd(b, ctx, tys, &at, text, data),
                        stdin: stdin.clone(),
                    });
                }
            }
        }
    }
}

/// (d') the same non-scalar kinds, and a scalar of every type, in every expression position of the
/// statement repertoire: PRINT / LPRINT / PRINT USING / PRINT # items, both sides of an assignment, operands
/// of every operator, conditions, FOR bounds / step / counter, SELECT CASE selector and CASE values, array
/// subscripts and DIM bounds, arguments of user-defined subs and functions of every parameter kind, CONST,
/// INPUT / LINE INPUT / READ targets, file names, record lengths, file numbers, FIELD widths and variables.
fn odd_statement_inputs(out: &mut Vec<Input>) {
    let mut xs: Vec<String> = bi::odd_kinds(true).into_iter().map(|(_, t)| t).collect();
    for t in ["1", "70000", "1.5", "2.5#", "\"s\"", "V1%", "V2&", "V3!", "V4#", "V5$", "(V5$)", "-V1%", "V5$ + \"x\""] {
        xs.push(t.to_string());
    }
    let scalars = "V1% = 2\nV2& = 70000\nV3! = 1.5\nV4# = 2.5\nV5$ = \"s\"\n";
    let subs = "SUB SUBV (P)\nEND SUB\nSUB SUBI (P%)\nEND SUB\nSUB SUBS (P$)\nEND SUB\nSUB SUBR (P AS REC)\nEND SUB\nSUB SUBA (P())\nEND SUB\nSUB SUBAS (P$())\nEND SUB\n\
FUNCTION FNV (P)\n FNV = 1\nEND FUNCTION\nFUNCTION FNS$ (P$)\n FNS$ = P$\nEND FUNCTION\nFUNCTION FNR (P AS REC)\n FNR = P.I\nEND FUNCTION\nFUNCTION FNA (P%())\n FNA = 1\nEND FUNCTION\n";
    let rnd = "OPEN \"F1.DAT\" FOR RANDOM AS #1 LEN = 16\nFIELD #1, 8 AS FA$, 8 AS FB$\n";
    let outp = "OPEN \"F1.DAT\" FOR OUTPUT AS #1\n";
    // (prefix, statement with {x}, needs the subs/functions)
    let templates: Vec<(&str, &str, bool)> = vec![
        ("", "PRINT {x}", false),
        ("", "PRINT {x}; 1", false),
        ("", "PRINT 1, {x};", false),
        ("", "PRINT {x}, {x}", false),
        ("", "LPRINT {x}", false),
        ("", "LPRINT 1; {x},", false),
        ("", "PRINT USING \"#\"; {x}", false),
        ("", "PRINT USING \"&\"; {x}", false),
        ("", "PRINT USING {x}; 1", false),
        ("", "LPRINT USING \"#\"; {x}", false),
        (outp, "PRINT #1, {x}", false),
        (outp, "PRINT #1, USING \"#\"; {x}", false),
        ("", "Z = {x}", false),
        ("", "Z$ = {x}", false),
        ("", "Z% = {x}", false),
        ("", "ZR = {x}", false),
        ("", "RQ = {x}", false),
        ("", "RQA(1) = {x}", false),
        ("", "FQ = {x}", false),
        ("", "RQ.T = {x}", false),
        ("", "RQ.I = {x}", false),
        ("", "WI%(1) = {x}", false),
        ("", "{x} = 1", false),
        ("", "{x} = \"s\"", false),
        ("", "{x} = {x}", false),
        ("", "{x} = RQ", false),
        ("", "Z = {x} + 1", false),
        ("", "Z = 1 - {x}", false),
        ("", "Z = {x} * {x}", false),
        ("", "Z = 1 / {x}", false),
        ("", "Z = {x} MOD 2", false),
        ("", "Z$ = \"a\" + {x}", false),
        ("", "Z$ = {x} + \"a\"", false),
        ("", "Z = -{x}", false),
        ("", "Z = NOT {x}", false),
        ("", "Z = {x} AND 1", false),
        ("", "Z = 1 OR {x}", false),
        ("", "Z = {x} = {x}", false),
        ("", "Z = {x} < 1", false),
        ("", "Z = \"a\" >= {x}", false),
        ("", "Z = {x} <> RQ", false),
        ("", "IF {x} THEN\nEND IF", false),
        ("", "IF {x} = 1 THEN\nPRINT 1\nELSEIF {x} THEN\nPRINT 2\nEND IF", false),
        ("", "IF {x} THEN PRINT 1 ELSE PRINT 2", false),
        ("", "WHILE {x}\nWEND", false),
        ("", "DO WHILE {x}\nLOOP", false),
        ("", "DO\nLOOP UNTIL {x}", false),
        ("", "DO UNTIL {x}\nLOOP", false),
        ("", "FOR I = {x} TO 3\nNEXT", false),
        ("", "FOR I = 1 TO {x}\nNEXT", false),
        ("", "FOR I = 1 TO 3 STEP {x}\nNEXT", false),
        ("", "FOR I% = {x} TO {x} STEP {x}\nNEXT", false),
        ("", "FOR {x} = 1 TO 2\nNEXT", false),
        ("", "FOR {x} = 1 TO 2\nNEXT {x}", false),
        ("", "SELECT CASE {x}\nCASE 1\nPRINT 1\nCASE ELSE\nEND SELECT", false),
        ("", "SELECT CASE {x}\nCASE \"s\"\nEND SELECT", false),
        ("", "SELECT CASE 1\nCASE {x}\nEND SELECT", false),
        ("", "SELECT CASE 1\nCASE 0 TO {x}\nEND SELECT", false),
        ("", "SELECT CASE 1\nCASE {x} TO 5\nEND SELECT", false),
        ("", "SELECT CASE 1\nCASE IS > {x}\nEND SELECT", false),
        ("", "SELECT CASE {x}\nCASE {x}\nEND SELECT", false),
        ("", "DIM ZA(1 TO 3)\nZA({x}) = 1", false),
        ("", "DIM ZA(1 TO 3)\nPRINT ZA({x})", false),
        ("", "DIM ZA(1 TO 3, 1 TO 3)\nPRINT ZA(1, {x})", false),
        ("", "PRINT WI%({x}); RQA({x}).I", false),
        ("", "DIM ZB({x})", false),
        ("", "DIM ZB(1 TO {x})", false),
        ("", "DIM ZB({x} TO 5) AS REC", false),
        ("", "REDIM ZB({x})", false),
        ("", "DIM ZB(2) AS STRING * 4\nZB({x}) = {x}", false),
        ("", "CONST CQ = {x}", false),
        ("", "CONST CQ = {x} + 1", false),
        ("", "SUBV {x}", true),
        ("", "SUBI {x}", true),
        ("", "SUBS {x}", true),
        ("", "SUBR {x}", true),
        ("", "SUBA {x}", true),
        ("", "SUBAS {x}", true),
        ("", "CALL SUBV({x})", true),
        ("", "Z = FNV({x})", true),
        ("", "Z$ = FNS$({x})", true),
        ("", "Z = FNR({x})", true),
        ("", "Z = FNA({x})", true),
        ("", "PRINT FNV(({x}))", true),
        ("", "Z = {x}.I", false),
        ("", "Z = {x}(1)", false),
        ("", "INPUT {x}", false),
        ("", "INPUT Z, {x}", false),
        ("", "LINE INPUT {x}", false),
        ("DATA 1, \"a\", 2\n", "READ {x}", false),
        ("DATA 1, \"a\", 2\n", "READ Z, {x}", false),
        (outp, "CLOSE\nOPEN \"F1.DAT\" FOR INPUT AS #1\nINPUT #1, {x}", false),
        (outp, "CLOSE\nOPEN \"F1.DAT\" FOR INPUT AS #1\nLINE INPUT #1, {x}", false),
        ("", "OPEN {x} FOR OUTPUT AS #1", false),
        ("", "OPEN \"F1.DAT\" FOR RANDOM AS #1 LEN = {x}", false),
        ("", "OPEN \"F1.DAT\" FOR OUTPUT AS {x}", false),
        (rnd, "CLOSE {x}", false),
        (rnd, "FIELD #1, {x} AS FZ$", false),
        (rnd, "FIELD #1, 4 AS {x}", false),
        (rnd, "LSET {x} = \"a\"", false),
        (rnd, "LSET FA$ = {x}", false),
        (rnd, "GET #1, {x}", false),
        (rnd, "PUT #1, {x}", false),
        ("", "NAME {x} AS \"b\"", false),
        ("", "NAME \"a\" AS {x}", false),
        ("", "KILL {x}", false),
        ("", "DEF SEG = {x}", false),
        ("", "POKE {x}, {x}", false),
        ("", "VIEW PRINT {x} TO 5", false),
        ("", "LOCATE {x}, {x}", false),
        ("", "COLOR {x}", false),
        ("", "WIDTH {x}", false),
        ("", "ENVIRON {x}", false),
        ("", "ON ERROR GOTO H\nZ = {x}\nEND\nH:\nPRINT ERR; {x}\nRESUME NEXT", false),
        ("", "GOSUB G\nEND\nG:\nPRINT {x}\nRETURN", false),
        ("", "PRINT LEN({x}); VARPTR({x}); VARSEG({x})", false),
        ("", "PRINT LBOUND({x}); UBOUND({x}, 1)", false),
        ("", "PRINT UBOUND(WD#, {x})", false),
    ];
    for (prefix, st, needs_subs) in templates.iter() {
        for x in xs.iter() {
            let mut t = String::from(bi::ODD_PRELUDE);
            t.push_str(scalars);
            t.push_str(prefix);
            t.push_str(&st.replace("{x}", x));
            t.push('\n');
            if *needs_subs {
                t.push_str(subs);
            }
            out.push(Input { family: "stmt:odd-operand".into(), text: t, stdin: b"1,2\nabc\n".to_vec() });
        }
    }
}

fn pick_s<'a>(rng: &mut Rng, items: &'a [&'a str]) -> &'a str {
    items[rng.below(items.len() as u64) as usize]
}

/// (d) the statement-level repertoire.
fn statement_inputs(rng: &mut Rng, thorough: bool, out: &mut Vec<Input>) {
    let mut push = |family: &str, text: String, stdin: Vec<u8>| out.push(Input { family: format!("stmt:{}", family), text, stdin });
    let bounds = ["-5", "0", "1", "2", "3", "10", "-1", "1", "2", "5", "32767", "-32768", "100000", "2147483647", "-2147483647", "70000", "1.5", "X%"];
    let elem_types = ["", " AS INTEGER", " AS LONG", " AS SINGLE", " AS DOUBLE", " AS STRING", " AS STRING * 4", " AS REC"];
    let reps = if thorough { 12 } else { 2 };
    // DIM / REDIM, 1..4 dimensions, all element types, boundary bounds
    for dims in 1..=4usize {
        for et in elem_types {
            for _ in 0..reps * 3 {
                let mut ds = vec![];
                // number of elements when every bound is a numeric literal (X% = 3)
                let mut elements: f64 = 1.0;
                for _ in 0..dims {
                    let lo = pick_s(rng, &bounds);
                    let hi = pick_s(rng, &bounds);
                    let num = |s: &str| if s == "X%" { 3.0 } else { s.parse::<f64>().unwrap_or(0.0).round() };
                    if rng.chance(1, 3) {
                        ds.push(hi.to_string());
                        elements *= (num(hi) + 1.0).max(0.0);
                    } else {
                        ds.push(format!("{} TO {}", lo, hi));
                        elements *= (num(hi) - num(lo) + 1.0).max(0.0);
                    }
                }
                let kw = if rng.chance(1, 4) { "REDIM" } else { "DIM" };
                let idx: Vec<&str> = (0..dims).map(|_| pick_s(rng, &["0", "1", "2", "-5", "10", "32767", "X%"])).collect();
                let access = match et {
                    " AS REC" => format!("A({}).I = 1\nPRINT A({}).T; LEN(A({}).T)", idx.join(", "), idx.join(", "), idx.join(", ")),
                    " AS STRING" | " AS STRING * 4" => format!("A({}) = \"hello\"\nPRINT A({})", idx.join(", "), idx.join(", ")),
                    _ => format!("A({}) = 7\nPRINT A({}) + 1", idx.join(", "), idx.join(", ")),
                };
                let text = format!(
                    "{}X% = 3\n{} A({}){}\n{}\nPRINT LBOUND(A); UBOUND(A, {})\n",
                    bi::TYPE_DECL,
                    kw,
                    ds.join(", "),
                    et,
                    access,
                    1 + rng.below(dims as u64 + 1)
                );
                // arrays above a few million elements go to the family of deliberately huge allocations
                push(if elements > 4.0e6 { "huge" } else { "dim" }, text.clone(), vec![]);
            }
        }
    }
    // huge but bounded allocations (must be a BASIC error or succeed, not an abort)
    for t in [
        "DIM A(1 TO 3000000)\nA(3000000) = 1\nPRINT A(3000000)\n",
        "DIM A(1 TO 300, 1 TO 300, 1 TO 30) AS INTEGER\nA(300, 300, 30) = 1\nPRINT A(300, 300, 30)\n",
        "DIM A(2000, 2000, 2000)\n",
        "DIM A(32767, 32767) AS DOUBLE\n",
        "DIM A(2147483647) AS INTEGER\n",
        "DIM A(-32768 TO 32767, -32768 TO 32767, -32768 TO 32767, -32768 TO 32767)\n",
        "DIM A(-32768 TO 32767, -32768 TO 32767, -32768 TO 32767)\n",
        "DIM A(-2147483648 TO 2147483647)\n",
        "REDIM A(1 TO 1000)\nREDIM A(1 TO 2000000)\nPRINT UBOUND(A)\n",
        "A$ = SPACE$(32767)\nFOR I = 1 TO 8\nA$ = A$ + A$\nNEXT\nPRINT LEN(A$)\n",
        "A$ = STRING$(32767, 65)\nB$ = A$ + A$ + A$\nPRINT LEN(B$); LEN(LEFT$(B$, 70000))\n",
        "DIM A(1 TO 100) AS STRING * 32767\nA(100) = \"x\"\nPRINT LEN(A(100))\n",
    ] {
        push("huge", t.to_string(), vec![]);
    }
    // arrays whose DIM is not executed (it sits in a branch that is not taken): every use must end at BASIC level
    for use_ in [
        "PRINT A%(1)",
        "A%(1) = 4",
        "PRINT LBOUND(A%); UBOUND(A%)",
        "X% = A%(0) + 1",
        "READ A%(2)\nDATA 5",
        "INPUT A%(1)",
        "S A%()\nSUB S (P%())\n PRINT P%(1)\nEND SUB",
        "FOR I% = 0 TO 3\n A%(I%) = I%\nNEXT",
    ] {
        for guard in ["IF 0 THEN\nDIM A%(3)\nEND IF\n", "GOTO L\nDIM A%(3)\nL:\n", "SELECT CASE 1\nCASE 2\nDIM A%(1 TO 3)\nEND SELECT\n", "WHILE 0\nDIM A%(3, 3)\nWEND\n"] {
            push("dim-not-executed", format!("{}{}\n", guard, use_), b"7\n".to_vec());
        }
    }
    // records and fixed-length strings whose DIM is not executed
    for use_ in ["PRINT U.A", "U.A = 4", "U.S = \"xy\"", "V = U", "PRINT LEN(U)", "PRINT \"[\"; F; \"]\"", "F = \"abcdef\"\nPRINT LEN(F)"] {
        push(
            "dim-not-executed",
            format!("TYPE T\n A AS INTEGER\n S AS STRING * 3\nEND TYPE\nDIM V AS T\nIF 0 THEN\nDIM U AS T\nDIM F AS STRING * 4\nEND IF\n{}\n", use_),
            vec![],
        );
    }
    // arrays whose element slots fit but whose elements own heap data (records, fixed-length strings)
    for t in [
        "TYPE BIGREC\n I AS INTEGER\n T AS STRING * 200\n D AS DOUBLE\nEND TYPE\nDIM A(32767, 200) AS BIGREC\nPRINT \"ok\"\n",
        "DIM A(32767, 30) AS STRING * 32767\nPRINT \"ok\"\n",
    ] {
        push("huge-owned-elements", t.to_string(), vec![]);
    }
    // records: nested, fixed strings, arrays of records, passing them around
    let rec2 = "TYPE INNER\n A AS INTEGER\n S AS STRING * 3\nEND TYPE\nTYPE OUTER\n P AS INNER\n Q AS INNER\n N AS DOUBLE\nEND TYPE\nTYPE TOP\n O AS OUTER\n L AS LONG\nEND TYPE\n";
    for body in [
        "DIM T AS TOP\nT.O.P.A = 5\nT.O.Q.S = \"abcdef\"\nT.L = 100000\nPRINT T.O.P.A; T.O.Q.S; T.L; LEN(T); LEN(T.O); LEN(T.O.Q.S)\n",
        "DIM T(1 TO 3) AS TOP\nT(2).O.P.A = 5\nT(3).O.Q.S = \"x\"\nPRINT T(2).O.P.A; T(3).O.Q.S; T(1).O.N\nT(1) = T(2)\nPRINT T(1).O.P.A\n",
        "DIM A AS TOP, B AS TOP\nA.O.N = 2.5\nB = A\nPRINT B.O.N\nSHOW B\nSUB SHOW (X AS TOP)\n X.L = X.L + 1\n PRINT X.L; X.O.N\nEND SUB\n",
        "DIM A AS OUTER\nCHG A.P\nPRINT A.P.A; A.P.S\nSUB CHG (X AS INNER)\n X.A = 9\n X.S = \"hello\"\nEND SUB\n",
        "DIM A AS INNER\nA.S = \"\"\nPRINT \"[\"; A.S; \"]\"; LEN(A.S)\nA.S = CHR$(200) + CHR$(201) + CHR$(202) + CHR$(203)\nPRINT LEN(A.S)\n",
        "DIM A(1 TO 2) AS INNER\nFOR I = 1 TO 2\nA(I).A = I\nNEXT\nPRINT A(1).A + A(2).A\nPRINT VARPTR(A(2).S); VARSEG(A(2)); LEN(A(2))\n",
        "DIM T AS TOP\nDEF SEG = VARSEG(T)\nPRINT PEEK(VARPTR(T.L)); PEEK(VARPTR(T.O.Q.S))\nPOKE VARPTR(T.O.P.A), 7\nPRINT T.O.P.A\n",
        "DIM T AS TOP\nINPUT T.O.P.A, T.O.Q.S, T.L\nLINE INPUT T.O.P.S\nPRINT T.O.P.A; T.O.Q.S; T.L; T.O.P.S\n",
        "DIM T AS TOP\nDATA 1, \"abcdefgh\", 2.5\nREAD T.O.P.A, T.O.P.S, T.O.N\nPRINT T.O.P.A; T.O.P.S; T.O.N\n",
    ] {
        for _ in 0..reps {
            push("record", format!("{}{}", rec2, body), random_bytes(rng));
        }
        push("record", format!("{}{}", rec2, body), b"1,ab,3\nxyzw\n".to_vec());
    }
    // STRING * n variables
    for n in ["1", "3", "255", "32767"] {
        for v in ["\"\"", "\"ab\"", "\"abcdefgh\"", "STRING$(300, \"x\")", "CHR$(200) + \"xy\""] {
            push(
                "fixed-string",
                format!("DIM F AS STRING * {}\nF = {}\nPRINT LEN(F); \"[\"; LEFT$(F, 5); \"]\"\nG$ = F + F\nPRINT LEN(G$)\n", n, v),
                vec![],
            );
            push("fixed-string", format!("DIM F AS STRING * {}\nF = {}\nPRINT LEN(F); \"[\"; LEFT$(F, 5); \"]\"\nS F\nPRINT F;\nSUB S (X AS STRING)\n X = X + \"!\"\nEND SUB\n", n, v), vec![]);
        }
    }
    // SHARED / STATIC / COMMON-like, recursion
    for depth in ["1", "10", "200", "2000", "20000"] {
        push(
            "recursion",
            format!("DECLARE FUNCTION F& (N&)\nPRINT F&({})\nFUNCTION F& (N&)\n IF N& <= 0 THEN\n  F& = 0\n ELSE\n  F& = 1 + F&(N& - 1)\n END IF\nEND FUNCTION\n", depth),
            vec![],
        );
        push(
            "recursion",
            format!("R {}\nSUB R (N)\n STATIC C\n C = C + 1\n DIM L(1 TO 3) AS STRING\n L(1) = STR$(N)\n IF N > 0 THEN\n  R N - 1\n END IF\n IF N = 0 THEN\n  PRINT C\n END IF\nEND SUB\n", depth),
            vec![],
        );
        push(
            "recursion",
            format!("GOSUB A\nEND\nA:\nN = N + 1\nIF N < {} THEN\nGOSUB A\nEND IF\nRETURN\n", depth),
            vec![],
        );
    }
    for t in [
        "DIM SHARED G(1 TO 3) AS INTEGER\nDIM SHARED S AS STRING * 4\nG(2) = 5\nS = \"ab\"\nP\nPRINT G(2); S\nSUB P\n G(2) = G(2) + 1\n S = \"zz\"\nEND SUB\n",
        "DIM SHARED X%\nX% = 1\nPRINT F%(2)\nFUNCTION F%(A%)\n Y$ = \"q\"\n F% = A% + X%\nEND FUNCTION\n",
        "C\nC\nC\nSUB C STATIC\n N% = N% + 1\n DIM A(1 TO 2)\n A(1) = A(1) + N%\n PRINT N%; A(1)\nEND SUB\n",
        "PRINT F$(\"a\")\nFUNCTION F$(X$) STATIC\n T$ = T$ + X$\n IF LEN(T$) < 5 THEN F$ = F$(T$) ELSE F$ = T$\nEND FUNCTION\n",
        
        "CONST K = 5\nCONST S$ = \"x\"\nDIM A(K)\nA(K) = K\nPRINT A(K); S$\nSUB Z\n PRINT K\nEND SUB\n",
        "DEFINT A-Z\nDEFSTR S\nDEFDBL D\nS = \"t\"\nD = 1.5\nA = D\nPRINT S; D; A\n",
        "ON ERROR GOTO H\nX = 1 / 0\nPRINT \"after\"\nPRINT CHR$(300)\nPRINT ERR\nEND\nH:\nPRINT ERR\nRESUME NEXT\n",
        "ON ERROR GOTO H\nDIM A(2)\nA(5) = 1\nPRINT \"x\"\nEND\nH:\nRESUME\n",
        "ON ERROR GOTO H\nOPEN \"nofile\" FOR INPUT AS #1\nEND\nH:\nPRINT ERR\nRESUME L\nL:\nPRINT \"done\"\n",
        "ON ERROR GOTO H\nX% = 32767 + 1\nEND\nH:\nY% = 32767 + 1\n",
        "ON ERROR GOTO H\nS\nEND\nH:\nPRINT ERR\nRESUME NEXT\nSUB S\n X% = 32767\n X% = X% + 1\n PRINT \"in sub\"\nEND SUB\n",
        "FOR I = 1 TO 3\nSELECT CASE I\nCASE 1\nPRINT \"a\"\nCASE 2 TO 3\nPRINT \"b\"\nCASE IS > 5\nCASE ELSE\nEND SELECT\nNEXT\nWHILE J < 3\nJ = J + 1\nWEND\nDO\nK = K + 1\nLOOP UNTIL K > 2\nDO WHILE K < 9\nK = K + 1\nLOOP\n",
        "SELECT CASE \"b\"\nCASE \"a\" TO \"c\"\nPRINT 1\nCASE IS < \"a\"\nPRINT 2\nEND SELECT\nSELECT CASE 1.5\nCASE 1, 2, 3\nCASE 1 TO 2\nPRINT 3\nEND SELECT\n",
        "FOR I% = 32760 TO 32767\nNEXT\nPRINT I%\n",
        "FOR I = 1 TO 10 STEP 0\nNEXT\n",
        "FOR X# = 0 TO 1 STEP .25\nPRINT X#;\nNEXT\n",
        "IF 1 THEN PRINT 1 ELSE PRINT 2\nIF 0 THEN\nELSEIF 1 THEN\nPRINT 3\nELSE\nEND IF\n",
        "GOTO Ten\nFive:\nPRINT \"five\"\nEND\nTen:\nPRINT \"ten\"\nGOTO Five\n",
        
        "RETURN\n",
        "RESUME NEXT\n",
        "GOSUB S\nEND\nS:\nRETURN T\nT:\nPRINT \"t\"\n",
        
        
        "PRINT TIMER; DATE$; TIME$\n",
        "BEEP\nCLS\n",
        "A = 5\nB = A / 0\n",
        "A = 5 MOD 0\n",
        "A% = 7 / 2\nPRINT A%; 7 MOD 2; -7 MOD 2; 7.5 MOD 0.4\n",
        
        "PRINT STR$(1.5); VAL(\"&HFF\"); VAL(\"1D400\"); VAL(\"\"); VAL(\"- 1\"); VAL(\"1E39\"); VAL(\"&O777777777777\"); VAL(\"&H\"); VAL(\".\"); VAL(\"-\")\n",
        "PRINT 1 AND 2 OR NOT 3; 1.5 AND 2; 100000 OR 1; NOT 2147483647; 3000000000.0 AND 1\n",
        "PRINT \"a\" < \"b\"; \"a\" = \"A\"; \"\" > \"a\"; \"a\" + \"b\" <> \"ab\"\n",
        "PRINT -32768 - 1; 32767 + 1\n", "PRINT 2147483647 + 1\n", "PRINT 340000000000000000000000000000000000000.0 * 10\n",
        "A% = 40000\n",
        "A& = 3000000000\n",
        "A# = 10.0#\nFOR I = 1 TO 400\nA# = A# * 10\nNEXT\n", "A# = 10.0#\nFOR I = 1 TO 100\nA# = A# * 10\nNEXT\nB! = A#\n",

    ] {
        push("misc", t.to_string(), b"1\n".to_vec());
    }
    // DEF SEG / PEEK / POKE / VARPTR / VARSEG on every kind of variable
    let decls = [
        ("A%", "A% = 258"),
        ("A&", "A& = 100000"),
        ("A!", "A! = 1.5"),
        ("A#", "A# = 2.5"),
        ("A$", "A$ = \"hello\""),
        ("E$", "E$ = \"\""),
        ("F", "DIM F AS STRING * 4\nF = \"ab\""),
        ("R", "DIM R AS REC\nR.L = 70000"),
        ("R.T", "DIM R AS REC\nR.T = \"abc\""),
        ("R.D", "DIM R AS REC\nR.D = 2.5"),
        ("AI%(2)", "DIM AI%(1 TO 3)\nAI%(2) = 513"),
        ("AL&(2)", "DIM AL&(1 TO 3)\nAL&(2) = 70000"),
        ("AD#(1, 1)", "DIM AD#(1 TO 2, 0 TO 1)\nAD#(1, 1) = 1.5"),
        ("AS$(1)", "DIM AS$(0 TO 2)\nAS$(1) = \"xyz\""),
        ("AE$(1)", "DIM AE$(0 TO 2)"),
        ("AR(1)", "DIM AR(0 TO 2) AS REC\nAR(1).I = 7"),
        ("AR(1).T", "DIM AR(0 TO 2) AS REC\nAR(1).T = \"q\""),
        ("AF(1)", "DIM AF(0 TO 2) AS STRING * 3"),
    ];
    for (v, d) in decls {
        for off in ["0", "1", "2", "3", "4", "7", "8", "100", "-1", "40000"] {
            for seg in ["", "DEF SEG\n", "DEF SEG = 0\n", "DEF SEG = 1\n", "DEF SEG = 4096\n", "DEF SEG = 65535\n", "DEF SEG = -1\n", "DEF SEG = 70000\n"] {
                if !thorough && rng.chance(3, 4) {
                    continue;
                }
                let with_seg = if seg.is_empty() { format!("DEF SEG = VARSEG({})\n", v) } else { seg.to_string() };
                push(
                    "peek-poke",
                    format!("{}{}\n{}P = VARPTR({}) + {}\nPRINT PEEK(P)\nPOKE P, 65\nPRINT PEEK(P)\nPRINT LEN({})\n", bi::TYPE_DECL, d, with_seg, v, off, v),
                    vec![],
                );
            }
        }
    }
    // file statements in the scratch directory
    let modes = ["INPUT", "OUTPUT", "APPEND", "RANDOM"];
    let ops = [
        "PRINT #1, \"a\"; 1, 2.5",
        "PRINT #1, USING \"##.#\"; 3.14159",
        "INPUT #1, A$, B",
        "INPUT #1, C%",
        "LINE INPUT #1, L$",
        "PRINT EOF(1)",
        "FIELD #1, 4 AS FA$, 4 AS FB$",
        "FIELD #1, 40 AS FC$",
        "FIELD #1, 0 AS FD$",
        "LSET FA$ = \"abcdefgh\"",
        "LSET FB$ = MKD$(1.5)",
        "PUT #1, 1",
        "PUT #1, 3",
        "PUT #1, 0",
        "PUT #1, -1",
        "GET #1, 1",
        "GET #1, 2",
        "GET #1, 100000",
        "GET #1, 0",
        "PRINT FA$; CVD(FB$ + FA$)",
        "CLOSE #1",
        "CLOSE",
        "CLOSE #2",
        "OPEN \"G.DAT\" FOR OUTPUT AS #2",
        "OPEN \"F.DAT\" FOR INPUT AS #2",
        "OPEN \"F.DAT\" FOR OUTPUT AS #1",
        "KILL \"F.DAT\"",
        "KILL \"*.DAT\"",
        "NAME \"F.DAT\" AS \"H.DAT\"",
        "NAME \"F.DAT\" AS \"F.DAT\"",
    ];
    let n_file = if thorough { 3000 } else { 260 };
    for _ in 0..n_file {
        let mut t = String::new();
        if rng.chance(2, 3) {
            t.push_str("OPEN \"F.DAT\" FOR OUTPUT AS #1\nPRINT #1, \"12,abc\"\nPRINT #1, \"x\"; CHR$(200)\nCLOSE #1\n");
        }
        if rng.chance(1, 5) {
            t.push_str("ON ERROR GOTO H\n");
        }
        let len = pick_s(rng, &["", " LEN = 8", " LEN = 16", " LEN = 1", " LEN = 0", " LEN = -1", " LEN = 32767", " LEN = 40000"]);
        let access = pick_s(rng, &["", "", "", " ACCESS READ"]);
        t.push_str(&format!("OPEN \"F.DAT\" FOR {}{} AS #1{}\n", pick_s(rng, &modes), access, len));
        for _ in 0..1 + rng.below(6) {
            t.push_str(pick_s(rng, &ops));
            t.push('\n');
        }
        if t.contains("ON ERROR") {
            t.push_str("END\nH:\nPRINT ERR\nRESUME NEXT\n");
        }
        push("files", t, vec![]);
    }
    for t in [
        "OPEN \"\" FOR OUTPUT AS #1\n",
        "OPEN \".\" FOR OUTPUT AS #1\n",
        "OPEN \"/\" FOR INPUT AS #1\n",
        "OPEN \"no/such/dir/f\" FOR OUTPUT AS #1\n",
        "OPEN \"a\" + CHR$(0) + \"b\" FOR OUTPUT AS #1\n",
        "OPEN STRING$(5000, \"x\") FOR OUTPUT AS #1\n",
        "OPEN \"F\" FOR OUTPUT AS #255\nOPEN \"G\" FOR OUTPUT AS 255\n",
        "FOR I = 1 TO 300\nOPEN \"F\" + STR$(I) FOR OUTPUT AS #1\nCLOSE\nNEXT\n",
        "OPEN \"F.DAT\" FOR RANDOM AS #1 LEN = 4\nFIELD #1, 2 AS A$, 2 AS B$\nFOR I = 1 TO 5\nLSET A$ = CHR$(64 + I)\nLSET B$ = \"z\"\nPUT #1, I\nNEXT\nGET #1, 3\nPRINT A$; B$\nCLOSE\nKILL \"F.DAT\"\n",
    ] {
        push("files", t.to_string(), vec![]);
    }
    // PRINT / PRINT USING / LPRINT
    let fmts = ["", "#", "##.##", "+##.##-", "**$##,.##^^^^", "!", "&", "\\  \\", "\\\\", "_#", "abc", "#.#^^^^", "###,###", "%", "\\", "#####################################", ".", "$$", "-#", "#-", "^^^^"];
    let vals = ["1", "-1", "0", "1.5", "123456789", "340000000000000000000000000000000000000.0", "-1000000000000000000000000000000000000000000000000000000000000.0#", "\"s\"", "\"\"", "\"long string here\"", "0.005", "99999", "A$", "X#"];
    for f in fmts {
        for _ in 0..reps * 2 {
            let n = 1 + rng.below(3);
            let items: Vec<&str> = (0..n).map(|_| pick_s(rng, &vals)).collect();
            let sep = pick_s(rng, &["; ", ", "]);
            let kw = pick_s(rng, &["PRINT", "PRINT", "LPRINT"]);
            let end = pick_s(rng, &["", ";", ","]);
            push("print-using", format!("X# = 2.5\n{} USING \"{}\"; {}{}\n", kw, f, items.join(sep), end), vec![]);
        }
    }
    for t in [
        "PRINT\nPRINT ,\nPRINT ;\nPRINT , , 1\nPRINT 1;2,3;\nPRINT \"a\"; \"b\"\nPRINT TAB(5); \"x\"; SPC(3); \"y\"\n",
        "PRINT TAB(-5); 1; TAB(300); 2; SPC(-1); 3; TAB(32767); 4\n",
        "LPRINT \"a\", 1; 2.5\nLPRINT\nLPRINT USING \"#\"; 5\nLPRINT TAB(10); \"x\"\n",
        "WIDTH 40\nPRINT STRING$(100, \"x\")\nWIDTH 80, 50\nWIDTH 0\n",
        "LOCATE 1, 1\nLOCATE 25, 80\nLOCATE 26, 1\nLOCATE , , 1, 0, 31\n",
        "VIEW PRINT 1 TO 25\nVIEW PRINT 5 TO 3\n",
        "COLOR 7, 0\nCOLOR 31\nCOLOR -1\nCOLOR , 1\n",
        "CLS 1\nCLS 5\n",
        "SCREEN 0\nSCREEN 13\nSCREEN -1\n",
        "PRINT 0.0000000000000000000000000000000000000000001; 123456789012345678; .1 + .2; 1 / 3; -0.0; 1234567.1; 0.1#; 100000.0 * 100000.0\n",
        "PRINT CHR$(0); CHR$(7); CHR$(13); CHR$(255); CHR$(10)\n",
        "A$ = STRING$(32000, \"x\")\nPRINT A$;\nPRINT A$;\n",
    ] {
        push("print", t.to_string(), vec![]);
    }
    // INPUT / LINE INPUT with arbitrary bytes
    let input_stmts = [
        "INPUT A%", "INPUT A&", "INPUT A!", "INPUT A#", "INPUT A$", "INPUT A", "INPUT A%, B$, C#", "INPUT A$, B", "INPUT X, A&, A!, A#",
        "LINE INPUT A$", "INPUT AS$(1), AS$(X%)", "INPUT AR(1), AR(2)", "INPUT R.I, R.T, R.D", "INPUT F", "LINE INPUT F",
        "INPUT A$\nINPUT B$\nINPUT C", "LINE INPUT A$\nLINE INPUT B$\nINPUT C%", "DO\nLINE INPUT L$\nN = N + 1\nLOOP UNTIL L$ = \"\" OR N > 50",
    ];
    let n_in = if thorough { 120 } else { 9 };
    for st in input_stmts {
        for k in 0..n_in {
            let stdin = if k < bi::console_inputs().len() && k % 2 == 0 { bi::console_inputs()[k].clone() } else { random_bytes(rng) };
            let pre = if rng.chance(1, 4) { "ON ERROR GOTO H\n" } else { "" };
            let post = if pre.is_empty() { "" } else { "END\nH:\nPRINT ERR\nRESUME NEXT\n" };
            push(
                "input",
                format!("{}{}DIM AR(1 TO 2)\nDIM R AS REC\nDIM F AS STRING * 4\nDIM AS$(1 TO 2)\nX% = 2\n{}\nPRINT A%; A&; A!; A#; A$; A; B$; C#; X; AR(1); R.I; R.T; F\n{}", bi::TYPE_DECL, pre, st, post),
                stdin,
            );
        }
    }
    // READ with arbitrary DATA
    let data_items = [
        "1", "-1", "0", "32767", "32768", "-32769", "2147483648", "1.5", "-2.5", "123456789012345678901234567890", "\"a\"", "\"\"", "\"1\"", "\"a, b\"", "\"  x \"",
        "0.0000001", "99999999999999999999999999999999999999999.0", "1.0#",
    ];
    let read_targets = ["A%", "A&", "A!", "A#", "A$", "A", "AR(1)", "AR(X%)", "R.I", "R.T", "R.L", "F", "AS$(1)"];
    let n_read = if thorough { 2500 } else { 220 };
    for _ in 0..n_read {
        let mut t = String::from(bi::TYPE_DECL);
        t.push_str("DIM AR(1 TO 2)\nDIM R AS REC\nDIM F AS STRING * 4\nDIM AS$(1 TO 2)\nX% = 1\n");
        for _ in 0..rng.below(3) {
            let n = 1 + rng.below(4);
            let items: Vec<&str> = (0..n).map(|_| pick_s(rng, &data_items)).collect();
            t.push_str(&format!("DATA {}\n", items.join(", ")));
        }
        for _ in 0..1 + rng.below(3) {
            let n = 1 + rng.below(3);
            let items: Vec<&str> = (0..n).map(|_| pick_s(rng, &read_targets)).collect();
            t.push_str(&format!("READ {}\n", items.join(", ")));
        }
        if rng.chance(1, 3) {
            t.push_str("DATA 7, \"z\"\n");
        }
        t.push_str("PRINT A%; A$; AR(1); R.T; F\n");
        push("read-data", t, vec![]);
    }
}


// ---- jumps into FOR bodies and SELECT CASE blocks -------------------------------------------------------------

/// Family `jump-into-block`: every kind of jump (GOTO, GOSUB, ON ERROR GOTO with a failing statement, RESUME label,
/// RETURN label) x a target label inside a FOR body (with / without STEP), a CASE / CASE ELSE block, or two of them
/// nested x the place of the jump (before the block, behind it, in a sibling block, in the enclosing block, inside the
/// block itself) x main module / SUB.  The FOR state lives in a register frame and the SELECT selector on the value
/// stack, both pushed by the header: entering the body without the header must be refused by the checker (static kinds)
/// or answered with a BASIC-level error; the oracle is that of every C08 input.
fn jump_into_block_inputs(out: &mut Vec<Input>) {
    fn wrap(kind: &str, var: &str, inner: &str) -> String {
        match kind {
            "for" => format!("FOR {}% = 1 TO 2\n{}NEXT\n", var, inner),
            "forstep" => format!("FOR {}% = 1 TO 3 STEP 2\n{}NEXT\n", var, inner),
            "case" => format!("SELECT CASE K%\nCASE 1\n{}CASE ELSE\nPRINT \"e\"\nEND SELECT\n", inner),
            "caseelse" => format!("SELECT CASE K%\nCASE 5\nPRINT \"c\"\nCASE ELSE\n{}END SELECT\n", inner),
            _ => unreachable!(),
        }
    }
    fn other(kind: &str) -> &'static str {
        match kind {
            "for" => "case",
            "forstep" => "caseelse",
            "case" => "for",
            _ => "forstep",
        }
    }
    let blocks = ["for", "forstep", "case", "caseelse"];
    // the nest around the label, outermost first
    let mut nests: Vec<Vec<&str>> = blocks.iter().map(|b| vec![*b]).collect();
    for (a, b) in [("for", "for"), ("for", "case"), ("case", "for"), ("caseelse", "forstep"), ("case", "caseelse"), ("forstep", "case")] {
        nests.push(vec![a, b]);
    }
    let vars = ["I", "J"];
    // (kind, the jump, what goes behind the program)
    let kinds: [(&str, &str, &str); 7] = [
        ("goto", "GOTO L\n", ""),
        ("gosub", "GOSUB L\nPRINT \"back\"\n", ""),
        ("gosub-return-behind", "GOSUB L\nPRINT \"back\"\n", "RETURN\n"),
        ("on-error", "ON ERROR GOTO L\nY% = 1 / Z%\nPRINT \"next\"\n", ""),
        ("on-error-resume-next", "ON ERROR GOTO L\nY% = 1 / Z%\nPRINT \"next\"\n", "RESUME NEXT\n"),
        ("resume-label", "ON ERROR GOTO H\nY% = 1 / Z%\nPRINT \"next\"\n", "END\nH:\nRESUME L\n"),
        ("return-label", "GOSUB R\nPRINT \"back\"\n", "END\nR:\nRETURN L\n"),
    ];
    for nest in &nests {
        for (kind, jump, tail) in kinds {
            // the label: executed at most a few times, whatever brings control here
            let at_label = |extra: &str| format!("L:\nPRINT \"in\"; I%; J%\nC% = C% + 1\nIF C% > 4 THEN\nPRINT \"stop\"\nSYSTEM\nEND IF\n{}", extra);
            let target = |extra: &str| {
                let mut t = at_label(extra);
                for (k, b) in nest.iter().enumerate().rev() {
                    t = wrap(b, vars[k], &t);
                }
                t
            };
            let once = |j: &str| format!("IF D% = 0 THEN\nD% = 1\n{}END IF\n", j);
            let mut layouts: Vec<(&str, String)> = vec![
                ("before", format!("{}{}PRINT \"after\"\n", once(jump), target(""))),
                ("behind", format!("{}{}PRINT \"after\"\n", target(""), once(jump))),
                ("sibling", format!("{}{}PRINT \"after\"\n", wrap(nest[0], "S", &once(jump)), target(""))),
                ("sibling-behind", format!("{}{}PRINT \"after\"\n", target(""), wrap(nest[0], "S", &once(jump)))),
                ("inside", format!("{}PRINT \"after\"\n", target(&once(jump)))),
                // the jump in a block of the OTHER kind (FOR <-> SELECT CASE) at the same depth: the two headers push on
                // different stacks (after a wave-10 seed: block identity degenerated to nesting depth)
                ("sibling-other", format!("{}{}PRINT \"after\"\n", wrap(other(nest[0]), "S", &once(jump)), target(""))),
                ("sibling-other-behind", format!("{}{}PRINT \"after\"\n", target(""), wrap(other(nest[0]), "S", &once(jump)))),
            ];
            if nest.len() == 2 {
                // the jump in the enclosing block, the label one block further in
                let inner = wrap(nest[1], vars[1], &at_label(""));
                layouts.push(("enclosing", format!("{}PRINT \"after\"\n", wrap(nest[0], vars[0], &format!("{}{}", once(jump), inner)))));
                layouts.push(("enclosing-behind", format!("{}PRINT \"after\"\n", wrap(nest[0], vars[0], &format!("{}{}", inner, once(jump))))));
                // the jump one block further in than the label (leaves a block: always allowed)
                let outer_label = format!("{}{}", at_label(""), wrap(nest[1], vars[1], &once(jump)));
                layouts.push(("leaving", format!("{}PRINT \"after\"\n", wrap(nest[0], vars[0], &outer_label))));
            }
            for (layout, body) in layouts {
                let family = format!("jump-into-block:{}", kind);
                let main = format!("' {} {} {}\nK% = 1\n{}{}", kind, nest.join(">"), layout, body, tail);
                out.push(Input { family: family.clone(), text: main, stdin: vec![] });
                // the same inside a SUB (the handler of ON ERROR / RESUME is a label of the main module, END does not belong in a SUB)
                if !tail.starts_with("END") && !kind.starts_with("on-error") {
                    let body = body.replace("PRINT \"stop\"\nSYSTEM\n", "PRINT \"stop\"\nEXIT SUB\n");
                    out.push(Input { family: family.clone(), text: format!("' {} {} {} in a SUB\nS\nPRINT \"main\"\nSUB S\nK% = 1\n{}{}END SUB\n", kind, nest.join(">"), layout, body, tail), stdin: vec![] });
                }
                // ON ERROR GOTO inside a SUB, the label in a block of the main module
                if kind == "on-error" && layout == "before" {
                    out.push(Input {
                        family,
                        text: format!("' {} {} from a SUB\nK% = 1\nIF D% = 0 THEN\nD% = 1\nS\nEND IF\n{}END\nSUB S\nON ERROR GOTO L\nY% = 1 / Z%\nPRINT \"next\"\nEND SUB\n", kind, nest.join(">"), target("")),
                        stdin: vec![],
                    });
                }
            }
        }
    }
}

// ---- recursive calls of a STATIC procedure with actuals of different shapes ------------------------------------

/// Family `static-recursion`: a STATIC SUB / FUNCTION with one INTEGER parameter that calls itself 1 to 3 levels deep
/// (the shared counter GD% is set by the main module), the main module's actual and the actual of every recursive call
/// being, independently, a plain variable, an array element, a record field, a field of an element of an array of
/// records, or an expression (by value): 2 kinds x 5 outer shapes x 5 inner shapes x 3 depths (at depth > 1 the deeper
/// levels go on through the shapes in a cycle), and the same for a two-parameter SUB whose second actual has the
/// shape the first one does not.  The activations of a STATIC procedure that run at the same time share one memory block,
/// parameters included; the call epilogue of every activation expects what ITS actual needs (an element's resolved
/// path travels with the argument: `DequeueFromReturnStackWithPath`), whatever the inner activations were called with.
/// The oracle is that of every C08 input (C03's family `static-byref-shapes` decides the values written back).
fn static_recursion_inputs(out: &mut Vec<Input>) {
    const SHAPES: [&str; 5] = ["var", "elem", "field", "elem-field", "by-value"];
    // actuals the main module writes (its own variables) and actuals the procedure writes (DIM SHARED / its own)
    const OUTER: [&str; 5] = ["V%", "A%(1)", "R.P", "RA(1).P", "V% + 1"];
    const INNER: [&str; 5] = ["M%", "G%(2)", "GR.P", "GA(2).P", "P% - 1"];
    const OUTER2: [&str; 5] = ["W%", "A%(2)", "R.P", "RA(2).P", "(W%)"];
    const INNER2: [&str; 5] = ["GS%", "G%(1)", "GR.P", "GA(1).P", "7"];
    let head = "TYPE Rec\n  P AS INTEGER\n  Q AS LONG\nEND TYPE\n";
    let dims = "DIM SHARED GD%\nDIM SHARED GS%\nDIM SHARED G%(4)\nDIM SHARED GR AS Rec\nDIM SHARED GA(3) AS Rec\n\
                DIM A%(4)\nDIM R AS Rec\nDIM RA(3) AS Rec\n\
                V% = 3\nW% = 4\nA%(1) = 10\nA%(2) = 20\nR.P = 5\nRA(1).P = 30\nRA(2).P = 60\nG%(1) = 11\nG%(2) = 22\nGR.P = 6\nGA(1).P = 40\nGA(2).P = 80\nGS% = 9\n";
    let tail = "PRINT V%; W%; GS%; GD%\nPRINT A%(1); A%(2); G%(1); G%(2)\nPRINT R.P; GR.P; RA(1).P; RA(2).P; GA(1).P; GA(2).P\n";
    for kind in ["sub", "function", "sub2"] {
        for o in 0..5 {
            for i in 0..5 {
                for depth in 1..=3usize {
                    let mut t = format!("' static-recursion {} outer {} inner {} depth {}\n{}", kind, SHAPES[o], SHAPES[i], depth, head);
                    let two = kind == "sub2";
                    let is_fn = kind == "function";
                    let (name, params) = match kind {
                        "sub" => ("SR", "P%"),
                        "function" => ("SF%", "P%"),
                        _ => ("SR2", "P%, Q%"),
                    };
                    t.push_str(&format!("DECLARE {} {} ({})\n", if is_fn { "FUNCTION" } else { "SUB" }, name, params));
                    t.push_str(dims);
                    t.push_str(&format!("GD% = {}\n", depth));
                    let outer = if two { format!("{}, {}", OUTER[o], OUTER2[(o + 1) % 5]) } else { OUTER[o].to_owned() };
                    if is_fn {
                        t.push_str(&format!("PRINT {}({})\n", name, outer));
                    } else {
                        t.push_str(&format!("{} {}\n", name, outer));
                    }
                    t.push_str(tail);
                    t.push_str(&format!("{} {} ({}) STATIC\n", if is_fn { "FUNCTION" } else { "SUB" }, name, params));
                    t.push_str("N% = N% + 1\nP% = P% + 10 + N%\nM% = M% + 2\n");
                    t.push_str("IF GD% > 0 THEN\nGD% = GD% - 1\nL% = GD%\n");
                    // level k (GD% after the decrement, kept in L% before the call): the first recursive call is the one of
                    // level depth-1 and has the inner shape i; the deeper levels go on in a cycle
                    for k in 0..depth {
                        let shape = (i + (depth - 1 - k)) % 5;
                        let inner = if two { format!("{}, {}", INNER[shape], INNER2[(shape + 1) % 5]) } else { INNER[shape].to_owned() };
                        if is_fn {
                            t.push_str(&format!("IF L% = {} THEN X% = {}({})\n", k, name, inner));
                        } else {
                            t.push_str(&format!("IF L% = {} THEN {} {}\n", k, name, inner));
                        }
                        // (L% is shared with the inner activations, which leave it at 0 or below their own level: the
                        // tests for the levels above k fail after the call has returned)
                        t.push_str(&format!("IF L% = {} THEN L% = -1\n", k));
                    }
                    t.push_str("END IF\nP% = P% + 100\n");
                    if is_fn {
                        t.push_str(&format!("{} = N%\n", name));
                    }
                    t.push_str(if is_fn { "END FUNCTION\n" } else { "END SUB\n" });
                    out.push(Input { family: format!("static-recursion:{}", kind), text: t, stdin: vec![] });
                }
            }
        }
    }
}

// ---- shrinking -------------------------------------------------------------------------------------------

fn sig_of(o: &Outcome) -> Option<String> {
    o.signature()
}

/// Removes lines (then shortens stdin) while the panic signature stays the same. In-process.
fn shrink(text: &str, stdin: &[u8], want: &str) -> (String, Vec<u8>) {
    let mut lines: Vec<String> = text.lines().map(|l| l.to_string()).collect();
    let mut input = stdin.to_vec();
    let same = |ls: &[String], inp: &[u8]| -> bool {
        bi::clean_scratch();
        let t = ls.join("\n") + "\n";
        sig_of(&bi::run_case(&t, inp, BUDGET)).as_deref() == Some(want)
    };
    if !same(&lines, &input) {
        return (text.to_string(), stdin.to_vec());
    }
    let mut attempts = 0;
    let mut chunk = (lines.len() / 2).max(1);
    while chunk >= 1 && attempts < 250 {
        let mut i = 0;
        let mut removed_any = false;
        while i < lines.len() && attempts < 250 {
            let end = (i + chunk).min(lines.len());
            let mut cand = lines.clone();
            cand.drain(i..end);
            attempts += 1;
            if !cand.is_empty() && same(&cand, &input) {
                lines = cand;
                removed_any = true;
            } else {
                i += chunk;
            }
        }
        if chunk == 1 && !removed_any {
            break;
        }
        chunk = if chunk == 1 { 1 } else { chunk / 2 };
        if chunk == 1 && !removed_any && lines.len() <= 1 {
            break;
        }
    }
    if same(&lines, b"") {
        input.clear();
    } else {
        while input.len() > 1 && attempts < 300 {
            attempts += 1;
            let half = input[..input.len() / 2].to_vec();
            if same(&lines, &half) {
                input = half;
            } else {
                break;
            }
        }
    }
    (lines.join("\n") + "\n", input)
}

fn show_stdin(b: &[u8]) -> String {
    if b.is_empty() {
        "stdin: (empty)".into()
    } else if b.len() <= 80 && b.iter().all(|c| (32..127).contains(c) || *c == b'\n' || *c == b'\r') {
        format!("stdin: {:?}", String::from_utf8_lossy(b))
    } else {
        format!("stdin: {} bytes, hex {}{}", b.len(), hex(&b[..b.len().min(60)]), if b.len() > 60 { "..." } else { "" })
    }
}

fn main() {
    let args: Vec<String> = std::env::args().collect();
    if args.len() >= 4 && args[1] == "--worker" {
        worker_main(args[2].clone(), args[3].clone());
        return;
    }
    bi::install_panic_capture();
    let t0 = Instant::now();
    let mut rng = Rng::from_env();
    let mut rep = Report::new(
        "C08",
        "inputs = (program text, bytes on standard input), each run on the real parser + linter + instruction generator + interpreter in a watched \
         worker process (instruction budget, 256 MB stack, address-space limit, scratch directory): (a) every string literal of /repo's Rust sources and \
         every fixture, with fixed and random input bytes; (b) type-directed random programs with run-time faults and ON ERROR; (c) every built-in \
         function and sub with every argument type tuple (arity <= 3) the front end accepts, arguments written as variable, literal, parenthesised, \
         user-function call, array element, record field, field of an array element, nested built-in, at boundary values (zero, +-1, type limits, \
         empty / long / non-ASCII strings), in every file context, and with each non-scalar kind (record variable, record-typed array element, \
         record-valued field, whole array with and without (), fixed-length string, record field of each type, undefined-function call, unassigned variable; \
         bare and parenthesised) in each argument position; (d) statement-level templates: DIM/REDIM up to 4 dimensions with boundary bounds and \
         every element type, nested TYPEs, STRING * n, SHARED/STATIC, recursion, DEF SEG/PEEK/POKE/VARPTR/VARSEG on every kind of variable, file \
         statements, PRINT USING, LPRINT, INPUT / LINE INPUT with arbitrary bytes, READ with arbitrary DATA; about 120 statement templates with a scalar of every type and \
         every non-scalar kind in each expression position (PRINT items, assignment sides, operands, conditions, FOR bounds, CASE values, subscripts, DIM bounds, \
         user SUB/FUNCTION arguments, INPUT/READ targets, file names and numbers); (e) jump-into-block: GOTO, GOSUB (RETURN inside / behind the block), \
         ON ERROR GOTO (with / without RESUME NEXT), RESUME label, RETURN label x a label inside FOR, FOR STEP, CASE, CASE ELSE and six two-level nests x the \
         jump before / behind / in a sibling block / in the enclosing block / inside the block / one block further in, main module and SUB; a GOTO / GOSUB \
         that stays inside its block or leaves it must be accepted. Oracle: the end is normal, budget, or a \
         RuntimeError with a code and a position; never a panic, abort or hang. distinct = distinct accepted (program, input) pairs; rejected programs are trivial.",
    );
    let thorough = rep.is_thorough();
    let work = std::env::var("VERIF_WORK").unwrap_or_else(|_| "/tmp".to_owned());
    let scratch = format!("{}/scratch-main-{}", work, std::process::id());
    std::fs::create_dir_all(&scratch).expect("scratch");
    std::env::set_current_dir(&scratch).expect("chdir");
    if let Err(e) = bi::verify_values() {
        rep.fail(Failure {
            kind: Kind::ModelVsImpl,
            signature: "representative-values".into(),
            input: e.clone(),
            implementation: e,
            expected: "every representative value has the static type it stands for".into(),
            note: String::new(),
        });
    }
    let limit = Duration::from_secs(if thorough { 60 } else { 25 });

    // phase 1: acceptance of (built-in, type tuple)
    let probes = builtin_probes();
    let probe_inputs: Vec<Input> = probes.iter().map(|p| p.2.clone()).collect();
    let probe_res = run_parallel(&probe_inputs, limit, "p");
    let mut accepted: Vec<(usize, Vec<Ty>)> = vec![];
    let all_bi = bi::built_ins();
    for ((k, tys, inp), r) in probes.iter().zip(probe_res.iter()) {
        match r {
            Res::Done(Outcome::Rejected(_)) => rep.bump("builtin-type-tuples.rejected"),
            Res::Done(Outcome::Panic { .. }) | Res::Hang | Res::Abort(_) => {
                rep.bump("builtin-type-tuples.accepted");
                accepted.push((*k, tys.clone()));
                let _ = inp;
            }
            Res::Done(_) => {
                rep.bump("builtin-type-tuples.accepted");
                rep.bump(&format!("builtin-accepted-tuples.{}", all_bi[*k].name));
                accepted.push((*k, tys.clone()));
            }
        }
    }
    let t_probe = t0.elapsed();

    // phase 2: everything
    let mut inputs: Vec<Input> = vec![];
    corpus_inputs(&mut rng, &mut inputs);
    generated_inputs(&mut rng, if thorough { 6000 } else { 350 }, &mut inputs, &mut rep);
    arg_fault_inputs(&mut inputs);
    block_label_inputs(&mut inputs);
    builtin_inputs(&mut rng, &accepted, thorough, &mut inputs);
    statement_inputs(&mut rng, thorough, &mut inputs);
    nested_inputs(&mut inputs);
    odd_builtin_inputs(&accepted, thorough, &mut inputs);
    odd_statement_inputs(&mut inputs);
    jump_into_block_inputs(&mut inputs);
    static_recursion_inputs(&mut inputs);
    // the probes that did not end in a verdict are re-run as ordinary inputs
    for ((_, _, inp), r) in probes.iter().zip(probe_res.iter()) {
        if !matches!(r, Res::Done(Outcome::Rejected(_)) | Res::Done(Outcome::Ok) | Res::Done(Outcome::Budget) | Res::Done(Outcome::Err { .. })) {
            inputs.push(Input { family: "builtin:probe".into(), ..inp.clone() });
        }
    }
    // the arrays with heap-owning elements are decided under a small, fixed address-space limit of their own and a
    // generous time limit: what they do must not depend on how much memory or speed the machine happens to have
    // (under the ordinary worker limit a slow machine is still allocating when the time limit strikes)
    // (the family name carries the "stmt:" prefix of `statement_inputs`: until round 3 this filter compared with the
    // bare name, matched nothing, and the inputs ran under the ordinary limits — the machine-dependent time-out that
    // vp check #4 and #7 reported)
    let owned: Vec<Input> = inputs.iter().filter(|i| i.family == "stmt:huge-owned-elements").cloned().collect();
    inputs.retain(|i| i.family != "stmt:huge-owned-elements");
    assert!(!owned.is_empty(), "the huge-owned-elements family must be routed to its own workers");
    let mut results = run_parallel(&inputs, limit, "r");
    let owned_results = run_in_workers(&owned, Duration::from_secs(120), "owned", 1 << 20);
    inputs.extend(owned);
    results.extend(owned_results);
    let t_run = t0.elapsed();

    // classification
    let mut dump = std::env::var("VERIF_C08_DUMP").ok().and_then(|p| std::fs::File::create(p).ok());
    let mut observed_codes: BTreeMap<String, i32> = BTreeMap::new();
    let mut by_sig: BTreeMap<String, Vec<usize>> = BTreeMap::new();
    let mut accepted_programs: Vec<usize> = vec![];
    for (k, (inp, r)) in inputs.iter().zip(results.iter()).enumerate() {
        let fam = inp.family.split(':').next().unwrap_or("").to_string();
        let fam_full = if inp.family.starts_with("stmt:") || inp.family.starts_with("jump-into-block:") { inp.family.clone() } else { fam.clone() };
        match r {
            Res::Done(Outcome::Rejected(m)) => {
                rep.case(None);
                rep.bump(&format!("{}.rejected", fam_full));
                if m.starts_with("front-end panic") {
                    rep.bump(&format!("{}.rejected-by-front-end-panic(C07)", fam_full));
                }
                // a jump that stays inside its block or leaves it is legal: the checker's rule is about entering
                if matches!(inp.family.as_str(), "jump-into-block:goto" | "jump-into-block:gosub" | "jump-into-block:gosub-return-behind") {
                    let head = inp.text.lines().next().unwrap_or("");
                    if head.contains(" inside") || head.contains(" leaving") {
                        rep.fail(Failure {
                            kind: Kind::ImplVsProperty,
                            signature: "jump-into-block:legal-jump-rejected".into(),
                            input: inp.text.clone(),
                            implementation: format!("rejected: {}", m),
                            expected: "a GOTO / GOSUB whose label is in the same FOR body / SELECT CASE block, or in an enclosing one, is accepted".into(),
                            note: format!("family {}", inp.family),
                        });
                    }
                }
                if fam == "arg-fault" || fam == "static-recursion" {
                    rep.fail(Failure {
                        kind: Kind::ModelVsImpl,
                        signature: format!("family-program-rejected:{}", fam),
                        input: inp.text.clone(),
                        implementation: format!("rejected by the front end: {}", m),
                        expected: "every program of the directed family is an accepted program".into(),
                        note: "the family is off".into(),
                    });
                }
                if let Some(f) = dump.as_mut() {
                    if inp.family.starts_with("stmt:") {
                        let _ = writeln!(f, "#### {} :: {}\n{}", inp.family, m, inp.text);
                    }
                }
                continue;
            }
            _ => {}
        }
        rep.case(Some(format!("{}\u{0}{}", inp.text, hex(&inp.stdin))));
        accepted_programs.push(k);
        match r {
            Res::Done(Outcome::Ok) => rep.bump(&format!("{}.ok", fam_full)),
            Res::Done(Outcome::Budget) => rep.bump(&format!("{}.budget", fam_full)),
            Res::Done(Outcome::Err { variant, code, positions, row, .. }) => {
                rep.bump(&format!("{}.basic-error", fam_full));
                rep.bump(&format!("error.{}({})", variant, code));
                observed_codes.insert(variant.clone(), *code);
                if *positions == 0 || *row == 0 {
                    by_sig.entry(format!("error-without-position:{}", variant)).or_default().push(k);
                }
            }
            Res::Done(Outcome::Panic { .. }) => {
                rep.bump(&format!("{}.PANIC", fam_full));
                let s = sig_of(match r {
                    Res::Done(o) => o,
                    _ => unreachable!(),
                })
                .unwrap();
                // the jumps whose origin is only known at run time (the failing statement, the pending GOSUB) are kept
                // apart from those the checker can decide
                let s = match inp.family.strip_prefix("jump-into-block:") {
                    Some(kind) if kind == "resume-label" || kind == "return-label" => format!("{}|jump-into-block({})", s, kind),
                    Some(_) => format!("{}|jump-into-block", s),
                    None => s,
                };
                by_sig.entry(s).or_default().push(k);
            }
            Res::Hang => {
                rep.bump(&format!("{}.HANG", fam_full));
                by_sig.entry(format!("hang:{}", inp.family)).or_default().push(k);
            }
            Res::Abort(_) => {
                rep.bump(&format!("{}.ABORT", fam_full));
                by_sig.entry(format!("abort:{}", inp.family)).or_default().push(k);
            }
            Res::Done(Outcome::Rejected(_)) => {}
        }
    }
    // failures, shortest input first, shrunk
    for (sig, ks) in by_sig.iter() {
        let mut ks = ks.clone();
        ks.sort_by_key(|k| inputs[*k].text.len() + inputs[*k].stdin.len());
        rep.bump_by(&format!("failing-inputs.{}", sig), ks.len() as u64);
        for k in ks.iter().take(2) {
            let inp = &inputs[*k];
            let (text, stdin, implementation) = match &results[*k] {
                Res::Done(Outcome::Panic { site, msg }) => {
                    let (t, s) = shrink(&inp.text, &inp.stdin, sig.split("|jump-into-block").next().unwrap_or(sig));
                    (t, s, format!("panic at {}: {}", site, msg.lines().next().unwrap_or("")))
                }
                Res::Done(Outcome::Err { variant, code, positions, row, col }) => {
                    (inp.text.clone(), inp.stdin.clone(), format!("{}({}) with {} positions, first ({}, {})", variant, code, positions, row, col))
                }
                Res::Hang => (inp.text.clone(), inp.stdin.clone(), format!("no result within {} s (worker killed)", limit.as_secs())),
                Res::Abort(s) => (inp.text.clone(), inp.stdin.clone(), format!("worker process died ({}) with a 256 MB stack and a {} MiB address space", s, WORKER_MEM_KIB >> 10)),
                _ => continue,
            };
            rep.fail(Failure {
                kind: Kind::ImplVsProperty,
                signature: sig.clone(),
                input: text,
                implementation,
                expected: "normal termination or a BASIC run-time error with a code and a source position".into(),
                note: format!("family {}; {}; {} failing inputs with this signature", inp.family, show_stdin(&stdin), ks.len()),
            });
        }
    }

    // observed error codes against the extracted table (Lean side)
    let variants: Vec<(String, i32)> = observed_codes.into_iter().collect();
    let mut reqs: Vec<String> = variants.iter().map(|(v, _)| format!("(outcome.code {})", v)).collect();
    // every variant's code, real vs table
    let all_variants = bi::runtime_error_variants();
    for (name, _) in all_variants.iter() {
        reqs.push(format!("(outcome.code {})", name));
    }
    // wfCheck on a sample of the accepted programs (hypothesis of wf_no_vm_failure)
    let n_wf = if thorough { 1500 } else { 140 };
    let mut wf_texts: Vec<String> = vec![];
    let mut seen = BTreeSet::new();
    let stride = (accepted_programs.len() / n_wf.max(1)).max(1);
    for k in accepted_programs.iter().step_by(stride) {
        let inp = &inputs[*k];
        if inp.family == "corpus" || inp.family == "generated" || inp.family == "corpus+stdin" || inp.family == "block-labels:resume" {
            // C15 checks those.  (block-labels:resume: the checker takes a RESUME label target for an activation entry at
            // relative depth zero, so a target inside a FOR body / SELECT CASE block is outside its fragment: run only)
            continue;
        }
        if matches!(
            inp.family.as_str(),
            "jump-into-block:gosub" | "jump-into-block:gosub-return-behind" | "jump-into-block:return-label" | "jump-into-block:resume-label"
        ) {
            // same reason: a GOSUB / RETURN label / RESUME label whose target lies inside a FOR body or a CASE block (legal
            // when the block encloses the jump, or decided at run time) has no certificate with roots at relative depth
            // zero: wf_no_vm_failure does not speak about such programs; they are run (never a panic), not certified.
            // (A first version reported these as impl-vs-property failures of the wfCheck sample: a false alarm of the
            // checker's fragment, corrected here; the GOTO programs of the family stay in the sample.)
            rep.bump("wf-sample.skipped.jump-into-block(gosub/return/resume edge into a block)");
            continue;
        }
        if matches!(results[*k], Res::Done(Outcome::Panic { .. }) | Res::Hang | Res::Abort(_)) {
            continue;
        }
        if seen.insert(inp.text.clone()) && wf_texts.len() < n_wf {
            wf_texts.push(inp.text.clone());
        }
    }
    let mut wf_ok_texts = vec![];
    for t in &wf_texts {
        let t2 = t.clone();
        if let Ok(Ok((res, _))) = std::panic::catch_unwind(move || compile(&t2)) {
            let (code, addrs) = instr_sx::program(&res);
            reqs.push(format!("(wf.check {} {})", code, addrs));
            wf_ok_texts.push(t.clone());
        }
    }
    let answers = ask(&reqs);
    for (i, (v, code)) in variants.iter().enumerate() {
        let want = format!("(code {})", code);
        if answers[i] != want {
            rep.fail(Failure {
                kind: Kind::ModelVsImpl,
                signature: format!("code-table:{}", v),
                input: format!("RuntimeError::{}", v),
                implementation: format!("observed code {}", code),
                expected: format!("extracted table: {}", answers[i]),
                note: "an observed run-time error is not in the extracted code table".into(),
            });
        }
    }
    for (j, (name, e)) in all_variants.iter().enumerate() {
        let real = std::panic::catch_unwind(std::panic::AssertUnwindSafe(|| e.get_code()));
        rep.case(Some(format!("get_code {}", name)));
        match real {
            Ok(c) => {
                if answers[variants.len() + j] != format!("(code {})", c) {
                    rep.fail(Failure {
                        kind: Kind::ModelVsImpl,
                        signature: format!("code-table:{}", name),
                        input: format!("RuntimeError::{}.get_code()", name),
                        implementation: format!("{}", c),
                        expected: answers[variants.len() + j].clone(),
                        note: "the extracted table differs from the function".into(),
                    });
                }
            }
            Err(_) => rep.fail(Failure {
                kind: Kind::ImplVsProperty,
                signature: format!("get_code-panic:{}", name),
                input: format!("RuntimeError::{}.get_code()", name),
                implementation: "panic".into(),
                expected: "a numeric code".into(),
                note: String::new(),
            }),
        }
    }
    let names = ["targets-resolved", "labels-unique", "terminators", "branches-local", "statement-addresses", "stack-certificate"];
    let base = variants.len() + all_variants.len();
    for (j, t) in wf_ok_texts.iter().enumerate() {
        let a = &answers[base + j];
        rep.bump("wf-checked");
        if a.starts_with("(bad-op") {
            rep.fail(Failure {
                kind: Kind::ModelVsImpl,
                signature: "unreadable-instruction-list".into(),
                input: t.clone(),
                implementation: reqs[base + j].chars().take(300).collect(),
                expected: "the Lean reader understands every instruction the generator emits".into(),
                note: String::new(),
            });
            continue;
        }
        let inner = a.trim().trim_start_matches("(wf ");
        let flags: Vec<&str> = inner.split(' ').take(6).collect();
        for (i, f) in flags.iter().enumerate() {
            if *f != "t" {
                rep.fail(Failure {
                    kind: Kind::ImplVsProperty,
                    // a RETURN label / RESUME label into a FOR body or a CASE block is accepted (where it comes from is
                    // only known at run time) and its code has no stack certificate: kept apart from every other program
                    // a label inside the body of a FOR ... STEP loop is emitted twice (the body is generated once per step
                    // sign: recorded finding C05-a); the programs of the jump-into-block family that put their label there
                    // say so in their header comment and get a signature of their own
                    signature: match t.lines().next().and_then(|l| l.strip_prefix("' ")).map(|l| l.split(' ').collect::<Vec<_>>()) {
                        Some(ws) if matches!(ws.first(), Some(&("return-label" | "resume-label"))) => {
                            format!("wf:{}|jump-into-block({})", names[i], ws[0])
                        }
                        Some(ws) if ws.iter().any(|w| w.contains("forstep")) && ws.contains(&"inside") => {
                            format!("wf:{}|label-in-for-step-body", names[i])
                        }
                        _ => format!("wf:{}", names[i]),
                    },
                    input: t.clone(),
                    implementation: a.chars().take(120).collect(),
                    expected: format!("{} holds for the generated code of an accepted program", names[i]),
                    note: "wfCheck (hypothesis of wf_no_vm_failure) rejects the real instruction list".into(),
                });
            }
        }
    }
    for k in accepted_programs.iter().take(3) {
        rep.sample(J::s(inputs[*k].text.clone()));
    }
    for fam in ["builtin:MID$", "stmt:peek-poke", "stmt:files", "stmt:input"] {
        if let Some(i) = inputs.iter().find(|i| i.family == fam) {
            rep.sample(J::s(format!("[{}] {}", fam, i.text)));
        }
    }
    rep.exhaustive_parts.push(format!(
        "every built-in function and sub x every argument type tuple over 5 types up to arity 3 ({} tuples) probed on the real front end; {} accepted and driven at run time",
        probes.len(),
        accepted.len()
    ));
    rep.exhaustive_parts.push("RuntimeError::get_code on every variant vs the extracted table".into());
    rep.notes.push(format!(
        "{} inputs in worker processes (probe phase {:.1} s, run phase {:.1} s), per-input limit {} s, budget {} instructions",
        inputs.len() + probes.len(),
        t_probe.as_secs_f64(),
        (t_run - t_probe).as_secs_f64(),
        limit.as_secs(),
        BUDGET
    ));
    let _ = std::env::set_current_dir("/");
    let _ = std::fs::remove_dir_all(&scratch);
    rep.finish();
}
