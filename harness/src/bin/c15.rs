//! C15 — generated code is well-formed. For every accepted program (the repository's own test
//! programs and fixtures + generated ones) the REAL instruction list is serialised and checked by
//! the Lean checker `RbModel.Wf` (proved sound in Thm/C15.lean); the inferred stack-shape
//! certificate is then re-checked dynamically against the real VM's stack depths at every
//! executed instruction (per-instruction hook).
//!
//! Since the VM restores recorded heights at `PopRet` / `Return` (fa4a0f0, 64a41ef, 8f09b9b) the verdict
//! on the certificate is that of `RbModel.WfMarks.checkCertM` (request `wfm.check`; proved sound in
//! Thm/C15Marks.lean); the old checker is still run and may differ from it in one way only: it refuses a
//! `Return` at non-zero relative depth.  The global machine of Thm/C15Marks.lean is then run by the driver
//! (`wfm.run`) on the real list along the pcs the real VM visited: its absolute depths and its two address
//! stacks are compared with the real ones before every executed instruction, across every restoring exit.
//!
//! Handled errors (families `faults`, `arg-faults` = gen_prog::arg_fault_programs, and whatever the other programs raise):
//! at the resume point no stack may be lower than base + certificate, the context (argument) stack — hook field
//! `ctx_states` — must be EXACTLY base + certificate with a normal state on top (the clean-up after a handled error drops
//! the argument-collecting states of the abandoned calls), and a VM panic after a handled error is a failure.

use std::cell::RefCell;
use std::rc::Rc;

use rb_harness::corpus;
use rb_harness::driver::ask;
use rb_harness::gen_prog::{Ext, Opts, arg_fault_programs, generate_ext};
use rb_harness::instr_sx;
use rb_harness::json::J;
use rb_harness::report::{Failure, Kind, Report};
use rb_harness::rng::Rng;
use rusty_basic::instruction_generator::Instruction;
use rusty_basic::interpreter::verif::{compile, run_instructions, Snapshot};

#[derive(Clone, Debug, PartialEq)]
struct Depth {
    v: i64,
    r: i64,
    c: i64,
    p: i64,
    b: i64,
}

/// what the per-instruction hook shows before one executed instruction
struct Snap {
    pc: usize,
    d: Depth,
    rets: Vec<usize>,
    gosubs: Vec<usize>,
    /// `return_marks`, `go_sub_marks` (hook commit `verif hook: … marks`), oldest first
    ret_marks: Vec<(usize, usize, usize, usize)>,
    gosub_marks: Vec<(usize, usize)>,
    err_code: Option<i32>,
    err_addr: Option<usize>,
    /// 0 = none, 1 = resume next, 2 = address
    handler_kind: u8,
    handler_address: usize,
    /// the top state of `Context.states` is an argument-collecting state (hook: `ctx_states[..].1`)
    top_collecting: bool,
}

impl Snap {
    fn err(&self) -> bool {
        self.err_code.is_some() || self.err_addr.is_some()
    }
}

fn parse_cert(ans: &str) -> (Vec<bool>, String, Vec<Option<Depth>>) {
    // (wf t t t t t t ok (<h>|- ...))  or  (wf ... f (fail kind pc) ())
    let inner = ans.trim().trim_start_matches("(wf ").trim_end_matches(')');
    let mut it = inner.splitn(7, ' ');
    let flags: Vec<bool> = (0..6).map(|_| it.next().unwrap_or("f") == "t").collect();
    let rest = it.next().unwrap_or("");
    if rest.starts_with("ok ") {
        let body = rest[3..].trim();
        let body = body.strip_prefix('(').unwrap_or(body);
        let mut cert = vec![];
        let mut chars = body.chars().peekable();
        while let Some(&ch) = chars.peek() {
            if ch == '-' {
                cert.push(None);
                chars.next();
            } else if ch == '(' {
                chars.next();
                let mut tok = String::new();
                for c2 in chars.by_ref() {
                    if c2 == ')' {
                        break;
                    }
                    tok.push(c2);
                }
                let n: Vec<i64> = tok.split_whitespace().filter_map(|x| x.parse().ok()).collect();
                cert.push(Some(Depth { v: n[0], r: n[1], c: n[2], p: n[3], b: n[4] }));
            } else {
                chars.next();
            }
        }
        (flags, "ok".to_owned(), cert)
    } else {
        let status = rest.split(") ").next().unwrap_or(rest).to_owned() + ")";
        (flags, status, vec![])
    }
}

/// `(wfm r u t l a c s n ok (<h>|- ...))` or `(wfm ... (fail kind pc) ())` ->
/// (six flags, popRetStrict flag (None without a certificate), reliant returns, status, certificate)
fn parse_cert_m(ans: &str) -> (Vec<bool>, Option<bool>, u64, String, Vec<Option<Depth>>) {
    let inner = ans.trim().trim_start_matches("(wfm ").trim_end_matches(')');
    let mut it = inner.splitn(9, ' ');
    let flags: Vec<bool> = (0..6).map(|_| it.next().unwrap_or("f") == "t").collect();
    let strict = match it.next().unwrap_or("-") {
        "t" => Some(true),
        "f" => Some(false),
        _ => None,
    };
    let reliant: u64 = it.next().unwrap_or("0").parse().unwrap_or(0);
    let rest = it.next().unwrap_or("");
    // the tail has the shape of the old answer's tail
    let (_, status, cert) = parse_cert(&format!("(wf t t t t t t {})", rest));
    (flags, strict, reliant, status, cert)
}

/// Directed family for the exits that the VM restores: procedures (SUB / FUNCTION, the function called with an
/// operand pending: `PRINT 100 + F%(2)`) whose bodies issue GOSUBs from inside FOR / SELECT CASE / both, the
/// routines leaving by RETURN or EXIT SUB / FUNCTION from inside their own FOR / SELECT CASE / both (possibly
/// through a second, nested routine); the same at module level, with `RETURN label` from a GOSUB issued inside a
/// loop; now and then a RETURN executed in a procedure while only a caller has a GOSUB pending (the modelled run
/// ends there).  Every loop runs at most twice; every program terminates.
fn marks_program(rng: &mut Rng) -> String {
    struct G<'a> {
        rng: &'a mut Rng,
        n: u32,
    }
    impl G<'_> {
        fn fresh(&mut self, p: &str) -> String {
            self.n += 1;
            format!("{}{}", p, self.n)
        }
        /// wraps `body` into `depth` nested FOR / SELECT CASE blocks (outermost first in `kinds`)
        fn wrap(&mut self, depth: u32, body: Vec<String>) -> Vec<String> {
            let mut cur = body;
            for _ in 0..depth {
                let mut out = vec![];
                match self.rng.below(5) {
                    0 | 1 => {
                        let v = self.fresh("I");
                        out.push(format!("FOR {}% = 1 TO 2", v));
                        out.extend(cur.into_iter().map(|l| format!("  {}", l)));
                        out.push("NEXT".to_owned());
                    }
                    2 | 3 => {
                        let k = self.rng.range(1, 2);
                        out.push(format!("SELECT CASE {}", k));
                        if self.rng.chance(1, 2) {
                            out.push(format!("CASE {}", k));
                            out.extend(cur.into_iter().map(|l| format!("  {}", l)));
                            out.push("CASE ELSE".to_owned());
                            out.push("  PRINT \"e\"".to_owned());
                        } else {
                            out.push(format!("CASE {}", k + 5));
                            out.push("  PRINT \"n\"".to_owned());
                            out.push("CASE ELSE".to_owned());
                            out.extend(cur.into_iter().map(|l| format!("  {}", l)));
                        }
                        out.push("END SELECT".to_owned());
                    }
                    _ => {
                        let v = self.fresh("W");
                        out.push(format!("{}% = 0", v));
                        out.push(format!("WHILE {}% < 2", v));
                        out.push(format!("  {}% = {}% + 1", v, v));
                        out.extend(cur.into_iter().map(|l| format!("  {}", l)));
                        out.push("WEND".to_owned());
                    }
                }
                cur = out;
            }
            cur
        }
        /// a routine: label, wrapped exit statement(s), final RETURN; may call a second routine that exits
        fn routine(&mut self, label: &str, exit_kw: Option<&str>, extra: &mut Vec<Vec<String>>, level: u32) -> Vec<String> {
            let mut inner = vec![format!("C% = C% + 1")];
            let choice = self.rng.below(if exit_kw.is_some() { 6 } else { 4 });
            match (choice, exit_kw) {
                (0, _) | (1, _) => inner.push("RETURN".to_owned()),
                (2, _) => {
                    inner.push("IF C% MOD 2 = 0 THEN RETURN".to_owned());
                    inner.push("PRINT \"odd\"".to_owned());
                }
                (3, _) if level < 2 => {
                    // a nested routine decides
                    let l2 = self.fresh("Rt");
                    inner.push(format!("GOSUB {}", l2));
                    let r2 = self.routine(&l2, exit_kw, extra, level + 1);
                    extra.push(r2);
                }
                (3, _) => inner.push("RETURN".to_owned()),
                (4, Some(kw)) => inner.push(format!("EXIT {}", kw)),
                (_, Some(kw)) => {
                    inner.push(format!("IF N% = 2 THEN EXIT {}", kw));
                    inner.push("RETURN".to_owned());
                }
                (_, None) => inner.push("RETURN".to_owned()),
            }
            let d = self.rng.below(4) as u32;
            let mut out = vec![format!("{}:", label)];
            out.extend(self.wrap(d, inner));
            out.push("RETURN".to_owned());
            out
        }
    }
    let mut g = G { rng, n: 0 };
    let is_function = g.rng.chance(1, 2);
    let kw = if is_function { "FUNCTION" } else { "SUB" };
    let mut lines = vec![];
    if is_function {
        lines.push("DECLARE FUNCTION F% (N%)".to_owned());
    } else {
        lines.push("DECLARE SUB S (N%)".to_owned());
    }
    lines.push("C% = 0".to_owned());
    // the caller
    let arg = g.rng.range(1, 2);
    let call = if is_function {
        match g.rng.below(3) {
            0 => format!("PRINT 100 + F%({})", arg),
            1 => format!("V% = 100 + F%({}) - 100 : PRINT V%", arg),
            _ => format!("PRINT F%({}) * 2 + F%({})", arg, 3 - arg),
        }
    } else {
        format!("S {}", arg)
    };
    let mut main_routines: Vec<Vec<String>> = vec![];
    let mut caller = vec![call];
    if g.rng.chance(1, 2) {
        let l = g.fresh("Mr");
        caller.push(format!("GOSUB {}", l));
        let mut extra = vec![];
        let r = g.routine(&l, None, &mut extra, 0);
        main_routines.push(r);
        main_routines.extend(extra);
    }
    let through_gosub = g.rng.chance(1, 3);
    let d = g.rng.below(3) as u32;
    // (after a wave-9 seed) the module-level routine that holds the call RETURNs from inside its own FOR / SELECT CASE /
    // WHILE nest, behind the call: the procedure may have been left with a GOSUB of its own pending, and the heights
    // this RETURN restores must be those of ITS GOSUB
    let return_inside = through_gosub && d > 0 && g.rng.chance(2, 3);
    if return_inside {
        caller.push(if g.rng.chance(1, 2) { "RETURN".to_owned() } else { "IF C% >= 2 THEN RETURN".to_owned() });
    }
    let wrapped = g.wrap(d, caller);
    if through_gosub {
        // the call itself sits in a module-level routine; the GOSUB to it is issued inside 0..2 constructs
        let l = g.fresh("Mc");
        let ds = g.rng.below(3) as u32;
        let site = g.wrap(ds, vec![format!("GOSUB {}", l), "PRINT \"back\"; C%".to_owned()]);
        lines.extend(site);
        let mut r = vec![format!("{}:", l)];
        r.extend(wrapped);
        r.push("RETURN".to_owned());
        main_routines.push(r);
    } else {
        lines.extend(wrapped);
    }
    // RETURN label from a GOSUB issued inside a loop
    if g.rng.chance(1, 3) {
        let l = g.fresh("Mj");
        let target = g.fresh("Lb");
        let ds = 1 + g.rng.below(2) as u32;
        let site = g.wrap(ds, vec![format!("GOSUB {}", l), "PRINT \"not here\"".to_owned()]);
        lines.extend(site);
        lines.push(format!("{}:", target));
        lines.push("PRINT \"at label\"".to_owned());
        let inner = vec![format!("RETURN {}", target)];
        let dd = g.rng.below(3) as u32;
        let mut r = vec![format!("{}:", l)];
        r.extend(g.wrap(dd, inner));
        r.push("RETURN".to_owned());
        main_routines.push(r);
    }
    lines.push("PRINT \"done\"; C%".to_owned());
    lines.push("END".to_owned());
    for r in main_routines {
        lines.extend(r);
    }
    // the procedure
    let stray_return = g.rng.chance(1, 16);
    if is_function {
        lines.push("FUNCTION F% (N%)".to_owned());
        lines.push("  F% = 7".to_owned());
    } else {
        lines.push("SUB S (N%)".to_owned());
    }
    let mut extra = vec![];
    let l = g.fresh("Rt");
    let d = g.rng.below(4) as u32;
    let site = g.wrap(d, vec![format!("GOSUB {}", l), "D% = D% + 1".to_owned()]);
    lines.extend(site.into_iter().map(|x| format!("  {}", x)));
    if stray_return && through_gosub {
        // only the caller has a GOSUB pending here
        lines.push("  RETURN".to_owned());
    }
    lines.push(format!("  EXIT {}", kw));
    let r = g.routine(&l, Some(kw), &mut extra, 0);
    lines.extend(r.into_iter().map(|x| format!("  {}", x)));
    for r in extra {
        lines.extend(r.into_iter().map(|x| format!("  {}", x)));
    }
    lines.push(format!("END {}", kw));
    lines.join("\n") + "\n"
}

/// Family `faults`: ONE failing expression (division by zero, subscript out of range, overflow) at every
/// expression position of every construct, each construct at the module level, inside a SELECT CASE block, inside a
/// FOR body, inside a GOSUB routine called from a FOR body, inside a function called with an operand pending, and
/// inside FOR + SELECT CASE in such a function; under ON ERROR RESUME NEXT, under a handler ending in RESUME NEXT and
/// under a handler that repairs the cause and ends in RESUME.  Loops repair the cause themselves after two rounds,
/// so every program terminates.  Returns (name of the combination, program).
fn fault_programs() -> Vec<(String, String)> {
    let repair = "Z% = 1 : Z9% = 1 : W% = 1";
    let body = ["C% = C% + 1".to_owned(), format!("IF C% >= 2 THEN {}", repair)];
    let faults: [(&str, &str); 3] = [("div0", "(1 / Z%)"), ("subscript", "A%(Z9%)"), ("overflow", "(W% + W%)")];
    // (position, lines with {E} for the failing expression and {B} for a loop body)
    let constructs: Vec<(&str, Vec<&str>)> = vec![
        ("for-from", vec!["FOR I% = {E} TO 2", "{B}", "NEXT"]),
        ("for-to", vec!["FOR I% = 1 TO {E}", "{B}", "NEXT"]),
        ("for-step", vec!["FOR I% = 1 TO 2 STEP {E}", "{B}", "NEXT"]),
        ("select-selector", vec!["SELECT CASE {E}", "CASE 1", "PRINT \"one\"", "CASE ELSE", "PRINT \"else\"", "END SELECT"]),
        ("case-item", vec!["SELECT CASE 2", "CASE {E}", "PRINT \"a\"", "CASE 2", "PRINT \"b\"", "END SELECT"]),
        ("case-item-second", vec!["SELECT CASE 2", "CASE 7, {E}", "PRINT \"a\"", "CASE ELSE", "PRINT \"b\"", "END SELECT"]),
        ("case-range", vec!["SELECT CASE 2", "CASE 1 TO {E}", "PRINT \"a\"", "CASE ELSE", "PRINT \"b\"", "END SELECT"]),
        ("case-is", vec!["SELECT CASE 2", "CASE IS > {E}", "PRINT \"a\"", "CASE 2", "PRINT \"b\"", "END SELECT"]),
        ("case-block-statement", vec!["SELECT CASE 2", "CASE 2", "V% = 100 + {E}", "PRINT \"b\"", "END SELECT"]),
        ("if-cond", vec!["IF {E} > 0 THEN", "PRINT \"t\"", "ELSE", "PRINT \"f\"", "END IF"]),
        ("elseif-cond", vec!["IF C% > 100 THEN", "PRINT \"t\"", "ELSEIF {E} > 0 THEN", "PRINT \"ei\"", "ELSE", "PRINT \"f\"", "END IF"]),
        ("if-single-line", vec!["IF {E} > 0 THEN PRINT \"t\" ELSE PRINT \"f\""]),
        ("while-cond", vec!["WHILE {E} > 5 OR C% < 2", "{B}", "WEND"]),
        ("do-while-top", vec!["DO WHILE {E} > 5 OR C% < 2", "{B}", "LOOP"]),
        ("do-until-top", vec!["DO UNTIL {E} < 5 AND C% >= 2", "{B}", "LOOP"]),
        ("loop-while-bottom", vec!["DO", "{B}", "LOOP WHILE {E} > 5 OR C% < 2"]),
        ("loop-until-bottom", vec!["DO", "{B}", "LOOP UNTIL {E} < 5 AND C% >= 2"]),
        ("assign-rhs", vec!["V% = 100 + {E}"]),
        ("assign-subscript", vec!["A%({E}) = 5"]),
        ("rhs-subscript", vec!["V% = 100 + A%({E})"]),
        ("print-item", vec!["PRINT 100 + {E}"]),
        ("print-item-second", vec!["PRINT \"x\"; {E}; \"y\""]),
        ("sub-argument", vec!["P {E}"]),
        ("function-argument", vec!["V% = 100 + G%({E})"]),
        ("built-in-argument", vec!["V% = 100 + LEN(STR$({E}))"]),
        ("for-body-statement", vec!["FOR I% = 1 TO 2", "V% = 100 + {E}", "PRINT \"in body\"", "NEXT"]),
    ];
    let contexts = ["top", "in-select", "in-for", "in-gosub-in-for", "in-function", "in-for-select-in-function"];
    let modes = ["resume-next-mode", "handler-resume-next", "handler-repair-resume"];
    let mut out = vec![];
    for (pos, lines) in constructs.iter() {
        for (fname, fexpr) in faults.iter() {
            for ctx in contexts.iter() {
                for mode in modes.iter() {
                    let mut k: Vec<String> = vec![];
                    for l in lines.iter() {
                        if *l == "{B}" {
                            k.extend(body.iter().cloned());
                        } else {
                            k.push(l.replace("{E}", fexpr));
                        }
                    }
                    let ind = |v: Vec<String>| -> Vec<String> { v.into_iter().map(|l| format!("  {}", l)).collect() };
                    let in_select = |v: Vec<String>| -> Vec<String> {
                        let mut r = vec!["SELECT CASE 3".to_owned(), "CASE 3".to_owned()];
                        r.extend(ind(v));
                        r.push("  PRINT \"after, in case\"".to_owned());
                        r.push("CASE ELSE".to_owned());
                        r.push("  PRINT \"e\"".to_owned());
                        r.push("END SELECT".to_owned());
                        r
                    };
                    let in_for = |v: Vec<String>| -> Vec<String> {
                        let mut r = vec!["FOR O% = 1 TO 2".to_owned()];
                        r.extend(ind(v));
                        r.push("  PRINT \"after, in for\"; O%".to_owned());
                        r.push("NEXT".to_owned());
                        r
                    };
                    let mut p: Vec<String> = vec![
                        "DECLARE SUB P (N%)".to_owned(),
                        "DECLARE FUNCTION G% (N%)".to_owned(),
                        "DECLARE FUNCTION F% (N%)".to_owned(),
                        "DIM SHARED Z%, Z9%, W%, C%".to_owned(),
                        "DIM SHARED A%(1 TO 3)".to_owned(),
                        "A%(1) = 1 : A%(2) = 2 : A%(3) = 3".to_owned(),
                        "Z% = 0 : Z9% = 9 : W% = 32000".to_owned(),
                    ];
                    p.push(if *mode == "resume-next-mode" { "ON ERROR RESUME NEXT".to_owned() } else { "ON ERROR GOTO Hh".to_owned() });
                    let mut routines: Vec<String> = vec![];
                    let mut fbody: Vec<String> = vec!["PRINT \"in F\"".to_owned()];
                    match *ctx {
                        "top" => p.extend(k),
                        "in-select" => p.extend(in_select(k)),
                        "in-for" => p.extend(in_for(k)),
                        "in-gosub-in-for" => {
                            p.extend(in_for(vec!["GOSUB Rr".to_owned()]));
                            routines.push("Rr:".to_owned());
                            routines.extend(k);
                            routines.push("PRINT \"after, in routine\"".to_owned());
                            routines.push("RETURN".to_owned());
                        }
                        "in-function" => {
                            p.push("PRINT 100 + F%(2)".to_owned());
                            fbody.extend(k);
                            fbody.push("PRINT \"after, in F\"".to_owned());
                        }
                        _ => {
                            p.extend(in_for(vec!["PRINT 100 + F%(2)".to_owned()]));
                            fbody.extend(in_for(in_select(k)));
                        }
                    }
                    p.push(repair.to_owned());
                    p.push("PRINT \"end\"; C%; V%".to_owned());
                    p.push("END".to_owned());
                    p.extend(routines);
                    match *mode {
                        "handler-resume-next" => {
                            p.push("Hh:".to_owned());
                            p.push("PRINT \"h\"; ERR".to_owned());
                            p.push("RESUME NEXT".to_owned());
                        }
                        "handler-repair-resume" => {
                            p.push("Hh:".to_owned());
                            p.push(repair.to_owned());
                            p.push("RESUME".to_owned());
                        }
                        _ => {}
                    }
                    p.push("SUB P (N%)".to_owned());
                    p.push("  C% = C% + N%".to_owned());
                    p.push("END SUB".to_owned());
                    p.push("FUNCTION G% (N%)".to_owned());
                    p.push("  G% = N% + 1".to_owned());
                    p.push("END FUNCTION".to_owned());
                    p.push("FUNCTION F% (N%)".to_owned());
                    p.push("  F% = 7".to_owned());
                    p.extend(ind(fbody));
                    p.push("END FUNCTION".to_owned());
                    out.push((format!("{}/{}/{}/{}", pos, fname, ctx, mode), p.join("\n") + "\n"));
                }
            }
        }
    }
    out
}

/// Family `writeback-faults`: the write-back of a by-reference actual fails — an element of a dynamic array that the
/// error handler, entered while the callee was interrupted, REDIMmed smaller — at position 1..k of the k = 1..3
/// by-reference actuals of a SUB / FUNCTION call, at the module level / in a FOR body / in a CASE block / in a GOSUB
/// routine called from a FOR body, under three handler modes (RESUME NEXT; the handler switches to ON ERROR RESUME NEXT;
/// the handler REDIMs the array back and RESUMEs: the call statement runs again).  Further calls with by-reference
/// actuals follow.  What the oracle looks at: the by-ref queue at every resume point (exactly base + certificate).
fn writeback_fault_programs() -> Vec<(String, String)> {
    let mut out = vec![];
    let others = ["B%(1)", "V%", "B%(2)"];
    for k in 1..=3usize {
        for f in 1..=k {
            for callee in ["sub", "function"] {
                for ctx in ["top", "in-for", "in-select", "in-gosub-in-for"] {
                    for mode in ["handler-resume-next", "handler-switch-to-next", "handler-repair-resume"] {
                        let params: Vec<String> = (1..=k).map(|i| format!("P{}%", i)).collect();
                        let mut o = others.iter();
                        let actuals: Vec<String> = (1..=k).map(|i| if i == f { "A%(5)".to_owned() } else { (*o.next().unwrap()).to_owned() }).collect();
                        let call_stmt = if callee == "sub" { format!("W {}", actuals.join(", ")) } else { format!("U% = 100 + G%({})", actuals.join(", ")) };
                        let kk: Vec<String> = vec![
                            call_stmt,
                            "PRINT \"after call\"; A%(1); B%(1); B%(2); B%(3); V%; U%".to_owned(),
                            "BN B%(3)".to_owned(),
                            "PRINT \"after BN\"; A%(1); B%(1); B%(2); B%(3); V%; U%".to_owned(),
                            "U% = G1%(V%) + G1%(A%(2))".to_owned(),
                            "PRINT \"after G1\"; A%(1); A%(2); B%(3); V%; U%".to_owned(),
                        ];
                        let ind = |v: Vec<String>| -> Vec<String> { v.into_iter().map(|l| format!("  {}", l)).collect() };
                        let in_for = |v: Vec<String>| -> Vec<String> {
                            let mut r = vec!["FOR O% = 1 TO 2".to_owned()];
                            r.extend(ind(v));
                            r.push("  PRINT \"after, in for\"; O%".to_owned());
                            r.push("NEXT".to_owned());
                            r
                        };
                        let mut p: Vec<String> = vec![
                            format!("DECLARE SUB W ({})", params.join(", ")),
                            format!("DECLARE FUNCTION G% ({})", params.join(", ")),
                            "DECLARE FUNCTION G1% (Q%)".to_owned(),
                            "DECLARE SUB BN (Q%)".to_owned(),
                            "DIM SHARED C%, Z%".to_owned(),
                            "REDIM A%(1 TO 5)".to_owned(),
                            "DIM B%(1 TO 3)".to_owned(),
                            "ON ERROR GOTO Hh".to_owned(),
                        ];
                        let mut routines: Vec<String> = vec![];
                        match ctx {
                            "top" => p.extend(kk),
                            "in-for" => p.extend(in_for(kk)),
                            "in-select" => {
                                p.push("SELECT CASE 3".to_owned());
                                p.push("CASE 3".to_owned());
                                p.extend(ind(kk));
                                p.push("  PRINT \"after, in case\"".to_owned());
                                p.push("CASE ELSE".to_owned());
                                p.push("  PRINT \"e\"".to_owned());
                                p.push("END SELECT".to_owned());
                            }
                            _ => {
                                p.extend(in_for(vec!["GOSUB Rr".to_owned()]));
                                routines.push("Rr:".to_owned());
                                routines.extend(kk);
                                routines.push("PRINT \"after, in routine\"".to_owned());
                                routines.push("RETURN".to_owned());
                            }
                        }
                        p.push("PRINT \"end\"; C%".to_owned());
                        p.push("END".to_owned());
                        p.extend(routines);
                        p.push("Hh:".to_owned());
                        p.push("C% = C% + 1".to_owned());
                        p.push("PRINT \"h\"; ERR; C%".to_owned());
                        p.push("IF C% = 1 THEN REDIM A%(1 TO 2)".to_owned());
                        match mode {
                            "handler-switch-to-next" => p.push("IF C% = 1 THEN ON ERROR RESUME NEXT".to_owned()),
                            "handler-repair-resume" => {
                                p.push("IF C% = 2 THEN".to_owned());
                                p.push("  REDIM A%(1 TO 5)".to_owned());
                                p.push("  RESUME".to_owned());
                                p.push("END IF".to_owned());
                            }
                            _ => {}
                        }
                        p.push("RESUME NEXT".to_owned());
                        for (head, tail, result) in [("SUB W", "END SUB", None), ("FUNCTION G%", "END FUNCTION", Some("  G% = 9"))] {
                            p.push(format!("{} ({})", head, params.join(", ")));
                            for (i, q) in params.iter().enumerate() {
                                p.push(format!("  {} = {} + {}", q, q, i + 1));
                            }
                            if let Some(r) = result {
                                p.push(r.to_owned());
                            }
                            // the error that brings the handler in while the callee is interrupted (only the first
                            // activation: Z% is repaired by the callee itself afterwards)
                            p.push("  T% = 1 / Z%".to_owned());
                            p.push("  Z% = 1".to_owned());
                            p.push(tail.to_owned());
                        }
                        p.push("FUNCTION G1% (Q%)".to_owned());
                        p.push("  Q% = Q% + 10".to_owned());
                        p.push("  G1% = Q%".to_owned());
                        p.push("END FUNCTION".to_owned());
                        p.push("SUB BN (Q%)".to_owned());
                        p.push("  Q% = Q% + 100".to_owned());
                        p.push("END SUB".to_owned());
                        out.push((format!("k{}/f{}/{}/{}/{}", k, f, callee, ctx, mode), p.join("\n") + "\n"));
                    }
                }
            }
        }
    }
    out
}

/// Family `cross-block`: a GOTO that sits inside one FOR body / SELECT CASE block (or a nest of two) and whose label sits
/// inside ANOTHER such block that is not around the jump: every pair of nests x jump first / label first x main module /
/// SUB.  The front end refuses these programs (the header of the label's block has not pushed its register frame / its
/// selector on the path of the jump), so on the unchanged tree they are counted as rejected and that is all.  A changed
/// checker that accepts one of them makes it an ACCEPTED program, and then it is judged like every other accepted
/// program of this check (after a wave-10 seed: block identity degenerated to nesting depth, so that a jump from a FOR
/// body into a CASE block of the same depth was accepted).  Returns (name, program).
fn cross_block_programs() -> Vec<(String, String)> {
    fn wrap(kind: &str, var: &str, inner: &str) -> String {
        match kind {
            "for" => format!("FOR {}% = 1 TO 2\n{}NEXT\n", var, inner),
            "forstep" => format!("FOR {}% = 1 TO 3 STEP 2\n{}NEXT\n", var, inner),
            "case" => format!("SELECT CASE K%\nCASE 1\n{}CASE ELSE\nPRINT \"e\"\nEND SELECT\n", inner),
            "caseelse" => format!("SELECT CASE K%\nCASE 5\nPRINT \"c\"\nCASE ELSE\n{}END SELECT\n", inner),
            _ => unreachable!(),
        }
    }
    let nests: [&[&str]; 8] = [&["for"], &["forstep"], &["case"], &["caseelse"], &["for", "case"], &["case", "for"], &["for", "for"], &["case", "caseelse"]];
    let nest_of = |nest: &[&str], vars: [&str; 2], inner: &str| -> String {
        let mut t = inner.to_owned();
        for (k, b) in nest.iter().enumerate().rev() {
            t = wrap(b, vars[k], &t);
        }
        t
    };
    let mut out = vec![];
    for a in nests.iter() {
        for b in nests.iter() {
            for order in ["jump-first", "label-first"] {
                for ctx in ["main", "sub"] {
                    let stop = if ctx == "main" { "SYSTEM" } else { "EXIT SUB" };
                    let at_label = format!("L:\nPRINT \"in\"; I%; J%\nC% = C% + 1\nIF C% > 4 THEN\nPRINT \"stop\"\n{}\nEND IF\n", stop);
                    let jump = "IF D% = 0 THEN\nD% = 1\nGOTO L\nEND IF\n";
                    let jb = nest_of(a, ["S", "T"], jump);
                    let lb = nest_of(b, ["I", "J"], &at_label);
                    let body = if order == "jump-first" { format!("{}{}", jb, lb) } else { format!("{}{}", lb, jb) };
                    let name = format!("{}/{}/{}/{}", a.join(">"), b.join(">"), order, ctx);
                    let text = if ctx == "main" {
                        format!("' cross-block {}\nK% = 1\n{}PRINT \"after\"\n", name, body)
                    } else {
                        format!("' cross-block {}\nP\nPRINT \"main\"\nSUB P\nK% = 1\n{}PRINT \"after\"\nEND SUB\n", name, body)
                    };
                    out.push((name, text));
                }
            }
        }
    }
    out
}

/// Family `fixed-string-byref` (after a wave-12 seed: the conversion branch of an argument's code popped the variable
/// path a second time, so `PushNamedByRef` found the path stack empty): the one argument shape that is by reference, has
/// subscripts AND needs a conversion — an element of a `STRING * n` array, or a `STRING * n` field of an element of an
/// array of records, passed to a `X$` parameter of a SUB / FUNCTION — at every kind of call position (statement, PRINT
/// item, right-hand side, subscript of an assignment target, argument of another call, condition), inside loops and
/// procedures, with plain controls (scalar `STRING * n`, element of a `$` array).  Returns (name, program).
fn fixed_string_byref_programs() -> Vec<(String, String)> {
    let decls = "TYPE Item\n  Tag AS STRING * 3\n  Qty AS INTEGER\nEND TYPE\nDIM Codes(1 TO 3) AS STRING * 4\nDIM Grid(1 TO 2, 0 TO 1) AS STRING * 2\nDIM Items(1 TO 2) AS Item\nDIM Plain$(1 TO 3)\nDIM One AS STRING * 5\nDIM Slots(0 TO 9) AS INTEGER\n\
                 Codes(1) = \"ab\"\nCodes(2) = \"cdef\"\nGrid(2, 1) = \"z\"\nItems(1).Tag = \"q\"\nItems(2).Tag = \"rst\"\nPlain$(1) = \"pp\"\nOne = \"one\"\nK% = 1\n";
    let procs = "SUB Norm (S$)\n  S$ = UCASE$(RTRIM$(S$)) + \"-\"\nEND SUB\nFUNCTION TagLen% (T$)\n  T$ = RTRIM$(T$)\n  TagLen% = LEN(T$)\nEND FUNCTION\n\
                 SUB Two (A$, B$)\n  A$ = B$ + A$\n  B$ = \"!\"\nEND SUB\nSUB Outer (N%)\n  DIM L(1 TO 2) AS STRING * 3\n  L(N%) = \"x\"\n  Norm L(N%)\n  PRINT \"[\"; L(N%); \"]\"; TagLen%(L(1))\nEND SUB\n";
    let actuals: [(&str, &str); 7] = [
        ("elem", "Codes(K%)"),
        ("elem-const", "Codes(2)"),
        ("elem-2d", "Grid(K% + 1, 1)"),
        ("elem-field", "Items(K%).Tag"),
        ("elem-field-const", "Items(2).Tag"),
        ("control-scalar", "One"),
        ("control-plain-elem", "Plain$(K%)"),
    ];
    let mut out = vec![];
    for (an, a) in actuals {
        let positions: Vec<(&str, String)> = vec![
            ("sub-call", format!("Norm {a}\nPRINT \"[\"; {a}; \"]\"\n")),
            ("call-keyword", format!("CALL Norm({a})\nPRINT \"[\"; {a}; \"]\"\n")),
            ("print-item", format!("PRINT TagLen%({a}); \"[\"; {a}; \"]\"\n")),
            ("rhs", format!("N% = TagLen%({a}) + 1\nPRINT N%\n")),
            ("target-subscript", format!("Slots(TagLen%({a})) = 7\nPRINT Slots(0); Slots(1); Slots(2); Slots(3)\n")),
            ("arg-of-call", format!("PRINT LEN(STR$(TagLen%({a})))\n")),
            ("condition", format!("IF TagLen%({a}) > 0 THEN\nPRINT \"y\"\nELSE\nPRINT \"n\"\nEND IF\n")),
            ("two-args", format!("Two {a}, Codes(1)\nPRINT \"[\"; {a}; \"][\"; Codes(1); \"]\"\n")),
            ("in-for", format!("FOR I% = 1 TO 2\nNorm {a}\nPRINT TagLen%({a})\nNEXT\n")),
            ("in-select", format!("SELECT CASE TagLen%({a})\nCASE 0\nPRINT \"zero\"\nCASE ELSE\nNorm {a}\nPRINT \"[\"; {a}; \"]\"\nEND SELECT\n")),
        ];
        for (pn, body) in positions {
            out.push((format!("{}/{}", an, pn), format!("' fixed-string-byref {}/{}\n{}{}Outer 1\nPRINT \"end\"\n{}", an, pn, decls, body, procs)));
        }
    }
    out
}

fn shape_signature(text: &str) -> String {
    // construct multiset: which statement keywords occur
    let u = text.to_ascii_uppercase();
    let mut s = String::new();
    for k in ["FOR", "STEP", "WHILE", "DO", "SELECT", "IF", "GOSUB", "GOTO", "SUB", "FUNCTION", "ON ERROR", "RESUME", "DIM", "STATIC", "EXIT", "DATA", "OPEN", "PRINT USING", "TYPE"] {
        if u.contains(k) {
            s.push_str(k);
            s.push(',');
        }
    }
    s
}

/// asks the driver to run the global machine on the collected traces and records the verdicts
fn flush_runs(rep: &mut Report, run_reqs: &mut Vec<(String, String)>) {
    let reqs: Vec<String> = run_reqs.iter().map(|(_, r)| r.clone()).collect();
    let answers = ask(&reqs);
    for ((text, _), ans) in run_reqs.iter().zip(answers.iter()) {
        rep.bump("dynamic.marks.programs-run");
        if ans.starts_with("(ok ") {
            let n: u64 = ans.trim_start_matches("(ok ").trim_end_matches(')').parse().unwrap_or(0);
            rep.bump_by("dynamic.marks.instructions-agreeing", n);
        } else if ans.starts_with("(blocked ") {
            // the modelled run ended while the real one went on: legitimate only for the listed events
            let why = ans.trim_end_matches(')').rsplit(' ').next().unwrap_or("").to_owned();
            rep.bump(&format!("dynamic.marks.blocked.{}", why));
            if why != "return-without-gosub-frame" && why != "end-of-modelled-run" {
                rep.fail(Failure {
                    kind: Kind::ImplVsProperty,
                    signature: format!("dynamic:marks-machine-blocked:{}", why),
                    input: text.clone(),
                    implementation: format!("the real VM went on where the machine has no step: {}", ans),
                    expected: "generated code never reaches a stray PushRet, a PopRet without a call frame or an unresolved target".into(),
                    note: String::new(),
                });
            }
        } else {
            let what = ans.trim_start_matches("(differ ").split(' ').nth(1).unwrap_or("?").to_owned();
            rep.fail(Failure {
                kind: if what == "depths" || what == "address-stacks" { Kind::ImplVsProperty } else { Kind::ModelVsImpl },
                signature: format!("dynamic:marks-machine-differs:{}", what),
                input: text.clone(),
                implementation: format!("driver answer {} (observation index, what, the machine's pc, depths, return addresses, GOSUB addresses, return marks, GOSUB marks)", ans.chars().take(300).collect::<String>()),
                expected: "the global machine with recorded heights (Thm/C15Marks.lean) and the real VM agree on pc, the five absolute depths, both address stacks and the recorded heights (return_marks, go_sub_marks) before every executed instruction".into(),
                note: "depths / address-stacks: the real VM does not restore / balance as the machine does; marks: the heights the VM keeps beside its address stacks are not the stored components of the machine's pending frames; otherwise the machine's transcription of the VM is off".into(),
            });
        }
    }
    run_reqs.clear();
}

fn main() {
    std::panic::set_hook(Box::new(|_| {}));
    let mut rng = Rng::from_env();
    let mut rep = Report::new(
        "C15",
        "programs = every string literal of /repo's Rust sources that parses and lints (the repository's own test programs) + \
         fixtures + type-directed random programs (nesting <= 3, subs/functions, GOSUB, forward GOTO, DATA/READ, all loop forms) + \
         position grids + the directed family `marks` (GOSUB routines of procedures and of the module left by RETURN / EXIT SUB / \
         EXIT FUNCTION / RETURN label from inside their own FOR / SELECT CASE / WHILE nests, GOSUBs issued inside such nests, functions \
         called with an operand pending); for each: \
         the real instruction list is checked statically by the proved Lean checkers (wfm.check; wf.check for comparison), the inferred \
         stack-depth certificate is compared with the real VM's five stack depths before every executed instruction, and the global machine \
         with recorded heights (wfm.run) is run along the executed pcs, its absolute depths and both address stacks compared with the real \
         ones before every executed instruction. distinct = distinct program texts; \
         non-trivial = more than 3 instructions.",
    );
    let thorough = rep.is_thorough();
    let work = std::env::var("VERIF_WORK").unwrap_or_else(|_| "/verif/work/C15".to_owned());
    let scratch = format!("{}/scratch", work);
    let _ = std::fs::create_dir_all(&scratch);
    std::env::set_current_dir(&scratch).ok();

    let mut programs: Vec<(String, &'static str)> = vec![];
    for t in corpus::accepted_programs() {
        programs.push((t, "corpus"));
    }
    rep.bump_by("programs.corpus", programs.len() as u64);
    let n_gen = if thorough { 4000 } else { 300 };
    let opts = Opts { on_error: true, ..Opts::default() };
    for k in 0..n_gen {
        let mut o = opts.clone();
        if k % 3 == 0 {
            o.faults = true;
        }
        // labels inside blocks with jumps to them; RESUME label targets outside FOR / SELECT CASE only (see below)
        let (text, feats) = generate_ext(&mut rng, &o, &Ext { block_labels: true, resume_label_in_for_select: false });
        // how many of the generated programs have a label inside a block with a jump to it (after a wave-9 seed)
        let mut any = false;
        for f in feats.iter().filter(|f| f.starts_with("label-in-") || f.starts_with("jump-") || f.starts_with("resume-label-")) {
            rep.bump(&format!("generated.feature.{}", f));
            any = true;
        }
        if any {
            rep.bump("generated.feature.any-block-label");
        }
        programs.push((text, "generated"));
    }
    rep.bump_by("programs.generated", n_gen as u64);
    // the directed family `block-labels` of gen_prog.rs (a label inside a block of every kind, a GOTO / RESUME label to it
    // from the same block, a sibling block or a nested construct); quick: a third of the combinations (which third depends
    // on the seed), thorough: all
    {
        let all = rb_harness::gen_prog::block_label_family();
        let n_all = all.len();
        let offset = (rng.seed() % 3) as usize;
        let mut n = 0u64;
        for (i, (name, t)) in all.into_iter().enumerate() {
            // name = host/layout/nested construct/jump/context.  The checkers take a RESUME label target for the entry
            // of an activation at relative depth zero: a target inside a FOR body or a SELECT CASE block is outside
            // their fragment (the VM cuts the stacks to the label's recorded depths there, 1a4d83d); C08 runs those
            let f: Vec<&str> = name.split('/').collect();
            let in_fragment = f[3] == "goto" || (f[4] == "top" && !matches!(f[0], "case" | "case-else" | "for"));
            if !in_fragment {
                rep.bump("programs.block-labels.skipped.resume-label-target-inside-for-or-select");
                continue;
            }
            if thorough || i % 3 == offset {
                programs.push((t, "block-labels"));
                n += 1;
            }
        }
        rep.bump_by("programs.block-labels", n);
        if thorough {
            rep.exhaustive_parts.push(format!("block-labels: all {} combinations of host block x layout x nested construct x GOTO / RESUME label x context", n_all));
        }
    }
    // family `cross-block`: refused by the front end on the unchanged tree (counted below); judged like any accepted
    // program if a changed front end lets one through
    {
        let all = cross_block_programs();
        rep.bump_by("programs.cross-block", all.len() as u64);
        for (_, t) in all {
            programs.push((t, "cross-block"));
        }
    }
    // family `fixed-string-byref`: all of it in both tiers
    {
        let all = fixed_string_byref_programs();
        rep.bump_by("programs.fixed-string-byref", all.len() as u64);
        for (name, t) in all {
            rep.bump(&format!("fixed-string-byref.actual.{}", name.split('/').next().unwrap_or("?")));
            programs.push((t, "fixed-string-byref"));
        }
    }
    let n_grid = if thorough { 1500 } else { 150 };
    for _ in 0..n_grid {
        programs.push((rb_harness::gen_prog::grid(&mut rng), "grid"));
    }
    rep.bump_by("programs.grid", n_grid as u64);
    let n_marks = if thorough { 3000 } else { 400 };
    for _ in 0..n_marks {
        programs.push((marks_program(&mut rng), "marks"));
    }
    rep.bump_by("programs.marks", n_marks as u64);
    // quick: a third of the combinations (which third depends on the seed); thorough: all of them
    let all_faults = fault_programs();
    let n_all_faults = all_faults.len();
    // (the handler mode is the innermost loop of the family, three values: `i % 3` alone would give a quick run one
    // handler mode only; `i / 3` rotates the choice from combination to combination)
    let offset = (rng.seed() % 3) as usize;
    let mut n_faults = 0u64;
    for (i, (name, t)) in all_faults.into_iter().enumerate() {
        if thorough || (i + i / 3) % 3 == offset {
            rep.bump(&format!("faults.mode.{}", name.rsplit('/').next().unwrap_or("?")));
            programs.push((t, "faults"));
            n_faults += 1;
        }
    }
    rep.bump_by("programs.faults", n_faults);
    if thorough {
        rep.exhaustive_parts.push(format!("faults: all {} combinations of position x fault x context x handler mode", n_all_faults));
    }
    // family `arg-faults` (gen_prog::arg_fault_programs): a fault raised inside an argument list; the programs without a
    // handler end at the fault and have nothing to follow (C08 runs them); quick: a sixth of the rest, rotated so
    // that every slice has every host, fault, context and handler mode
    let all_arg_faults: Vec<(String, String)> = arg_fault_programs().into_iter().filter(|(n, _)| !n.ends_with("/no-handler")).collect();
    let n_all_arg_faults = all_arg_faults.len();
    let offset6 = (rng.seed() % 6) as usize;
    let mut n_arg_faults = 0u64;
    for (i, (name, t)) in all_arg_faults.into_iter().enumerate() {
        // 24 = contexts x handler modes per (host, fault)
        if thorough || (i + i / 24 + i / 4) % 6 == offset6 {
            let mut parts = name.split('/');
            let (host, fault, ctx, mode) = (parts.next().unwrap_or("?"), parts.next().unwrap_or("?"), parts.next().unwrap_or("?"), parts.next().unwrap_or("?"));
            rep.bump(&format!("arg-faults.host.{}", host));
            rep.bump(&format!("arg-faults.fault.{}", fault));
            rep.bump(&format!("arg-faults.context.{}", ctx));
            rep.bump(&format!("arg-faults.mode.{}", mode));
            programs.push((t, "arg-faults"));
            n_arg_faults += 1;
        }
    }
    rep.bump_by("programs.arg-faults", n_arg_faults);
    // family `writeback-faults`: a failing by-reference write-back; quick: a third (every k, position, callee, context
    // and handler mode in every slice), thorough: all
    let all_wb = writeback_fault_programs();
    let n_all_wb = all_wb.len();
    let mut n_wb = 0u64;
    for (i, (name, t)) in all_wb.into_iter().enumerate() {
        if thorough || (i + i / 3 + i / 12) % 3 == offset {
            rep.bump(&format!("writeback-faults.mode.{}", name.rsplit('/').next().unwrap_or("?")));
            rep.bump(&format!("writeback-faults.position.{}", name.split('/').take(2).collect::<Vec<_>>().join("/")));
            programs.push((t, "writeback-faults"));
            n_wb += 1;
        }
    }
    rep.bump_by("programs.writeback-faults", n_wb);
    if thorough {
        rep.exhaustive_parts.push(format!("writeback-faults: all {} combinations of k x failing position x SUB / FUNCTION x context x handler mode", n_all_wb));
    }
    if thorough {
        rep.exhaustive_parts.push(format!("arg-faults: all {} combinations of host x fault x context x handler mode (without the no-handler mode)", n_all_arg_faults));
    }

    // compile everything with the real generator
    let mut compiled = vec![];
    for (text, origin) in &programs {
        let t = text.clone();
        match std::panic::catch_unwind(move || compile(&t)) {
            Ok(Ok((res, udt))) => {
                if *origin == "cross-block" {
                    rep.bump("cross-block.accepted-by-front-end");
                }
                compiled.push((text.clone(), *origin, res, udt))
            }
            Ok(Err(_)) => {
                rep.bump("rejected-by-front-end");
                if *origin == "cross-block" {
                    rep.bump("cross-block.rejected-by-front-end");
                }
                if *origin == "faults" || *origin == "marks" || *origin == "arg-faults" || *origin == "block-labels" || *origin == "writeback-faults" || *origin == "fixed-string-byref" {
                    rep.case(Some(text.clone()));
                    rep.fail(Failure {
                        kind: Kind::ModelVsImpl,
                        signature: format!("family-program-rejected:{}", origin),
                        input: text.clone(),
                        implementation: "rejected by the front end".into(),
                        expected: "every program of the directed families is an accepted program".into(),
                        note: "the family is off".into(),
                    });
                }
            }
            Err(_) => {
                rep.case(Some(text.clone()));
                rep.fail(Failure {
                    kind: Kind::ImplVsProperty,
                    signature: "generator-panic".into(),
                    input: text.clone(),
                    implementation: "panic in parse/lint/generate_instructions".into(),
                    expected: "an instruction list".into(),
                    note: "an accepted program must compile".into(),
                });
            }
        }
    }
    let mut codes: Vec<String> = vec![];
    let mut reqs: Vec<String> = vec![];
    for (_, _, res, _) in compiled.iter() {
        let (code, addrs) = instr_sx::program(res);
        reqs.push(format!("(wfm.check {} {})", code, addrs));
        reqs.push(format!("(wf.check {} {})", code, addrs));
        codes.push(code);
    }
    let both = ask(&reqs);
    let answers: Vec<String> = both.iter().step_by(2).cloned().collect();
    let old_answers: Vec<String> = both.iter().skip(1).step_by(2).cloned().collect();
    drop(both);
    // requests for the global machine (`wfm.run`), flushed in batches
    let mut run_reqs: Vec<(String, String)> = vec![];
    let mut run_bytes = 0usize;
    let names = ["targets-resolved", "labels-unique", "terminators", "branches-local", "statement-addresses", "stack-certificate"];
    for (k, (text, origin, res, udt)) in compiled.into_iter().enumerate() {
        let n_instr = res.instructions.len();
        rep.case(if n_instr > 3 { Some(text.clone()) } else { None });
        rep.bump(&format!("shape.{}", shape_signature(&text)));
        let (flags, strict, reliant, status, cert) = parse_cert_m(&answers[k]);
        if answers[k].starts_with("(bad-op") || old_answers[k].starts_with("(bad-op") {
            rep.fail(Failure {
                kind: Kind::ModelVsImpl,
                signature: "unreadable-instruction-list".into(),
                input: text.clone(),
                implementation: reqs[k].chars().take(400).collect(),
                expected: "the Lean reader understands every instruction the generator emits".into(),
                note: "instruction set of the model and of the code differ".into(),
            });
            continue;
        }
        for (i, ok) in flags.iter().enumerate() {
            if !*ok {
                let detail = if i == 5 { status.clone() } else { String::new() };
                // the kind of failing instruction, for the signature
                let mut sig = format!("static:{}", names[i]);
                if i == 5 {
                    // (fail kind pc)
                    let parts: Vec<&str> = status.trim_matches(|c| c == '(' || c == ')').split(' ').collect();
                    if parts.len() >= 3 {
                        let pc: usize = parts[2].parse().unwrap_or(0);
                        let ins = res.instructions.get(pc).map(|ip| format!("{:?}", ip.element)).unwrap_or_default();
                        let ins_kind: String = ins.chars().take_while(|c| c.is_alphanumeric()).collect();
                        sig = format!("static:stack-certificate:{}:{}", parts[1], ins_kind);
                    }
                }
                rep.fail(Failure {
                    kind: Kind::ImplVsProperty,
                    signature: sig,
                    input: text.clone(),
                    implementation: format!("checker verdict {} {}", answers[k].chars().take(60).collect::<String>(), detail),
                    expected: format!("{} holds for the generated code", names[i]),
                    note: format!("origin={}", origin),
                });
            }
        }
        // EXIT SUB / FUNCTION still pops what its procedure pushed: every PopRet at relative depth zero
        if strict == Some(false) {
            rep.fail(Failure {
                kind: Kind::ImplVsProperty,
                signature: "static:popret-not-at-depth-zero".into(),
                input: text.clone(),
                implementation: "a covered PopRet sits at non-zero certified relative depth".into(),
                expected: "the generator pops the FOR frames and SELECT selectors of the procedure before PopRet".into(),
                note: format!("origin={}", origin),
            });
        }
        if reliant > 0 {
            rep.bump("static.programs-with-return-relying-on-restore");
        }
        // the old checker may differ from the new one in ONE way: it refuses a Return at non-zero relative depth
        {
            let (old_flags, old_status, _) = parse_cert(&old_answers[k]);
            let old_ok = old_flags.get(5).copied().unwrap_or(false);
            let new_ok = flags.get(5).copied().unwrap_or(false);
            let mut explained = old_ok == new_ok;
            if !old_ok && new_ok && reliant > 0 {
                let parts: Vec<&str> = old_status.trim_matches(|c| c == '(' || c == ')').split(' ').collect();
                if parts.len() >= 3 && parts[1] == "unbalanced-exit" {
                    let pc: usize = parts[2].parse().unwrap_or(usize::MAX);
                    if matches!(res.instructions.get(pc).map(|ip| &ip.element), Some(Instruction::Return(_))) {
                        explained = true;
                        rep.bump("static.old-checker-refuses-return-off-depth-zero");
                    }
                }
            }
            if !old_ok && !new_ok {
                explained = true;
            }
            if !explained {
                rep.fail(Failure {
                    kind: Kind::ModelVsImpl,
                    signature: "static:old-and-new-checker-differ".into(),
                    input: text.clone(),
                    implementation: format!("wf.check {} / wfm.check {}", old_status, status),
                    expected: "the two checkers differ only at a Return executed at non-zero relative depth".into(),
                    note: format!("origin={}", origin),
                });
            }
        }
        if k < 2 {
            rep.sample(J::s(text.clone()));
        }
        if origin == "marks" && k % 97 == 0 {
            rep.sample(J::s(text.clone()));
        }
        if status != "ok" || corpus::needs_real_devices(&text) {
            continue;
        }
        // dynamic re-check
        let mut kinds: Vec<u8> = res
            .instructions
            .iter()
            .map(|ip| match ip.element {
                Instruction::PushRet(_) => 1,
                Instruction::PopRet => 2,
                Instruction::GoSub(_) => 3,
                Instruction::Return(_) => 4,
                _ => 0,
            })
            .collect();
        for i in 1..kinds.len() {
            if let (Instruction::PushRet(a), Instruction::Jump(_)) = (&res.instructions[i - 1].element, &res.instructions[i].element) {
                if *a == i + 1 {
                    kinds[i] = 5;
                }
            }
        }
        let snaps: Rc<RefCell<Vec<Snap>>> = Rc::new(RefCell::new(vec![]));
        let return_label: Vec<bool> = res.instructions.iter().map(|ip| matches!(ip.element, Instruction::Return(Some(_)))).collect();
        // what a successful execution of the instruction can be followed by, as far as the instruction alone
        // says (None: depends on the address stacks, see `legit_next`)
        let static_succ: Vec<Option<Vec<usize>>> = res
            .instructions
            .iter()
            .enumerate()
            .map(|(i, ip)| match &ip.element {
                Instruction::Jump(a) => Some(vec![a.address()]),
                Instruction::JumpIfFalse(a) => Some(vec![i + 1, a.address()]),
                Instruction::GoSub(a) => Some(vec![a.address()]),
                Instruction::Return(Some(a)) => Some(vec![a.address()]),
                Instruction::Return(None) | Instruction::PopRet => None,
                Instruction::Halt => Some(vec![]),
                Instruction::Resume | Instruction::ResumeNext | Instruction::ResumeLabel(_) => None,
                _ => Some(vec![i + 1]),
            })
            .collect();
        let resume_kind: Vec<u8> = res
            .instructions
            .iter()
            .map(|ip| match ip.element {
                Instruction::Resume | Instruction::ResumeNext => 1,
                Instruction::ResumeLabel(_) => 2,
                _ => 0,
            })
            .collect();
        let statement_addresses: Vec<usize> = res.statement_addresses.clone();
        let plain_jump: Vec<bool> = res.instructions.iter().map(|ip| matches!(ip.element, Instruction::Jump(_))).collect();
        // a store through a variable path: where a by-reference write-back fails
        let res_kinds_store: Vec<bool> = res.instructions.iter().map(|ip| matches!(ip.element, Instruction::CopyAToVarPath)).collect();
        let snaps2 = snaps.clone();
        let obs = Box::new(move |s: &Snapshot| {
            let mut v = snaps2.borrow_mut();
            if v.len() < 20_000 {
                v.push(Snap {
                    pc: s.pc,
                    d: Depth {
                        v: s.value_stack as i64,
                        r: s.register_stack as i64,
                        c: s.ctx_states.len() as i64,
                        p: s.var_path_stack as i64,
                        b: s.by_ref_stack as i64,
                    },
                    rets: s.return_address_stack.clone(),
                    gosubs: s.go_sub_address_stack.clone(),
                    ret_marks: s.return_marks.clone(),
                    gosub_marks: s.go_sub_marks.clone(),
                    err_code: s.last_error_code,
                    err_addr: s.last_error_address,
                    handler_kind: s.handler_kind,
                    handler_address: s.handler_address,
                    top_collecting: s.ctx_states.last().is_some_and(|st| st.1),
                });
            }
        });
        if let Ok(tp) = std::env::var("VERIF_C15_TRACE") {
            let _ = std::fs::write(&tp, &text);
        }
        let run = std::panic::catch_unwind(std::panic::AssertUnwindSafe(|| {
            run_instructions(res, udt, b"1\n2\n3\n", 20_000, Some(obs), false)
        }));
        if run.is_err() {
            rep.bump("dynamic.vm-panic");
        }
        let trace = snaps.borrow();
        rep.bump_by("dynamic.instructions-observed", trace.len() as u64);
        // activations: a call (PushRet + Jump) or a GOSUB starts a new one whose base is fixed by its
        // first observed instruction; PopRet / RETURN end it.
        // (kind of activation: 0 = main module, 5 = procedure call, 3 = GOSUB, 7 = error handler; its base depths)
        //
        // Error edges are outside the static model, but where execution CONTINUES after a handled error is
        // checked: at the resume point (the next statement under ON ERROR RESUME NEXT, the target of RESUME /
        // RESUME NEXT after a handler) no stack of the interrupted activation may be LOWER than
        // base + certificate (what the continuing code is going to pop must be there: `resume-point-deficit`).
        // A stack may be HIGHER: the VM leaves the operands / variable paths of the abandoned statement where
        // they are (counted as `resume-point-excess`); the activation's base is moved up by the excess and the
        // run must follow the certificate from there on.
        // What an abandoned statement left on a stack that the exit of its activation does not cut back (context,
        // by-ref; variable paths at RETURN) is still there when the caller goes on: the third component of an
        // activation record is the excess accumulated in it, handed down at PopRet / RETURN.
        let zero = Depth { v: 0, r: 0, c: 0, p: 0, b: 0 };
        let mut acts: Vec<(u8, Option<Depth>, Depth)> = vec![(0, None, zero.clone())];
        let hand_down = |acts: &mut Vec<(u8, Option<Depth>, Depth)>, left: Depth| {
            if let Some(top) = acts.last_mut() {
                if let Some(b) = top.1.as_mut() {
                    b.c += left.c;
                    b.p += left.p;
                    b.b += left.b;
                }
                top.2.c += left.c;
                top.2.p += left.p;
                top.2.b += left.b;
            }
        };
        let mut resume_check = false;
        let mut handled_errors = 0u64;
        let is_family_faults = origin == "faults" || origin == "arg-faults" || origin == "writeback-faults";
        let mut subscript_errors = 0u64;
        for (idx, sn) in trace.iter().enumerate() {
            let (pc, d) = (&sn.pc, &sn.d);
            let Some(Some(rel)) = cert.get(*pc) else {
                // a resume point that only an error edge reaches (the `Jump` over a block whose header failed:
                // `loops.rs` for-header, `select_case.rs` selector): a Jump moves no stack, the check is made where it lands
                if resume_check && kinds[*pc] == 0 && plain_jump[*pc] {
                    rep.bump("dynamic.resume-points-on-error-only-jump");
                    continue;
                }
                rep.fail(Failure {
                    kind: Kind::ImplVsProperty,
                    signature: "dynamic:executed-pc-not-covered".into(),
                    input: text.clone(),
                    implementation: format!("pc {} executed but unreachable in the static analysis", pc),
                    expected: "every executed pc is statically reachable".into(),
                    note: String::new(),
                });
                break;
            };
            let base = Depth { v: d.v - rel.v, r: d.r - rel.r, c: d.c - rel.c, p: d.p - rel.p, b: d.b - rel.b };
            let top = &mut acts.last_mut().unwrap().1;
            match top {
                None => *top = Some(base),
                Some(b2) if resume_check => {
                    // the resume point of a handled error
                    let pairs = [("value", base.v - b2.v), ("register", base.r - b2.r), ("context", base.c - b2.c), ("var-path", base.p - b2.p), ("by-ref", base.b - b2.b)];
                    let deficit: Vec<&str> = pairs.iter().filter(|(_, x)| *x < 0).map(|(n, _)| *n).collect();
                    if !deficit.is_empty() {
                        rep.fail(Failure {
                            kind: Kind::ImplVsProperty,
                            signature: format!("dynamic:resume-point-deficit:{}", deficit.join("+")),
                            input: text.clone(),
                            implementation: format!(
                                "execution continues after a handled error at pc {} with depths {:?}; the certificate there is {:?} on activation base {:?}",
                                pc, d, rel, b2
                            ),
                            expected: "where execution continues after a handled error every stack holds at least what the code from there on is certified to find (no later pop of something that is not there / that belongs to an enclosing construct)".into(),
                            note: "a resume point placed before the pops of something the failed statement never pushed".into(),
                        });
                        break;
                    }
                    // The context stack (`Context.states`: one state per running procedure / built-in, one per call whose
                    // arguments are being collected) is the VM's argument stack.  Unlike the operands and variable paths
                    // of an abandoned statement, the states of the abandoned call(s) are dropped by the clean-up after a
                    // handled error (`abandon_failed_call`, `push_error_handler_context`): where execution continues the
                    // count must be exactly base + certificate, and the state on top must be the running activation's own
                    // (normal) state, not an argument-collecting one.  A state left behind is popped by the wrong party:
                    // the procedure's `PopStack`, or nobody (the stack then grows with the iteration count).
                    if base.c - b2.c > 0 || sn.top_collecting {
                        rep.fail(Failure {
                            kind: Kind::ImplVsProperty,
                            signature: (if sn.top_collecting { "dynamic:resume-point-argument-state-left" } else { "dynamic:resume-point-excess:context" }).into(),
                            input: text.clone(),
                            implementation: format!(
                                "execution continues after a handled error at pc {} with depths {:?} (top context state collecting arguments: {}); the certificate there is {:?} on activation base {:?}",
                                pc, d, sn.top_collecting, rel, b2
                            ),
                            expected: "where execution continues after a handled error the context (argument) stack holds exactly what the activation had before the failed statement: the argument-collecting states of the abandoned calls are gone".into(),
                            note: "whatever a statement pushes on the argument stack is popped again, also when the statement is abandoned at a handled error".into(),
                        });
                        break;
                    }
                    // The by-ref queue is filled and drained by the epilogue of ONE call (Enqueue* .. PopStack ..
                    // (Dequeue .. store)*): outside an epilogue it is empty, and when a store of the epilogue fails the
                    // entries still waiting are dropped with the abandoned statement (`abandon_failed_call`).  Where
                    // execution continues the length must be exactly base + certificate: an entry left behind is
                    // dequeued by the NEXT call, whose own results then arrive one call late.
                    if base.b - b2.b > 0 {
                        rep.fail(Failure {
                            kind: Kind::ImplVsProperty,
                            signature: "dynamic:resume-point-excess:by-ref".into(),
                            input: text.clone(),
                            implementation: format!(
                                "execution continues after a handled error at pc {} with depths {:?}; the certificate there is {:?} on activation base {:?}",
                                pc, d, rel, b2
                            ),
                            expected: "where execution continues after a handled error the by-ref queue holds exactly what the activation had before the failed statement: the results of the abandoned call that were still waiting to be written back are gone".into(),
                            note: "whatever a statement pushes on the by-ref queue is popped again, also when the statement is abandoned at a handled error".into(),
                        });
                        break;
                    }
                    for (n, x) in pairs.iter() {
                        if *x > 0 {
                            rep.bump(&format!("dynamic.resume-point-excess.{}", n));
                        }
                    }
                    rep.bump("dynamic.resume-points-checked");
                    let grown = Depth { v: base.v - b2.v, r: base.r - b2.r, c: base.c - b2.c, p: base.p - b2.p, b: base.b - b2.b };
                    *b2 = base;
                    let ex = &mut acts.last_mut().unwrap().2;
                    ex.v += grown.v;
                    ex.r += grown.r;
                    ex.c += grown.c;
                    ex.p += grown.p;
                    ex.b += grown.b;
                }
                Some(b2) => {
                    if *b2 != base {
                        rep.fail(Failure {
                            kind: Kind::ImplVsProperty,
                            signature: (if handled_errors > 0 { "dynamic:depth-differs-from-certificate:after-handled-error" } else { "dynamic:depth-differs-from-certificate" }).into(),
                            input: text.clone(),
                            implementation: format!("at pc {} depths {:?}, certificate {:?}, activation base {:?}", pc, d, rel, b2),
                            expected: "depth = activation base + certified relative depth".into(),
                            note: "the real VM's stack depths do not follow the statically certified shape".into(),
                        });
                        break;
                    }
                }
            }
            resume_check = false;
            let Some(next) = trace.get(idx + 1) else { break };
            // did this instruction fail (a handled error: the run goes on)?
            let legit_next: Vec<usize> = match &static_succ[*pc] {
                Some(v) => v.clone(),
                None => match kinds[*pc] {
                    2 => sn.rets.last().map(|a| vec![*a]).unwrap_or_default(),
                    4 => sn.gosubs.last().map(|a| vec![*a + 1]).unwrap_or_default(),
                    _ => vec![next.pc], // Resume*: anywhere
                },
            };
            let new_error_state = next.err_code.is_some() && (next.err_code != sn.err_code || next.err_addr != sn.err_addr);
            let mut failed = resume_kind[*pc] == 0 && (!legit_next.contains(&next.pc) || new_error_state);
            if !failed && resume_kind[*pc] == 0 && sn.handler_kind != 0 && next.err() && kinds[*pc] == 0 {
                // the remaining case: an error of the same code as the one before, going to where a successful step
                // goes as well (the failing instruction is the last one of its statement).  Told apart by the depths:
                // a successful step follows the certificate
                let lands_on_statement = statement_addresses.binary_search(&next.pc).is_ok() || (sn.handler_kind == 2 && next.pc == sn.handler_address);
                if lands_on_statement {
                    if let (Some(Some(rel2)), Some(b2)) = (cert.get(next.pc), acts.last().unwrap().1.as_ref()) {
                        let nb = Depth { v: next.d.v - rel2.v, r: next.d.r - rel2.r, c: next.d.c - rel2.c, p: next.d.p - rel2.p, b: next.d.b - rel2.b };
                        if nb != *b2 {
                            failed = true;
                        }
                    }
                }
            }
            if failed {
                handled_errors += 1;
                if next.err_code == Some(9) && matches!(res_kinds_store.get(*pc), Some(true)) {
                    subscript_errors += 1;
                }
                if sn.handler_kind == 2 && next.pc == sn.handler_address {
                    acts.push((7, None, zero.clone())); // the handler runs on top of the interrupted activation
                } else if sn.handler_kind == 1 {
                    resume_check = true; // ON ERROR RESUME NEXT: the next statement of the same activation
                } else {
                    break; // not a handled error after all (the run ends / something unexpected)
                }
                continue;
            }
            if resume_kind[*pc] == 1 {
                // RESUME / RESUME NEXT: back in the interrupted activation
                if acts.len() > 1 && acts.last().unwrap().0 == 7 {
                    acts.pop();
                    resume_check = true;
                    continue;
                }
                break;
            }
            if resume_kind[*pc] == 2 {
                break; // RESUME label unwinds to the module level: not followed here
            }
            match kinds[*pc] {
                5 => acts.push((5, None, zero.clone())), // call
                3 => acts.push((3, None, zero.clone())), // gosub
                2 => {
                    // PopRet leaves the procedure, and with it every GOSUB routine still active inside it
                    // (EXIT SUB in a GOSUB routine): the caller must find its depths as they were at the call
                    // (PopRet cuts the value, register and variable-path stacks back; not context and by-ref)
                    let mut left = zero.clone();
                    while acts.len() > 1 && acts.last().unwrap().0 == 3 {
                        let a = acts.pop().unwrap();
                        left.c += a.2.c;
                        left.b += a.2.b;
                    }
                    if acts.len() > 1 && acts.last().unwrap().0 == 5 {
                        let a = acts.pop().unwrap();
                        left.c += a.2.c;
                        left.b += a.2.b;
                        hand_down(&mut acts, left);
                    } else {
                        break;
                    }
                }
                4 => {
                    if acts.len() > 1 && acts.last().unwrap().0 == 3 {
                        // (RETURN cuts the value and register stacks back; not variable paths, context, by-ref)
                        let a = acts.pop().unwrap();
                        hand_down(&mut acts, Depth { v: 0, r: 0, c: a.2.c, p: a.2.p, b: a.2.b });
                        // RETURN label: the activation that issued the GOSUB is replaced by a new one at the label,
                        // entered with the depths the VM restored (its base is fixed by the next observation)
                        if return_label[*pc] {
                            acts.last_mut().unwrap().1 = None;
                        }
                    } else {
                        break; // RETURN without GOSUB in this activation (a run-time error, or a RETURN to a caller's GOSUB)
                    }
                }
                _ => {}
            }
        }
        if handled_errors > 0 {
            rep.bump("dynamic.programs-followed-across-handled-errors");
            rep.bump_by("dynamic.handled-errors-followed", handled_errors);
        }
        if is_family_faults {
            if handled_errors == 0 {
                rep.fail(Failure {
                    kind: Kind::ModelVsImpl,
                    signature: "dynamic:faults-family-program-without-handled-error".into(),
                    input: text.clone(),
                    implementation: "no handled error was observed".into(),
                    expected: "every program of the family raises (and handles) at least one run-time error".into(),
                    note: "the family or the detection of error edges is off".into(),
                });
            }
        }
        if origin == "writeback-faults" && subscript_errors == 0 {
            rep.fail(Failure {
                kind: Kind::ModelVsImpl,
                signature: "dynamic:writeback-faults-program-without-failed-store".into(),
                input: text.clone(),
                implementation: "no store through a variable path was seen to fail with Subscript out of range".into(),
                expected: "every program of the family has a by-reference write-back that fails".into(),
                note: "the family is off".into(),
            });
        }
        if subscript_errors > 0 {
            rep.bump("dynamic.programs-with-failed-store-through-a-path");
        }
        // (any origin: a panic of the VM after an error was handled is a pop of something that is not there / not the
        // popping party's — `value_stack underflow!`, `Expected normal state`)
        if run.is_err() && (is_family_faults || handled_errors > 0) {
            rep.fail(Failure {
                kind: Kind::ImplVsProperty,
                signature: "dynamic:vm-panic-after-handled-error".into(),
                input: text.clone(),
                implementation: "the VM panicked (e.g. `value_stack underflow!`, `Expected normal state`)".into(),
                expected: "no instruction after a handled error underflows a stack or pops a state of another kind".into(),
                note: format!("origin={}", origin),
            });
        }
        if origin == "block-labels" && run.is_err() {
            // RESUME label is not followed by the depth oracle above: what it restores shows when the run goes on
            rep.fail(Failure {
                kind: Kind::ImplVsProperty,
                signature: "dynamic:vm-panic-in-block-labels-program".into(),
                input: text.clone(),
                implementation: "the VM panicked (e.g. `value_stack underflow!`)".into(),
                expected: "no instruction of a run that jumps (GOTO / RESUME label) to a label inside a block underflows a stack".into(),
                note: String::new(),
            });
        }
        rep.bump("dynamic.programs-traced");
        // the global machine of Thm/C15Marks.lean on the same observations (up to the first handled error)
        let mut req = format!("(wfm.run {}", codes[k]);
        let mut n_obs = 0u64;
        for sn in trace.iter() {
            if sn.err() {
                break;
            }
            let (pc, d, rets, gosubs) = (&sn.pc, &sn.d, &sn.rets, &sn.gosubs);
            let list = |v: &Vec<usize>| v.iter().rev().map(|x| x.to_string()).collect::<Vec<_>>().join(" ");
            let rm = sn.ret_marks.iter().rev().map(|m| format!("({} {} {} {})", m.0, m.1, m.2, m.3)).collect::<Vec<_>>().join(" ");
            let gm = sn.gosub_marks.iter().rev().map(|m| format!("({} {})", m.0, m.1)).collect::<Vec<_>>().join(" ");
            req.push_str(&format!(" ({} {} {} {} {} {} ({}) ({}) ({}) ({}))", pc, d.v, d.r, d.c, d.p, d.b, list(rets), list(gosubs), rm, gm));
            n_obs += 1;
        }
        req.push(')');
        rep.bump_by("dynamic.marks.observations-sent", n_obs);
        run_bytes += req.len();
        run_reqs.push((text.clone(), req));
        if run_bytes > 24_000_000 {
            flush_runs(&mut rep, &mut run_reqs);
            run_bytes = 0;
        }
    }
    flush_runs(&mut rep, &mut run_reqs);
    rep.finish();
}
