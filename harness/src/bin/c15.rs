//! C15 — generated code is well-formed. For every accepted program (the repository's own test
//! programs and fixtures + generated ones) the REAL instruction list is serialised and checked by
//! the Lean checker `RbModel.Wf` (proved sound in Thm/C15.lean); the inferred stack-shape
//! certificate is then re-checked dynamically against the real VM's stack depths at every
//! executed instruction (per-instruction hook).

use std::cell::RefCell;
use std::rc::Rc;

use rb_harness::corpus;
use rb_harness::driver::ask;
use rb_harness::gen_prog::{generate, Opts};
use rb_harness::instr_sx;
use rb_harness::json::J;
use rb_harness::report::{Failure, Kind, Report};
use rb_harness::rng::Rng;
use rusty_basic::instruction_generator::Instruction;
use rusty_basic::interpreter::verif::{compile, run_instructions, Snapshot};

#[derive(Clone, Debug, PartialEq)]
struct Depth {
    v: i64,
    r: i64,
    c: i64,
    p: i64,
    b: i64,
}

fn parse_cert(ans: &str) -> (Vec<bool>, String, Vec<Option<Depth>>) {
    // (wf t t t t t t ok (<h>|- ...))  or  (wf ... f (fail kind pc) ())
    let inner = ans.trim().trim_start_matches("(wf ").trim_end_matches(')');
    let mut it = inner.splitn(7, ' ');
    let flags: Vec<bool> = (0..6).map(|_| it.next().unwrap_or("f") == "t").collect();
    let rest = it.next().unwrap_or("");
    if rest.starts_with("ok ") {
        let body = rest[3..].trim();
        let body = body.strip_prefix('(').unwrap_or(body);
        let mut cert = vec![];
        let mut chars = body.chars().peekable();
        while let Some(&ch) = chars.peek() {
            if ch == '-' {
                cert.push(None);
                chars.next();
            } else if ch == '(' {
                chars.next();
                let mut tok = String::new();
                for c2 in chars.by_ref() {
                    if c2 == ')' {
                        break;
                    }
                    tok.push(c2);
                }
                let n: Vec<i64> = tok.split_whitespace().filter_map(|x| x.parse().ok()).collect();
                cert.push(Some(Depth { v: n[0], r: n[1], c: n[2], p: n[3], b: n[4] }));
            } else {
                chars.next();
            }
        }
        (flags, "ok".to_owned(), cert)
    } else {
        let status = rest.split(") ").next().unwrap_or(rest).to_owned() + ")";
        (flags, status, vec![])
    }
}

fn shape_signature(text: &str) -> String {
    // construct multiset: which statement keywords occur
    let u = text.to_ascii_uppercase();
    let mut s = String::new();
    for k in ["FOR", "STEP", "WHILE", "DO", "SELECT", "IF", "GOSUB", "GOTO", "SUB", "FUNCTION", "ON ERROR", "RESUME", "DIM", "STATIC", "EXIT", "DATA", "OPEN", "PRINT USING", "TYPE"] {
        if u.contains(k) {
            s.push_str(k);
            s.push(',');
        }
    }
    s
}

fn main() {
    std::panic::set_hook(Box::new(|_| {}));
    let mut rng = Rng::from_env();
    let mut rep = Report::new(
        "C15",
        "programs = every string literal of /repo's Rust sources that parses and lints (the repository's own test programs) + \
         fixtures + type-directed random programs (nesting <= 3, subs/functions, GOSUB, forward GOTO, DATA/READ, all loop forms); for each: \
         the real instruction list is checked statically by the proved Lean checker, then the inferred stack-depth certificate is \
         compared with the real VM's five stack depths before every executed instruction. distinct = distinct program texts; \
         non-trivial = more than 3 instructions.",
    );
    let thorough = rep.is_thorough();
    let work = std::env::var("VERIF_WORK").unwrap_or_else(|_| "/verif/work/C15".to_owned());
    let scratch = format!("{}/scratch", work);
    let _ = std::fs::create_dir_all(&scratch);
    std::env::set_current_dir(&scratch).ok();

    let mut programs: Vec<(String, &'static str)> = vec![];
    for t in corpus::accepted_programs() {
        programs.push((t, "corpus"));
    }
    rep.bump_by("programs.corpus", programs.len() as u64);
    let n_gen = if thorough { 4000 } else { 300 };
    let opts = Opts { on_error: true, ..Opts::default() };
    for k in 0..n_gen {
        let mut o = opts.clone();
        if k % 3 == 0 {
            o.faults = true;
        }
        let (text, _feats) = generate(&mut rng, &o);
        programs.push((text, "generated"));
    }
    rep.bump_by("programs.generated", n_gen as u64);
    let n_grid = if thorough { 1500 } else { 150 };
    for _ in 0..n_grid {
        programs.push((rb_harness::gen_prog::grid(&mut rng), "grid"));
    }
    rep.bump_by("programs.grid", n_grid as u64);

    // compile everything with the real generator
    let mut compiled = vec![];
    for (text, origin) in &programs {
        let t = text.clone();
        match std::panic::catch_unwind(move || compile(&t)) {
            Ok(Ok((res, udt))) => compiled.push((text.clone(), *origin, res, udt)),
            Ok(Err(_)) => {
                rep.bump("rejected-by-front-end");
            }
            Err(_) => {
                rep.case(Some(text.clone()));
                rep.fail(Failure {
                    kind: Kind::ImplVsProperty,
                    signature: "generator-panic".into(),
                    input: text.clone(),
                    implementation: "panic in parse/lint/generate_instructions".into(),
                    expected: "an instruction list".into(),
                    note: "an accepted program must compile".into(),
                });
            }
        }
    }
    let reqs: Vec<String> = compiled
        .iter()
        .map(|(_, _, res, _)| {
            let (code, addrs) = instr_sx::program(res);
            format!("(wf.check {} {})", code, addrs)
        })
        .collect();
    let answers = ask(&reqs);
    let names = ["targets-resolved", "labels-unique", "terminators", "branches-local", "statement-addresses", "stack-certificate"];
    for (k, (text, origin, res, udt)) in compiled.into_iter().enumerate() {
        let n_instr = res.instructions.len();
        rep.case(if n_instr > 3 { Some(text.clone()) } else { None });
        rep.bump(&format!("shape.{}", shape_signature(&text)));
        let (flags, status, cert) = parse_cert(&answers[k]);
        if answers[k].starts_with("(bad-op") {
            rep.fail(Failure {
                kind: Kind::ModelVsImpl,
                signature: "unreadable-instruction-list".into(),
                input: text.clone(),
                implementation: reqs[k].chars().take(400).collect(),
                expected: "the Lean reader understands every instruction the generator emits".into(),
                note: "instruction set of the model and of the code differ".into(),
            });
            continue;
        }
        for (i, ok) in flags.iter().enumerate() {
            if !*ok {
                let detail = if i == 5 { status.clone() } else { String::new() };
                // the kind of failing instruction, for the signature
                let mut sig = format!("static:{}", names[i]);
                if i == 5 {
                    // (fail kind pc)
                    let parts: Vec<&str> = status.trim_matches(|c| c == '(' || c == ')').split(' ').collect();
                    if parts.len() >= 3 {
                        let pc: usize = parts[2].parse().unwrap_or(0);
                        let ins = res.instructions.get(pc).map(|ip| format!("{:?}", ip.element)).unwrap_or_default();
                        let ins_kind: String = ins.chars().take_while(|c| c.is_alphanumeric()).collect();
                        sig = format!("static:stack-certificate:{}:{}", parts[1], ins_kind);
                    }
                }
                rep.fail(Failure {
                    kind: Kind::ImplVsProperty,
                    signature: sig,
                    input: text.clone(),
                    implementation: format!("checker verdict {} {}", answers[k].chars().take(60).collect::<String>(), detail),
                    expected: format!("{} holds for the generated code", names[i]),
                    note: format!("origin={}", origin),
                });
            }
        }
        if k < 2 {
            rep.sample(J::s(text.clone()));
        }
        if status != "ok" || corpus::needs_real_devices(&text) {
            continue;
        }
        // dynamic re-check
        let mut kinds: Vec<u8> = res
            .instructions
            .iter()
            .map(|ip| match ip.element {
                Instruction::PushRet(_) => 1,
                Instruction::PopRet => 2,
                Instruction::GoSub(_) => 3,
                Instruction::Return(_) => 4,
                _ => 0,
            })
            .collect();
        for i in 1..kinds.len() {
            if let (Instruction::PushRet(a), Instruction::Jump(_)) = (&res.instructions[i - 1].element, &res.instructions[i].element) {
                if *a == i + 1 {
                    kinds[i] = 5;
                }
            }
        }
        let snaps: Rc<RefCell<Vec<(usize, Depth, usize, usize, bool)>>> = Rc::new(RefCell::new(vec![]));
        let snaps2 = snaps.clone();
        let obs = Box::new(move |s: &Snapshot| {
            let mut v = snaps2.borrow_mut();
            if v.len() < 20_000 {
                v.push((
                    s.pc,
                    Depth {
                        v: s.value_stack as i64,
                        r: s.register_stack as i64,
                        c: s.ctx_states.len() as i64,
                        p: s.var_path_stack as i64,
                        b: s.by_ref_stack as i64,
                    },
                    s.return_address_stack.len(),
                    s.go_sub_address_stack.len(),
                    s.last_error_address.is_some() || s.last_error_code.is_some(),
                ));
            }
        });
        if let Ok(tp) = std::env::var("VERIF_C15_TRACE") {
            let _ = std::fs::write(&tp, &text);
        }
        let run = std::panic::catch_unwind(std::panic::AssertUnwindSafe(|| {
            run_instructions(res, udt, b"1\n2\n3\n", 20_000, Some(obs), false)
        }));
        if run.is_err() {
            rep.bump("dynamic.vm-panic");
        }
        let trace = snaps.borrow();
        rep.bump_by("dynamic.instructions-observed", trace.len() as u64);
        // activations: a call (PushRet + Jump) or a GOSUB starts a new one whose base is fixed by its
        // first observed instruction; PopRet / RETURN end it. Error edges are outside the static model:
        // tracing stops at the first handled error.
        // (kind of activation: 0 = main module, 5 = procedure call, 3 = GOSUB; its base depths)
        let mut acts: Vec<(u8, Option<Depth>)> = vec![(0, None)];
        for (pc, d, _rd, _gd, err) in trace.iter() {
            if *err {
                break;
            }
            let Some(Some(rel)) = cert.get(*pc) else {
                rep.fail(Failure {
                    kind: Kind::ImplVsProperty,
                    signature: "dynamic:executed-pc-not-covered".into(),
                    input: text.clone(),
                    implementation: format!("pc {} executed but unreachable in the static analysis", pc),
                    expected: "every executed pc is statically reachable".into(),
                    note: String::new(),
                });
                break;
            };
            let base = Depth { v: d.v - rel.v, r: d.r - rel.r, c: d.c - rel.c, p: d.p - rel.p, b: d.b - rel.b };
            let top = &mut acts.last_mut().unwrap().1;
            match top {
                None => *top = Some(base),
                Some(b2) => {
                    if *b2 != base {
                        rep.fail(Failure {
                            kind: Kind::ImplVsProperty,
                            signature: "dynamic:depth-differs-from-certificate".into(),
                            input: text.clone(),
                            implementation: format!("at pc {} depths {:?}, certificate {:?}, activation base {:?}", pc, d, rel, b2),
                            expected: "depth = activation base + certified relative depth".into(),
                            note: "the real VM's stack depths do not follow the statically certified shape".into(),
                        });
                        break;
                    }
                }
            }
            match kinds[*pc] {
                5 => acts.push((5, None)), // call
                3 => acts.push((3, None)), // gosub
                2 => {
                    // PopRet leaves the procedure, and with it every GOSUB routine still active inside it
                    // (EXIT SUB in a GOSUB routine): the caller must find its depths as they were at the call
                    while acts.len() > 1 && acts.last().unwrap().0 == 3 {
                        acts.pop();
                    }
                    if acts.len() > 1 {
                        acts.pop();
                    } else {
                        break;
                    }
                }
                4 => {
                    if acts.len() > 1 && acts.last().unwrap().0 == 3 {
                        acts.pop();
                    } else {
                        break; // RETURN without GOSUB in this activation (a run-time error, or a RETURN to a caller's GOSUB)
                    }
                }
                _ => {}
            }
        }
        rep.bump("dynamic.programs-traced");
    }
    rep.finish();
}
