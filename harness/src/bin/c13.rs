//! C13 — name resolution: the real linter (+ interpreter) vs the Lean model `RbModel.Names`.
//!
//! A *script* is a small program over (mostly) one base name: DEFtype statements, DIM [SHARED] / CONST /
//! assignment / PRINT of bare, suffixed and `AS type` spellings, in the main module and inside SUB/FUNCTION
//! implementations with parameters.  The script is rendered as BASIC text for the real code and as an
//! S-expression for the model.  Compared per script:
//!   * the verdict: accepted, or the `LintError` variant;
//!   * for accepted scripts the resolved `Name` / literal / function call of every assignment and PRINT in the
//!     linted tree;
//!   * for accepted scripts the output of the in-memory run: the model predicts, for every PRINT, which assignment
//!     (or argument, constant, default) the printed value comes from and the type it was stored in — two spellings
//!     alias iff the model resolves them to the same variable, and the value shows the type (10n.25 prints as 10n
//!     in an INTEGER/LONG, as 10n.25 in a SINGLE/DOUBLE; strings vs numbers).
//! Independent property oracles (no model involved) check the documented rules directly on the real code:
//!   * fixed rule programs (`property_oracles`), the DEFtype table, `CaseInsensitiveString` on names of up to 40
//!     characters;
//!   * the default type of a bare name *at its position* (`deftype_position_family`): 0-3 DEFtype statements anywhere
//!     among the top-level items, bare and suffixed spellings before / between / after them and inside SUBs; the
//!     prescribed verdict and output come from a textual rule (`default_type_at`) and a store keyed by
//!     (activation, name, type), the observation is the whole-text parse + lint + run (values that print
//!     differently in each of the five types);
//!   * letter case (`case_family`): one fragment per kind of identifier (variable, string variable, array, SUB,
//!     FUNCTION, parameters, labels, TYPE, field, CONST, SHARED, AS-type variable) with names of 1..40 characters,
//!     every occurrence re-cased; the output must be the fixed one (= that of the uniformly spelt text).
//! Failures of these are shrunk (lines / fragments / occurrences / single letters) before they are reported.

use rb_harness::driver::ask;
use rb_harness::json::J;
use rb_harness::report::{Failure, Kind, Report};
use rb_harness::rng::Rng;
use rusty_basic::instruction_generator::{generate_instructions, unwrap_linter_context};
use rusty_basic::interpreter::verif::run_instructions;
use rusty_common::{CaseInsensitiveString, Position, Positioned};
use std::collections::HashMap;
use rusty_linter::core::{TypeResolver, TypeResolverImpl};
use rusty_parser::{
    AsBareName, Expression, ExpressionType, GlobalStatement, Name, PrintArg, Program, Statement, TypeQualifier,
};

// ------------------------------------------------------------------------------------------------
// script language (mirror of RbModel.Names)
// ------------------------------------------------------------------------------------------------

#[derive(Clone, Copy, PartialEq, Eq, Debug, Hash)]
enum Q {
    Int,
    Lng,
    Sng,
    Dbl,
    Str,
}
const ALLQ: [Q; 5] = [Q::Int, Q::Lng, Q::Sng, Q::Dbl, Q::Str];

impl Q {
    fn sfx(self) -> &'static str {
        match self {
            Q::Int => "%",
            Q::Lng => "&",
            Q::Sng => "!",
            Q::Dbl => "#",
            Q::Str => "$",
        }
    }
    fn type_name(self) -> &'static str {
        match self {
            Q::Int => "INTEGER",
            Q::Lng => "LONG",
            Q::Sng => "SINGLE",
            Q::Dbl => "DOUBLE",
            Q::Str => "STRING",
        }
    }
    fn def_kw(self) -> &'static str {
        match self {
            Q::Int => "DEFINT",
            Q::Lng => "DEFLNG",
            Q::Sng => "DEFSNG",
            Q::Dbl => "DEFDBL",
            Q::Str => "DEFSTR",
        }
    }
    fn from_real(q: TypeQualifier) -> Q {
        match q {
            TypeQualifier::PercentInteger => Q::Int,
            TypeQualifier::AmpersandLong => Q::Lng,
            TypeQualifier::BangSingle => Q::Sng,
            TypeQualifier::HashDouble => Q::Dbl,
            TypeQualifier::DollarString => Q::Str,
        }
    }
    fn from_sfx(s: &str) -> Q {
        match s {
            "%" => Q::Int,
            "&" => Q::Lng,
            "!" => Q::Sng,
            "#" => Q::Dbl,
            "$" => Q::Str,
            _ => panic!("bad qualifier {}", s),
        }
    }
}

#[derive(Clone, PartialEq, Eq, Debug, Hash)]
struct NameRef {
    name: String,
    sfx: Option<Q>,
}

#[derive(Clone, Copy, PartialEq, Eq, Debug, Hash)]
enum Decl {
    Bare,
    Compact(Q),
    Extended(Q),
}

#[derive(Clone, Copy, PartialEq, Eq, Debug, Hash)]
enum Lit {
    Int,
    Lng,
    Sng,
    Dbl,
    Str,
}

#[derive(Clone, PartialEq, Eq, Debug, Hash)]
enum Stmt {
    Dim(bool, String, Decl),
    Const(NameRef, Lit),
    Assign(NameRef, bool, u32),
    Print(NameRef),
    CallSub(String, Vec<bool>),
    PrintCall(NameRef, Vec<bool>),
}

#[derive(Clone, PartialEq, Eq, Debug, Hash)]
enum Item {
    Def(Q, Vec<(u8, u8)>),
    S(Stmt),
    Sub(String, Vec<(String, Decl)>, Vec<Stmt>),
    Func(NameRef, Vec<(String, Decl)>, Vec<Stmt>),
}

fn sx_ident(s: &str) -> String {
    rb_harness::sx::bytes(s.as_bytes())
}
fn sx_sfx(s: Option<Q>) -> &'static str {
    s.map(|q| q.sfx()).unwrap_or("-")
}
fn sx_nameref(n: &NameRef) -> String {
    format!("({} {})", sx_ident(&n.name), sx_sfx(n.sfx))
}
fn sx_decl(d: Decl) -> String {
    match d {
        Decl::Bare => "b".into(),
        Decl::Compact(q) => format!("(c {})", q.sfx()),
        Decl::Extended(q) => format!("(e {})", q.sfx()),
    }
}
fn sx_lit(l: Lit) -> &'static str {
    match l {
        Lit::Int => "i",
        Lit::Lng => "l",
        Lit::Sng => "s",
        Lit::Dbl => "d",
        Lit::Str => "t",
    }
}
fn sx_bools(b: &[bool]) -> String {
    rb_harness::sx::bools(b.iter().copied())
}
fn sx_stmt(s: &Stmt) -> String {
    match s {
        Stmt::Dim(sh, n, d) => format!("(dim {} {} {})", if *sh { "t" } else { "f" }, sx_ident(n), sx_decl(*d)),
        Stmt::Const(n, l) => format!("(const {} {})", sx_nameref(n), sx_lit(*l)),
        Stmt::Assign(n, b, t) => format!("(asg {} {} {})", sx_nameref(n), if *b { "t" } else { "f" }, t),
        Stmt::Print(n) => format!("(pr {})", sx_nameref(n)),
        Stmt::CallSub(n, a) => format!("(call {} {})", sx_ident(n), sx_bools(a)),
        Stmt::PrintCall(n, a) => format!("(prc {} {})", sx_nameref(n), sx_bools(a)),
    }
}
fn sx_params(ps: &[(String, Decl)]) -> String {
    rb_harness::sx::list(ps.iter().map(|(n, d)| format!("({} {})", sx_ident(n), sx_decl(*d))))
}
fn sx_item(it: &Item) -> String {
    match it {
        Item::Def(q, rs) => format!(
            "(def {} {})",
            q.sfx(),
            rb_harness::sx::list(rs.iter().map(|(a, b)| format!("({} {})", a, b)))
        ),
        Item::S(s) => format!("(s {})", sx_stmt(s)),
        Item::Sub(n, ps, body) => {
            format!("(sub {} {} {})", sx_ident(n), sx_params(ps), rb_harness::sx::list(body.iter().map(sx_stmt)))
        }
        Item::Func(n, ps, body) => {
            format!("(fn {} {} {})", sx_nameref(n), sx_params(ps), rb_harness::sx::list(body.iter().map(sx_stmt)))
        }
    }
}
fn sx_script(s: &[Item]) -> String {
    format!("(names.run {})", rb_harness::sx::list(s.iter().map(sx_item)))
}

fn bas_nameref(n: &NameRef) -> String {
    format!("{}{}", n.name, n.sfx.map(|q| q.sfx()).unwrap_or(""))
}
fn bas_decl(name: &str, d: Decl) -> String {
    match d {
        Decl::Bare => name.to_owned(),
        Decl::Compact(q) => format!("{}{}", name, q.sfx()),
        Decl::Extended(q) => format!("{} AS {}", name, q.type_name()),
    }
}
fn bas_args(a: &[bool]) -> String {
    a.iter()
        .enumerate()
        .map(|(j, s)| if *s { format!("\"p{}\"", j) } else { format!("{}", 900 + j) })
        .collect::<Vec<_>>()
        .join(", ")
}
fn bas_stmt(s: &Stmt) -> String {
    match s {
        Stmt::Dim(sh, n, d) => format!("DIM {}{}", if *sh { "SHARED " } else { "" }, bas_decl(n, *d)),
        Stmt::Const(n, l) => format!(
            "CONST {} = {}",
            bas_nameref(n),
            match l {
                Lit::Int => "7",
                Lit::Lng => "70000",
                Lit::Sng => "7.25",
                Lit::Dbl => "7.25#",
                Lit::Str => "\"c\"",
            }
        ),
        Stmt::Assign(n, is_str, tag) => {
            if *is_str {
                format!("{} = \"s{}\"", bas_nameref(n), tag)
            } else {
                format!("{} = {}.25", bas_nameref(n), 10 * tag)
            }
        }
        Stmt::Print(n) => format!("PRINT {}", bas_nameref(n)),
        Stmt::CallSub(n, a) => {
            if a.is_empty() {
                n.clone()
            } else {
                format!("{} {}", n, bas_args(a))
            }
        }
        Stmt::PrintCall(n, a) => format!("PRINT {}({})", bas_nameref(n), bas_args(a)),
    }
}
fn bas_params(ps: &[(String, Decl)]) -> String {
    if ps.is_empty() {
        String::new()
    } else {
        format!(" ({})", ps.iter().map(|(n, d)| bas_decl(n, *d)).collect::<Vec<_>>().join(", "))
    }
}
fn bas_script(s: &[Item]) -> String {
    let mut out = String::new();
    for it in s {
        match it {
            Item::Def(q, rs) => {
                let r: Vec<String> = rs
                    .iter()
                    .map(|(a, b)| {
                        if a == b {
                            format!("{}", *a as char)
                        } else {
                            format!("{}-{}", *a as char, *b as char)
                        }
                    })
                    .collect();
                out.push_str(&format!("{} {}\n", q.def_kw(), r.join(", ")));
            }
            Item::S(st) => {
                out.push_str(&bas_stmt(st));
                out.push('\n');
            }
            Item::Sub(n, ps, body) => {
                out.push_str(&format!("SUB {}{}\n", n, bas_params(ps)));
                for st in body {
                    out.push_str(&format!("  {}\n", bas_stmt(st)));
                }
                out.push_str("END SUB\n");
            }
            Item::Func(n, ps, body) => {
                out.push_str(&format!("FUNCTION {}{}\n", bas_nameref(n), bas_params(ps)));
                for st in body {
                    out.push_str(&format!("  {}\n", bas_stmt(st)));
                }
                out.push_str("END FUNCTION\n");
            }
        }
    }
    out
}

/// numbers the assignments 1.. in text order
fn retag(s: &mut [Item]) {
    let mut n = 0u32;
    let mut fix = |st: &mut Stmt| {
        if let Stmt::Assign(_, _, t) = st {
            n += 1;
            *t = n;
        }
    };
    for it in s.iter_mut() {
        match it {
            Item::S(st) => fix(st),
            Item::Sub(_, _, body) | Item::Func(_, _, body) => body.iter_mut().for_each(&mut fix),
            Item::Def(..) => {}
        }
    }
}

// ------------------------------------------------------------------------------------------------
// the real code
// ------------------------------------------------------------------------------------------------

#[derive(Debug, Clone, PartialEq)]
enum RealVerdict {
    Rejected(String),
    Accepted(Vec<String>),
    Broken(String),
}

fn name_str(n: &Name) -> String {
    format!(
        "{} {}",
        n.as_bare_name().to_string().to_ascii_uppercase(),
        n.qualifier().map(|q| Q::from_real(q).sfx()).unwrap_or("-")
    )
}

fn expr_str(e: &Expression) -> String {
    match e {
        Expression::Variable(n, t) => {
            let tq = match t {
                ExpressionType::BuiltIn(q) => Q::from_real(*q).sfx().to_owned(),
                other => format!("{:?}", other),
            };
            if n.qualifier().map(|q| Q::from_real(q).sfx().to_owned()) == Some(tq.clone()) {
                format!("v {}", name_str(n))
            } else {
                format!("v {} type-differs:{}", name_str(n), tq)
            }
        }
        Expression::IntegerLiteral(_) => "c %".into(),
        Expression::LongLiteral(_) => "c &".into(),
        Expression::SingleLiteral(_) => "c !".into(),
        Expression::DoubleLiteral(_) => "c #".into(),
        Expression::StringLiteral(_) => "c $".into(),
        Expression::FunctionCall(n, _) => format!("f {}", name_str(n)),
        other => format!("other {:?}", other),
    }
}

fn walk_stmt(s: &Statement, out: &mut Vec<String>) {
    match s {
        Statement::Assignment(a) => out.push(expr_str(a.lvalue())),
        Statement::Print(p) => {
            for a in &p.args {
                if let PrintArg::Expression(e) = a {
                    out.push(expr_str(&e.element));
                }
            }
        }
        _ => {}
    }
}

fn walk(program: &Program) -> Vec<String> {
    let mut out = vec![];
    for g in program {
        match &g.element {
            GlobalStatement::Statement(s) => walk_stmt(s, &mut out),
            GlobalStatement::SubImplementation(s) => s.body.iter().for_each(|x| walk_stmt(&x.element, &mut out)),
            GlobalStatement::FunctionImplementation(s) => s.body.iter().for_each(|x| walk_stmt(&x.element, &mut out)),
            _ => {}
        }
    }
    out
}

/// Parses program text with the real parser (slow: several ms per call).
fn parse_text(text: &str) -> Result<Program, String> {
    let t = text.to_owned();
    match std::panic::catch_unwind(move || rusty_parser::parse_main_str(t)) {
        Ok(Ok(p)) => Ok(p),
        Ok(Err(e)) => Err(format!("parse error {:?}", e.element)),
        Err(_) => Err("parser panic".into()),
    }
}

/// The real parser costs ~6 ms per call whatever the size of the text, so programs are assembled from the parse
/// results of their lines: every distinct statement line, DEFtype line and SUB/FUNCTION header is parsed once by
/// the real parser (as a one-line program) and cached; subprogram bodies are filled with the cached statements.
/// `cross_check` compares the assembled tree with the parse of the whole text (positions aside).
#[derive(Default)]
struct Assembler {
    cache: HashMap<String, Result<Positioned<GlobalStatement>, String>>,
    parses: u64,
}

impl Assembler {
    fn piece(&mut self, text: &str) -> Result<Positioned<GlobalStatement>, String> {
        if let Some(r) = self.cache.get(text) {
            return r.clone();
        }
        self.parses += 1;
        let r = parse_text(text).and_then(|mut p| {
            if p.len() == 1 { Ok(p.remove(0)) } else { Err(format!("{} top-level items for one line", p.len())) }
        });
        self.cache.insert(text.to_owned(), r.clone());
        r
    }

    /// one statement line; assignments are parsed once per (name, kind of literal) and the literal is patched
    fn stmt_piece(&mut self, st: &Stmt) -> Result<Positioned<GlobalStatement>, String> {
        if let Stmt::Assign(n, is_str, tag) = st {
            let mut g = self.piece(&format!("{}\n", bas_stmt(&Stmt::Assign(n.clone(), *is_str, 1))))?;
            if let GlobalStatement::Statement(Statement::Assignment(a)) = &g.element {
                let left = a.lvalue().clone();
                let mut right = a.rvalue().clone();
                right.element = match &right.element {
                    Expression::StringLiteral(_) if *is_str => Expression::StringLiteral(format!("s{}", tag)),
                    Expression::SingleLiteral(_) if !*is_str => Expression::SingleLiteral((10 * tag) as f32 + 0.25),
                    other => return Err(format!("unexpected literal {:?}", other)),
                };
                g.element = GlobalStatement::Statement(Statement::assignment(left, right));
                Ok(g)
            } else {
                Err(format!("not an assignment: {:?}", g.element))
            }
        } else {
            self.piece(&format!("{}\n", bas_stmt(st)))
        }
    }

    fn statement(&mut self, st: &Stmt, row: u32) -> Result<Positioned<Statement>, String> {
        match self.stmt_piece(st)?.element {
            GlobalStatement::Statement(s) => Ok(Positioned::new(s, Position::new(row, 3))),
            other => Err(format!("not a statement: {:?}", other)),
        }
    }

    /// a parameter, parsed once inside a one-parameter SUB header
    fn params(&mut self, ps: &[(String, Decl)]) -> Result<rusty_parser::Parameters, String> {
        let mut out = vec![];
        for (n, d) in ps {
            let g = self.piece(&bas_script(&[Item::Sub("Zq".into(), vec![(n.clone(), *d)], vec![])]))?;
            match g.element {
                GlobalStatement::SubImplementation(imp) if imp.params.len() == 1 => out.push(imp.params[0].clone()),
                other => return Err(format!("not a one-parameter SUB: {:?}", other)),
            }
        }
        Ok(out)
    }

    fn program(&mut self, script: &[Item]) -> Result<Program, String> {
        let mut prog: Program = vec![];
        let mut row = 1u32;
        for it in script {
            match it {
                Item::Def(..) => {
                    let mut g = self.piece(&bas_script(std::slice::from_ref(it)))?;
                    g.pos = Position::new(row, 1);
                    prog.push(g);
                    row += 1;
                }
                Item::S(st) => {
                    let mut g = self.stmt_piece(st)?;
                    g.pos = Position::new(row, 1);
                    prog.push(g);
                    row += 1;
                }
                Item::Sub(n, ps, body) => {
                    let header = bas_script(&[Item::Sub(n.clone(), vec![], vec![])]);
                    let mut g = self.piece(&header)?;
                    let params = self.params(ps)?;
                    g.pos = Position::new(row, 1);
                    row += 1;
                    let mut stmts = vec![];
                    for st in body {
                        stmts.push(self.statement(st, row)?);
                        row += 1;
                    }
                    row += 1;
                    match &mut g.element {
                        GlobalStatement::SubImplementation(imp) => {
                            imp.body = stmts;
                            imp.params = params;
                        }
                        other => return Err(format!("not a SUB: {:?}", other)),
                    }
                    prog.push(g);
                }
                Item::Func(n, ps, body) => {
                    let header = bas_script(&[Item::Func(n.clone(), vec![], vec![])]);
                    let mut g = self.piece(&header)?;
                    let params = self.params(ps)?;
                    g.pos = Position::new(row, 1);
                    row += 1;
                    let mut stmts = vec![];
                    for st in body {
                        stmts.push(self.statement(st, row)?);
                        row += 1;
                    }
                    row += 1;
                    match &mut g.element {
                        GlobalStatement::FunctionImplementation(imp) => {
                            imp.body = stmts;
                            imp.params = params;
                        }
                        other => return Err(format!("not a FUNCTION: {:?}", other)),
                    }
                    prog.push(g);
                }
            }
        }
        Ok(prog)
    }
}

/// Debug rendering without positions
fn strip_positions(s: &str) -> String {
    let mut out = String::new();
    let mut rest = s;
    while let Some(i) = rest.find("Position {") {
        out.push_str(&rest[..i]);
        match rest[i..].find('}') {
            Some(j) => rest = &rest[i + j + 1..],
            None => {
                rest = "";
            }
        }
    }
    out.push_str(rest);
    out
}

/// Lints (and, when accepted and `run` is set, generates code for and runs) a program tree.
fn real_lint_and_run(program: Program, run: bool) -> (RealVerdict, Option<String>) {
    let linted = std::panic::catch_unwind(move || rusty_linter::core::lint(program));
    match linted {
        Ok(Ok((prog, ctx))) => {
            let trace = walk(&prog);
            let out = if run {
                Some(
                    match std::panic::catch_unwind(move || {
                        let (names, udts) = unwrap_linter_context(ctx);
                        let gen_result = generate_instructions(prog, names);
                        run_instructions(gen_result, udts, b"", 100_000, None, false)
                    }) {
                        Ok(r) => {
                            let out = String::from_utf8_lossy(&r.stdout)
                                .split("\r\n")
                                .map(|l| l.trim_end().to_owned())
                                .collect::<Vec<_>>()
                                .join("|");
                            let out = out.trim_end_matches('|').to_owned();
                            match r.result {
                                Ok(()) => out,
                                Err(e) => {
                                    let es = format!("{:?}", e);
                                    if r.budget_exhausted || es.contains("budget exhausted") {
                                        "diverges".into()
                                    } else {
                                        format!("{}|runtime-error {}", out, es)
                                    }
                                }
                            }
                        }
                        Err(_) => "panic".to_owned(),
                    },
                )
            } else {
                None
            };
            (RealVerdict::Accepted(trace), out)
        }
        Ok(Err(e)) => (RealVerdict::Rejected(format!("{:?}", e.element)), None),
        Err(_) => (RealVerdict::Broken("linter panic".into()), None),
    }
}

// ------------------------------------------------------------------------------------------------
// the model's answer
// ------------------------------------------------------------------------------------------------

#[derive(Debug, Clone, PartialEq)]
enum ModelVerdict {
    Rejected(String),
    /// trace (with homes), expected output lines or None (= diverges)
    Accepted(Vec<Vec<String>>, Option<Vec<Vec<String>>>),
    Bad(String),
}

/// minimal S-expression reader for the model's answers: a list of lists of atoms, two levels deep
fn tokens(s: &str) -> Vec<String> {
    let mut v = vec![];
    let mut cur = String::new();
    for c in s.chars() {
        if c == '(' || c == ')' || c == ' ' {
            if !cur.is_empty() {
                v.push(std::mem::take(&mut cur));
            }
            if c != ' ' {
                v.push(c.to_string());
            }
        } else {
            cur.push(c);
        }
    }
    if !cur.is_empty() {
        v.push(cur);
    }
    v
}

fn parse_groups(t: &[String], i: &mut usize) -> Option<Vec<Vec<String>>> {
    // at "(" : reads "( (a b) (c d) ... )"
    if t.get(*i)? != "(" {
        return None;
    }
    *i += 1;
    let mut groups = vec![];
    loop {
        match t.get(*i)?.as_str() {
            ")" => {
                *i += 1;
                return Some(groups);
            }
            "(" => {
                *i += 1;
                let mut g = vec![];
                while t.get(*i)? != ")" {
                    g.push(t[*i].clone());
                    *i += 1;
                }
                *i += 1;
                groups.push(g);
            }
            _ => return None,
        }
    }
}

fn parse_model(ans: &str) -> ModelVerdict {
    let t = tokens(ans);
    if t.len() >= 4 && t[0] == "(" && t[1] == "err" {
        return ModelVerdict::Rejected(t[2].clone());
    }
    if t.len() >= 3 && t[0] == "(" && t[1] == "ok" {
        let mut i = 2;
        if let Some(trace) = parse_groups(&t, &mut i) {
            if t.get(i).map(|s| s.as_str()) == Some("diverges") {
                return ModelVerdict::Accepted(trace, None);
            }
            if let Some(out) = parse_groups(&t, &mut i) {
                return ModelVerdict::Accepted(trace, Some(out));
            }
        }
    }
    ModelVerdict::Bad(ans.to_owned())
}

/// renders one abstract value of the model as the text PRINT shows (after trim_end)
fn render_val(v: &[String]) -> String {
    let num = |x: f64| {
        let s = if x == x.trunc() { format!("{}", x as i64) } else { format!("{}", x) };
        format!(" {}", s)
    };
    let q = Q::from_sfx(v.last().unwrap());
    let is_int = q == Q::Int || q == Q::Lng;
    match v[0].as_str() {
        "t" => {
            let n: u32 = v[1].parse().unwrap();
            if q == Q::Str {
                format!("s{}", n)
            } else if is_int {
                num((10 * n) as f64)
            } else {
                num((10 * n) as f64 + 0.25)
            }
        }
        "a" => {
            let j: u32 = v[1].parse().unwrap();
            if q == Q::Str { format!("p{}", j) } else { num((900 + j) as f64) }
        }
        "l" => {
            let x = match v[1].as_str() {
                "i" => 7.0,
                "l" => 70000.0,
                "s" | "d" => 7.25,
                _ => return "c".into(),
            };
            if is_int { num(f64::trunc(x)) } else { num(x) }
        }
        "d" => {
            if q == Q::Str { String::new() } else { num(0.0) }
        }
        _ => format!("?{:?}", v),
    }
}

fn norm_trace_entry(g: &[String]) -> String {
    match g[0].as_str() {
        "v" => format!("v {} {}", g[1], g[2]),
        "c" => format!("c {}", g[1]),
        "f" => format!("f {} {}", g[1], g[2]),
        "u" => "c %".into(),
        "us" => "c $".into(),
        _ => format!("?{:?}", g),
    }
}

// ------------------------------------------------------------------------------------------------
// comparison of one batch of scripts
// ------------------------------------------------------------------------------------------------

fn classify(real: &RealVerdict) -> &'static str {
    match real {
        RealVerdict::Accepted(_) => "accepted",
        RealVerdict::Rejected(_) => "rejected",
        RealVerdict::Broken(_) => "broken",
    }
}

fn check_batch(rep: &mut Report, asm: &mut Assembler, scripts: &[Vec<Item>], family: &str, run_every: usize, cross_every: usize) {
    let reqs: Vec<String> = scripts.iter().map(|s| sx_script(s)).collect();
    let answers = ask(&reqs);
    for (idx, s) in scripts.iter().enumerate() {
        let text = bas_script(s);
        rep.case(Some(text.clone()));
        let model = parse_model(&answers[idx]);
        let want_run = run_every > 0 && idx % run_every == 0;
        let (real, real_out) = match asm.program(s) {
            Ok(program) => {
                if cross_every > 0 && idx % cross_every == 0 {
                    // the assembled tree is the tree the parser gives for the whole text
                    rep.bump("cross-check.whole-text-parse");
                    let whole = parse_text(&text).map(|p| strip_positions(&format!("{:?}", p)));
                    let pieces = strip_positions(&format!("{:?}", program));
                    if whole.as_ref() != Ok(&pieces) {
                        rep.fail(Failure {
                            kind: Kind::ModelVsImpl,
                            signature: "harness:assembled-tree-differs".into(),
                            input: text.clone(),
                            implementation: format!("{:?}", whole),
                            expected: pieces,
                            note: "tree assembled from per-line parses vs parse of the whole text".into(),
                        });
                    }
                }
                real_lint_and_run(program, want_run)
            }
            Err(e) => (RealVerdict::Broken(e), None),
        };
        rep.bump(&format!("{}.{}", family, classify(&real)));
        if let RealVerdict::Rejected(e) = &real {
            rep.bump(&format!("verdict.{}", e));
        }
        let mut fails: Vec<Failure> = vec![];
        let mut panics: Vec<String> = vec![];
        let mut fail = |sig: &str, imp: String, exp: String, note: &str| {
            fails.push(Failure {
                kind: Kind::ModelVsImpl,
                signature: sig.to_owned(),
                input: format!("{}\n[{}]", text, reqs[idx]),
                implementation: imp,
                expected: exp,
                note: note.to_owned(),
            });
        };
        match (&real, &model) {
            (RealVerdict::Rejected(e), ModelVerdict::Rejected(m)) => {
                if e != m {
                    fail("model:lint-error-code", e.clone(), m.clone(), "both reject, different LintError");
                }
            }
            (RealVerdict::Accepted(rt), ModelVerdict::Accepted(mt, out)) => {
                let mt_norm: Vec<String> = mt.iter().map(|g| norm_trace_entry(g)).collect();
                if *rt != mt_norm {
                    fail(
                        "model:resolved-names",
                        format!("{:?}", rt),
                        format!("{:?}", mt_norm),
                        "resolved Name/literal/call of the assignments and PRINTs in the linted tree",
                    );
                } else if let Some(got) = real_out {
                    let want = match out {
                        None => "diverges".to_owned(),
                        Some(vs) => {
                            let lines: Vec<String> = vs.iter().map(|v| render_val(v)).collect();
                            lines.join("|").trim_end_matches('|').to_owned()
                        }
                    };
                    rep.bump(&format!("{}.run", family));
                    if got != want {
                        fail(
                            "model:run-output",
                            got,
                            want,
                            "printed values: which assignment each PRINT sees (aliasing) and in which type",
                        );
                    }
                }
            }
            (RealVerdict::Broken(b), _) if b == "linter panic" => {
                panics.push(format!("{:?}", model));
            }
            (RealVerdict::Broken(b), _) => {
                fail("real:broken", b.clone(), format!("{:?}", model), "parser rejects / panics on a generated script");
            }
            (_, ModelVerdict::Bad(b)) => {
                fail("model:bad-answer", format!("{:?}", real), b.clone(), "driver refused the script");
            }
            (r, m) => {
                fail(
                    "model:verdict",
                    format!("{:?}", r),
                    format!("{:?}", m),
                    "accepted by one side, rejected by the other",
                );
            }
        }
        for f in fails {
            rep.fail(f);
        }
        for m in panics {
            rep.fail(Failure {
                kind: Kind::ImplVsProperty,
                signature: "linter-panic".into(),
                input: text.clone(),
                implementation: "the linter panics".into(),
                expected: m,
                note: "every program of the fragment gets a verdict (accepted or a coded error) from the checker".into(),
            });
        }
    }
}

// ------------------------------------------------------------------------------------------------
// generators
// ------------------------------------------------------------------------------------------------

fn nr(name: &str, sfx: Option<Q>) -> NameRef {
    NameRef { name: name.to_owned(), sfx }
}

/// the declaration/use atoms over base name `a` with the qualifiers `qs`
fn atoms(a: &str, qs: &[Q], rich: bool) -> Vec<Stmt> {
    let mut v = vec![];
    for sh in [false, true] {
        v.push(Stmt::Dim(sh, a.into(), Decl::Bare));
        for &q in qs {
            v.push(Stmt::Dim(sh, a.into(), Decl::Compact(q)));
            v.push(Stmt::Dim(sh, a.into(), Decl::Extended(q)));
        }
    }
    v.push(Stmt::Const(nr(a, None), Lit::Int));
    v.push(Stmt::Const(nr(a, Some(Q::Str)), Lit::Str));
    if rich {
        v.push(Stmt::Const(nr(a, None), Lit::Str));
        v.push(Stmt::Const(nr(a, Some(Q::Int)), Lit::Sng));
        v.push(Stmt::Const(nr(a, Some(Q::Str)), Lit::Int));
        v.push(Stmt::Const(nr(a, Some(Q::Int)), Lit::Lng));
        v.push(Stmt::Const(nr(a, None), Lit::Dbl));
        v.push(Stmt::Const(nr(a, Some(Q::Sng)), Lit::Lng));
        v.push(Stmt::Assign(nr(a, None), true, 0));
    }
    v.push(Stmt::Assign(nr(a, None), false, 0));
    v.push(Stmt::Print(nr(a, None)));
    for &q in qs {
        v.push(Stmt::Assign(nr(a, Some(q)), q == Q::Str, 0));
        v.push(Stmt::Print(nr(a, Some(q))));
    }
    v
}

/// subprogram shapes: (items defining it, scaffolding call placed right after it)
fn subprogram(kind: usize, a: &str, body: Vec<Stmt>, def_is_str: bool) -> Vec<Item> {
    let sname = "Sb".to_owned();
    match kind {
        0 => vec![Item::Sub(sname.clone(), vec![], body), Item::S(Stmt::CallSub(sname, vec![]))],
        1 => vec![
            Item::Sub(sname.clone(), vec![(a.into(), Decl::Bare)], body),
            Item::S(Stmt::CallSub(sname, vec![def_is_str])),
        ],
        2 => vec![
            Item::Sub(sname.clone(), vec![(a.into(), Decl::Compact(Q::Str))], body),
            Item::S(Stmt::CallSub(sname, vec![true])),
        ],
        3 => vec![
            Item::Sub(sname.clone(), vec![(a.into(), Decl::Extended(Q::Int))], body),
            Item::S(Stmt::CallSub(sname, vec![false])),
        ],
        4 => vec![Item::Func(nr(a, None), vec![], body)],
        5 => vec![
            Item::Func(nr(a, Some(Q::Int)), vec![(a.into(), Decl::Compact(Q::Int))], body),
            Item::S(Stmt::PrintCall(nr(a, Some(Q::Int)), vec![false])),
        ],
        6 => vec![
            Item::Func(nr("Fn", None), vec![(a.into(), Decl::Bare)], body),
            Item::S(Stmt::PrintCall(nr("Fn", None), vec![def_is_str])),
        ],
        7 => vec![
            Item::Sub(sname.clone(), vec![(a.into(), Decl::Compact(Q::Int)), (a.into(), Decl::Compact(Q::Str))], body),
            Item::S(Stmt::CallSub(sname, vec![false, true])),
        ],
        _ => vec![Item::Sub(a.into(), vec![], body)],
    }
}
const SUBPROGRAM_KINDS: usize = 9;

/// builds `pre ++ subprogram(body) ++ post`, optional DEFtype first
fn assemble(def: Option<(Q, u8, u8)>, a: &str, pre: &[Stmt], kind: Option<usize>, body: &[Stmt], post: &[Stmt]) -> Vec<Item> {
    let mut s = vec![];
    let mut def_is_str = false;
    if let Some((q, lo, hi)) = def {
        s.push(Item::Def(q, vec![(lo, hi)]));
        let first = a.as_bytes()[0].to_ascii_uppercase();
        if lo.to_ascii_uppercase() <= first && first <= hi.to_ascii_uppercase() {
            def_is_str = q == Q::Str;
        }
    }
    s.extend(pre.iter().cloned().map(Item::S));
    if let Some(k) = kind {
        s.extend(subprogram(k, a, body.to_vec(), def_is_str));
    }
    s.extend(post.iter().cloned().map(Item::S));
    retag(&mut s);
    s
}

/// all ways to split `seq` into pre / body / post (nondecreasing placement)
fn placements(n: usize, with_sub: bool) -> Vec<(usize, usize)> {
    // (i, j): pre = [0, i), body = [i, j), post = [j, n)
    let mut v = vec![];
    for i in 0..=n {
        if with_sub {
            for j in i..=n {
                v.push((i, j));
            }
        } else {
            v.push((i, i));
        }
    }
    v
}

fn enumerate_sequences(atoms: &[Stmt], k: usize, f: &mut dyn FnMut(&[Stmt])) {
    let n = atoms.len();
    let mut idx = vec![0usize; k];
    loop {
        let seq: Vec<Stmt> = idx.iter().map(|&i| atoms[i].clone()).collect();
        f(&seq);
        let mut p = k;
        loop {
            if p == 0 {
                return;
            }
            p -= 1;
            idx[p] += 1;
            if idx[p] < n {
                break;
            }
            idx[p] = 0;
        }
    }
}

fn random_name(rng: &mut Rng, base: &[&str]) -> String {
    let n = *rng.pick(base);
    n.chars()
        .map(|c| if rng.chance(1, 2) { c.to_ascii_lowercase() } else { c.to_ascii_uppercase() })
        .collect()
}

fn random_sfx(rng: &mut Rng) -> Option<Q> {
    if rng.chance(2, 5) { None } else { Some(*rng.pick(&ALLQ)) }
}

fn random_decl(rng: &mut Rng) -> Decl {
    match rng.below(5) {
        0 | 1 => Decl::Bare,
        2 | 3 => Decl::Compact(*rng.pick(&ALLQ)),
        _ => Decl::Extended(*rng.pick(&ALLQ)),
    }
}

fn random_stmt(rng: &mut Rng, names: &[&str], subs: &[String], funcs: &[String]) -> Stmt {
    match rng.below(20) {
        0..=4 => Stmt::Dim(rng.chance(1, 3), random_name(rng, names), random_decl(rng)),
        5..=6 => Stmt::Const(
            nr(&random_name(rng, names), random_sfx(rng)),
            *rng.pick(&[Lit::Int, Lit::Lng, Lit::Sng, Lit::Dbl, Lit::Str]),
        ),
        7..=11 => {
            let sfx = random_sfx(rng);
            let is_str = match sfx {
                Some(Q::Str) => !rng.chance(1, 10),
                Some(_) => rng.chance(1, 10),
                None => rng.chance(1, 4),
            };
            Stmt::Assign(nr(&random_name(rng, names), sfx), is_str, 0)
        }
        12..=17 => Stmt::Print(nr(&random_name(rng, names), random_sfx(rng))),
        18 if !subs.is_empty() => {
            let n = rng.below(3) as usize;
            Stmt::CallSub(rng.pick(subs).clone(), (0..n).map(|_| rng.chance(1, 3)).collect())
        }
        _ => {
            let n = 1 + rng.below(2) as usize;
            let name = if !funcs.is_empty() && rng.chance(3, 4) {
                rng.pick(funcs).clone()
            } else {
                random_name(rng, names)
            };
            Stmt::PrintCall(nr(&name, random_sfx(rng)), (0..n).map(|_| rng.chance(1, 4)).collect())
        }
    }
}

/// free-form random script over two base names, all five qualifiers, several subprograms, DEFtype anywhere
fn random_script(rng: &mut Rng) -> Vec<Item> {
    let names: [&str; 3] = ["A", "AB", "K"];
    let mut s: Vec<Item> = vec![];
    let n_sub = rng.below(3) as usize;
    let mut subs: Vec<String> = vec![];
    let mut funcs: Vec<String> = vec![];
    let mut planned: Vec<(bool, String)> = vec![];
    for i in 0..n_sub {
        let is_fn = rng.chance(1, 2);
        let name = if rng.chance(1, 3) {
            random_name(rng, &names)
        } else if is_fn {
            format!("Fn{}", i)
        } else {
            format!("Sb{}", i)
        };
        if is_fn { funcs.push(name.clone()) } else { subs.push(name.clone()) }
        planned.push((is_fn, name));
    }
    let mut planned_iter = planned.into_iter();
    let n_items = 2 + rng.below(7) as usize;
    let mut sub_slots: Vec<usize> = (0..n_sub).map(|_| rng.below(n_items as u64) as usize).collect();
    sub_slots.sort();
    for i in 0..n_items {
        if rng.chance(1, 5) {
            let lo = b'A' + rng.below(26) as u8;
            let hi = lo + rng.below((b'Z' - lo + 1) as u64) as u8;
            let (lo, hi) = if rng.chance(1, 2) { (b'A', b'A' + rng.below(12) as u8) } else { (lo, hi) };
            let (lo, hi) = match rng.below(4) {
                0 => (lo.to_ascii_lowercase(), hi.to_ascii_lowercase()),
                1 => (lo, hi.to_ascii_lowercase()),
                2 => (lo.to_ascii_lowercase(), hi),
                _ => (lo, hi),
            };
            s.push(Item::Def(*rng.pick(&ALLQ), vec![(lo, hi)]));
        }
        for _ in sub_slots.iter().filter(|&&x| x == i) {
            let (is_fn, name) = planned_iter.next().unwrap();
            let n_params = rng.below(3) as usize;
            let params: Vec<(String, Decl)> =
                (0..n_params).map(|_| (random_name(rng, &names), random_decl(rng))).collect();
            let n_body = rng.below(5) as usize;
            let body: Vec<Stmt> = (0..n_body).map(|_| random_stmt(rng, &names, &[], &funcs)).collect();
            // argument kinds: mostly matching the declared parameter types (bare: guess numeric)
            let args: Vec<bool> = params
                .iter()
                .map(|(_, d)| match d {
                    Decl::Compact(Q::Str) | Decl::Extended(Q::Str) => !rng.chance(1, 10),
                    Decl::Bare => rng.chance(1, 5),
                    _ => rng.chance(1, 10),
                })
                .collect();
            if is_fn {
                let sfx = if rng.chance(1, 2) { None } else { Some(*rng.pick(&ALLQ)) };
                s.push(Item::Func(nr(&name, sfx), params, body));
                if args.is_empty() {
                    s.push(Item::S(Stmt::Print(nr(&name, if rng.chance(3, 4) { sfx } else { random_sfx(rng) }))));
                } else {
                    s.push(Item::S(Stmt::PrintCall(nr(&name, if rng.chance(3, 4) { sfx } else { random_sfx(rng) }), args)));
                }
            } else {
                s.push(Item::Sub(name.clone(), params, body));
                s.push(Item::S(Stmt::CallSub(name, args)));
            }
        }
        s.push(Item::S(random_stmt(rng, &names, &subs, &funcs)));
    }
    retag(&mut s);
    s
}

// ------------------------------------------------------------------------------------------------
// property oracles on the real code alone (the documented rules, no model)
// ------------------------------------------------------------------------------------------------

/// What the real code shows for a program text (whole-text parse, lint, code generation, in-memory run):
/// `rejected <LintError>`, `broken <why>`, or the printed lines joined with `|`.
fn observe(text: &str) -> String {
    match parse_text(text) {
        Ok(program) => match real_lint_and_run(program, true) {
            (RealVerdict::Accepted(_), out) => out.unwrap_or_default(),
            (RealVerdict::Rejected(e), _) => format!("rejected {}", e),
            (RealVerdict::Broken(b), _) => format!("broken {}", b),
        },
        Err(e) => format!("broken {}", e),
    }
}

fn oracle(rep: &mut Report, sig: &str, text: String, want: String, note: &str) {
    rep.case(Some(format!("oracle:{}", text)));
    rep.bump("oracle.programs");
    let got = observe(&text);
    let ok = if want == "rejected" { got.starts_with("rejected ") } else { got == want };
    if !ok {
        rep.fail(Failure {
            kind: Kind::ImplVsProperty,
            signature: sig.to_owned(),
            input: text,
            implementation: got,
            expected: want,
            note: note.to_owned(),
        });
    }
}

fn property_oracles(rep: &mut Report) {
    let letters: Vec<u8> = (b'A'..=b'Z').collect();
    // 26 x 5 (+ no DEFtype): a bare name is the variable of the default type of its first letter
    for &l in &letters {
        for (qi, q) in std::iter::once(None).chain(ALLQ.iter().map(|q| Some(*q))).enumerate() {
            let name = format!("{}x", (if (l as usize + qi) % 2 == 0 { l } else { l.to_ascii_lowercase() }) as char);
            let eff = q.unwrap_or(Q::Sng);
            let def = match q {
                Some(q) => format!("{} {}\n", q.def_kw(), l as char),
                None => String::new(),
            };
            let (v1, shown1, v2, shown2) = if eff == Q::Str {
                ("\"u\"".to_owned(), "u".to_owned(), "\"w\"".to_owned(), "w".to_owned())
            } else if eff == Q::Int || eff == Q::Lng {
                ("10.25".to_owned(), " 10".to_owned(), "20.25".to_owned(), " 20".to_owned())
            } else {
                ("10.25".to_owned(), " 10.25".to_owned(), "20.25".to_owned(), " 20.25".to_owned())
            };
            // assign through the bare name, read through the suffixed one, and back
            let text = format!(
                "{def}{n} = {v1}\nPRINT {n}{s}\n{n}{s} = {v2}\nPRINT {N}\n",
                def = def,
                n = name,
                N = name.to_ascii_uppercase(),
                s = eff.sfx(),
                v1 = v1,
                v2 = v2
            );
            oracle(
                rep,
                "rule:bare-is-default-type",
                text,
                format!("{}|{}", shown1, shown2),
                "A and A<q> (q = DEFtype of the first letter, SINGLE if none) are one variable, case-insensitively",
            );
            // the other four suffixes are four other variables
            let others: Vec<Q> = ALLQ.iter().copied().filter(|x| *x != eff).collect();
            let mut text = format!("{}{} = {}\n", def, name, v1);
            let mut want = vec![];
            for o in &others {
                text.push_str(&format!("PRINT {}{}\n", name, o.sfx()));
                want.push(if *o == Q::Str { String::new() } else { " 0".to_owned() });
            }
            let want = want.join("|").trim_end_matches('|').to_owned();
            oracle(rep, "rule:five-suffixes-distinct", text, want, "A%, A&, A!, A#, A$ are five different variables");
        }
    }
    // after DIM A AS T: bare and matching suffix are that variable, any other suffix is rejected
    for t in ALLQ {
        let (v, shown) = if t == Q::Str {
            ("\"u\"", "u")
        } else if t == Q::Int || t == Q::Lng {
            ("10.25", " 10")
        } else {
            ("10.25", " 10.25")
        };
        for place in ["main", "sub-local", "sub-shared", "param"] {
            let wrap = |body: String| -> String {
                match place {
                    "main" => format!("DIM A AS {}\n{}", t.type_name(), body),
                    "sub-local" => format!("SUB Sb\nDIM A AS {}\n{}END SUB\nSb\n", t.type_name(), body),
                    "sub-shared" => format!("DIM SHARED A AS {}\nSUB Sb\n{}END SUB\nSb\n", t.type_name(), body),
                    _ => format!("SUB Sb (A AS {})\n{}END SUB\nSb {}\n", t.type_name(), body, v),
                }
            };
            oracle(
                rep,
                "rule:extended-unique",
                wrap(format!("A = {v}\nPRINT a{s}\na{s} = {v}\nPRINT A\n", v = v, s = t.sfx())),
                format!("{}|{}", shown, shown),
                "after DIM A AS T, A and A<T's suffix> are that one variable",
            );
            for o in ALLQ {
                if o != t {
                    oracle(
                        rep,
                        "rule:extended-other-suffix-rejected",
                        wrap(format!("PRINT A{}\n", o.sfx())),
                        "rejected".into(),
                        "after DIM A AS T any other suffix on A is rejected by the checker",
                    );
                }
            }
        }
    }
    // DEFtype letters are case-insensitive too
    oracle(
        rep,
        "deftype-range:lower-case-start-upper-case-stop",
        "DEFINT a-Z\nx = 10.25\nPRINT x\n".into(),
        " 10".into(),
        "DEFINT a-Z is DEFINT A-Z (letter case is irrelevant)",
    );
    oracle(
        rep,
        "deftype-range:mixed-case",
        "DEFINT A-z\nx = 10.25\nPRINT x\nDEFSTR b-d\nC = \"u\"\nPRINT c\n".into(),
        " 10|u".into(),
        "DEFINT A-z is DEFINT A-Z, DEFSTR b-d is DEFSTR B-D",
    );
    // local unless parameter / CONST / SHARED
    oracle(
        rep,
        "rule:local-unless-shared",
        "A = 10.25\nSUB Sb\nPRINT A\nA = 20.25\nEND SUB\nSb\nPRINT A\n".into(),
        " 0| 10.25".into(),
        "a global that is not SHARED is invisible in a SUB; the SUB's A is a local",
    );
    oracle(
        rep,
        "rule:local-unless-shared",
        "DIM SHARED A\nA = 10.25\nSUB Sb\nPRINT A\nA = 20.25\nEND SUB\nSb\nPRINT A\n".into(),
        " 10.25| 20.25".into(),
        "DIM SHARED makes the global visible in the SUB",
    );
    oracle(
        rep,
        "rule:local-unless-const",
        "CONST A = 7\nSUB Sb\nPRINT A\nEND SUB\nSb\n".into(),
        " 7".into(),
        "a global CONST is visible in the SUB",
    );
    oracle(
        rep,
        "rule:local-unless-param",
        "A = 10.25\nSUB Sb (A)\nPRINT A\nEND SUB\nSb 900\nPRINT A\n".into(),
        " 900| 10.25".into(),
        "a parameter hides nothing global and is what the name denotes",
    );
    // a name declared DIM SHARED denotes the shared variable inside a procedure: a local DIM of the same name and
    // qualifier there is either refused or - if a front end accepts it - must not silently give the procedure a second
    // variable (after a wave-11 seed: the compact lookup saw the current scope only and the local shadowed the shared one)
    for q in ALLQ {
        let (v1, v2, shown2) = if q == Q::Str { ("\"u\"", "\"w\"", "w") } else { ("10", "20", " 20") };
        for bare in [false, true] {
            for callee in ["SUB", "FUNCTION"] {
                let def = if bare { format!("{} A\n", q.def_kw()) } else { String::new() };
                let n = if bare { "Abc".to_owned() } else { format!("Abc{}", q.sfx()) };
                let (head, call) = if callee == "SUB" { ("SUB Sb".to_owned(), "Sb\n".to_owned()) } else { ("FUNCTION Fn%".to_owned(), "Z% = Fn%\n".to_owned()) };
                let text = format!(
                    "{def}DIM SHARED {n}\n{n} = {v1}\n{call}PRINT {n}\n{head}\nDIM {n}\n{n} = {v2}\nEND {callee}\n",
                    def = def, n = n, v1 = v1, v2 = v2, call = call, head = head, callee = callee
                );
                rep.case(Some(format!("oracle:{}", text)));
                rep.bump("oracle.programs");
                let got = observe(&text);
                if got.starts_with("rejected ") {
                    rep.bump("oracle.shared-not-shadowed.rejected");
                } else if got == shown2 {
                    rep.bump("oracle.shared-not-shadowed.same-object");
                } else {
                    rep.fail(Failure {
                        kind: Kind::ImplVsProperty,
                        signature: "rule:shared-not-shadowed".into(),
                        input: text,
                        implementation: got,
                        expected: format!("rejected, or {} (the procedure's name denotes the shared variable)", shown2),
                        note: "a name declared DIM SHARED is the same object in every subprogram; a local DIM of that name must not shadow it".into(),
                    });
                }
            }
        }
    }
    oracle(
        rep,
        "rule:locals-fresh-per-call",
        "SUB Sb\nPRINT A\nA = 20.25\nEND SUB\nSb\nSb\n".into(),
        " 0| 0".into(),
        "locals do not survive the call",
    );
}

// ------------------------------------------------------------------------------------------------
// behavioural oracles, no model, whole-text parse: (a) the default type of a bare name at its position
// ------------------------------------------------------------------------------------------------

/// The property's rule, read off the program text: the default type of a bare name on line `at` is the type of
/// the last DEFtype statement among the lines before it whose letter ranges cover the name's first letter
/// (letter case is irrelevant); SINGLE when there is none.
fn default_type_at(lines: &[String], at: usize, name: &str) -> Q {
    let first = name.as_bytes()[0].to_ascii_uppercase();
    let mut q = Q::Sng;
    for line in &lines[..at] {
        let up = line.trim().to_ascii_uppercase();
        for k in ALLQ {
            let Some(rest) = up.strip_prefix(k.def_kw()) else { continue };
            if !rest.starts_with(' ') {
                continue;
            }
            for r in rest.split(',') {
                let b = r.trim().as_bytes();
                let (lo, hi) = match b.len() {
                    1 => (b[0], b[0]),
                    3 if b[1] == b'-' => (b[0], b[2]),
                    _ => continue,
                };
                if lo <= first && first <= hi {
                    q = k;
                }
            }
        }
    }
    q
}

/// values whose printed form tells the five types apart: `t.75` (INTEGER / LONG print t+1), `t`, 16777217 (a SINGLE
/// holds 16777216, an INTEGER overflows), `"s<t>"`
#[derive(Clone, Debug, PartialEq)]
enum DVal {
    Frac(u32),
    Whole(u32),
    Big,
    Text(u32),
}

/// one line of a default-type script
#[derive(Clone, Debug, PartialEq)]
enum DLine {
    /// a DEFtype statement, as text
    Def(String),
    /// DIM of a bare name
    Dim(String),
    Asg(String, Option<Q>, DVal),
    Pr(String, Option<Q>),
    /// PRINT LEN(variable): 2, 4, 4, 8 bytes, or the length of the string
    Len(String, Option<Q>),
    /// call of SUB Proc<k>, with an argument iff the SUB has a parameter
    Call(usize, Option<DVal>),
    /// SUB Proc<k> [(bare parameter)]
    Sub(usize, Option<String>),
    EndSub,
}

fn d_val(v: &DVal) -> String {
    match v {
        DVal::Frac(t) => format!("{}.75", t),
        DVal::Whole(t) => format!("{}", t),
        DVal::Big => "16777217".into(),
        DVal::Text(t) => format!("\"s{}\"", t),
    }
}

fn d_lines(s: &[DLine]) -> Vec<String> {
    let mut inside = false;
    let sp = |n: &str, q: &Option<Q>| format!("{}{}", n, q.map(|q| q.sfx()).unwrap_or(""));
    s.iter()
        .map(|l| {
            let t = match l {
                DLine::Def(t) => t.clone(),
                DLine::Dim(n) => format!("DIM {}", n),
                DLine::Asg(n, q, v) => format!("{} = {}", sp(n, q), d_val(v)),
                DLine::Pr(n, q) => format!("PRINT {}", sp(n, q)),
                DLine::Len(n, q) => format!("PRINT LEN({})", sp(n, q)),
                DLine::Call(k, None) => format!("Proc{}", k),
                DLine::Call(k, Some(v)) => format!("Proc{} {}", k, d_val(v)),
                DLine::Sub(k, None) => format!("SUB Proc{}", k),
                DLine::Sub(k, Some(p)) => format!("SUB Proc{} ({})", k, p),
                DLine::EndSub => "END SUB".into(),
            };
            let indent = inside && *l != DLine::EndSub;
            match l {
                DLine::Sub(..) => inside = true,
                DLine::EndSub => inside = false,
                _ => {}
            }
            if indent { format!("  {}", t) } else { t }
        })
        .collect()
}

fn d_text(s: &[DLine]) -> String {
    let mut t = d_lines(s).join("\n");
    t.push('\n');
    t
}

#[derive(Clone, Debug)]
enum DV {
    N(f64),
    S(String),
}

/// the value a variable of type `q` holds after storing `v`; None = Overflow
fn d_cast(q: Q, v: &DVal) -> Option<DV> {
    Some(match (v, q) {
        (DVal::Text(t), _) => DV::S(format!("s{}", t)),
        (DVal::Frac(t), Q::Int | Q::Lng) => DV::N((*t + 1) as f64),
        (DVal::Frac(t), _) => DV::N(*t as f64 + 0.75),
        (DVal::Whole(t), _) => DV::N(*t as f64),
        (DVal::Big, Q::Int) => return None,
        (DVal::Big, Q::Sng) => DV::N(16777216.0),
        (DVal::Big, _) => DV::N(16777217.0),
    })
}

type DKey = (String, String, Q);

/// What the property prescribes for a default-type script: `rejected`, or the printed lines (ending in
/// `runtime-error Overflow` when 16777217 is stored in an INTEGER).  A variable is (scope or activation, name in
/// upper case, type); the type of a bare spelling is `default_type_at` its line; a store or an argument of the
/// other kind (string / number) and a DIM of a variable that exists already in its scope are rejected.
fn d_expect(s: &[DLine]) -> String {
    let lines = d_lines(s);
    let ty = |at: usize, n: &str, sfx: &Option<Q>| sfx.unwrap_or_else(|| default_type_at(&lines, at, n));
    let mut subs: HashMap<usize, usize> = HashMap::new();
    for (i, l) in s.iter().enumerate() {
        if let DLine::Sub(k, _) = l {
            subs.insert(*k, i);
        }
    }
    let param_type = |k: &usize| -> Option<(String, Q)> {
        match &s[subs[k]] {
            DLine::Sub(_, Some(p)) => Some((p.to_ascii_uppercase(), ty(subs[k], p, &None))),
            _ => None,
        }
    };
    // the checker
    let mut scope = "main".to_owned();
    let mut known: std::collections::HashSet<DKey> = Default::default();
    for (i, l) in s.iter().enumerate() {
        match l {
            DLine::Sub(k, _) => {
                scope = format!("sub{}", k);
                if let Some((p, t)) = param_type(k) {
                    known.insert((scope.clone(), p, t));
                }
            }
            DLine::EndSub => scope = "main".into(),
            DLine::Asg(n, sfx, v) => {
                let t = ty(i, n, sfx);
                if (t == Q::Str) != matches!(v, DVal::Text(_)) {
                    return "rejected".into();
                }
                known.insert((scope.clone(), n.to_ascii_uppercase(), t));
            }
            DLine::Pr(n, sfx) | DLine::Len(n, sfx) => {
                known.insert((scope.clone(), n.to_ascii_uppercase(), ty(i, n, sfx)));
            }
            DLine::Dim(n) => {
                if !known.insert((scope.clone(), n.to_ascii_uppercase(), ty(i, n, &None))) {
                    return "rejected".into();
                }
            }
            DLine::Call(k, Some(v)) => {
                if let Some((_, t)) = param_type(k) {
                    if (t == Q::Str) != matches!(v, DVal::Text(_)) {
                        return "rejected".into();
                    }
                }
            }
            DLine::Call(_, None) | DLine::Def(_) => {}
        }
    }
    // the run
    let mut store: HashMap<DKey, DV> = HashMap::new();
    let mut out: Vec<String> = vec![];
    let mut step = |l: &DLine, at: usize, scope: &str, store: &mut HashMap<DKey, DV>| -> bool {
        match l {
            DLine::Asg(n, sfx, v) => {
                let t = ty(at, n, sfx);
                match d_cast(t, v) {
                    Some(x) => {
                        store.insert((scope.to_owned(), n.to_ascii_uppercase(), t), x);
                    }
                    None => return false,
                }
            }
            DLine::Pr(n, sfx) | DLine::Len(n, sfx) => {
                let t = ty(at, n, sfx);
                let v = store.get(&(scope.to_owned(), n.to_ascii_uppercase(), t));
                let shown = if matches!(l, DLine::Len(..)) {
                    match (t, v) {
                        (Q::Int, _) => " 2".to_owned(),
                        (Q::Lng | Q::Sng, _) => " 4".to_owned(),
                        (Q::Dbl, _) => " 8".to_owned(),
                        (Q::Str, Some(DV::S(x))) => format!(" {}", x.len()),
                        (Q::Str, _) => " 0".to_owned(),
                    }
                } else {
                    match v {
                        None if t == Q::Str => String::new(),
                        None => " 0".to_owned(),
                        Some(DV::S(x)) => x.clone(),
                        Some(DV::N(x)) if x.fract() == 0.0 => format!(" {}", *x as i64),
                        Some(DV::N(x)) => format!(" {}", x),
                    }
                };
                out.push(shown);
            }
            _ => {}
        }
        true
    };
    let mut overflow = false;
    let mut calls = 0usize;
    let mut i = 0usize;
    'run: while i < s.len() {
        match &s[i] {
            DLine::Sub(..) => {
                while s[i] != DLine::EndSub {
                    i += 1;
                }
            }
            DLine::Call(k, arg) => {
                calls += 1;
                let act = format!("sub{}#{}", k, calls);
                if let (Some((p, t)), Some(v)) = (param_type(k), arg) {
                    match d_cast(t, v) {
                        Some(x) => {
                            store.insert((act.clone(), p, t), x);
                        }
                        None => {
                            overflow = true;
                            break 'run;
                        }
                    }
                }
                let mut b = subs[k] + 1;
                while s[b] != DLine::EndSub {
                    if !step(&s[b], b, &act, &mut store) {
                        overflow = true;
                        break 'run;
                    }
                    b += 1;
                }
            }
            other => {
                if !step(other, i, "main", &mut store) {
                    overflow = true;
                    break 'run;
                }
            }
        }
        i += 1;
    }
    let mut o = out.join("|").trim_end_matches('|').to_owned();
    if overflow {
        o.push_str("|runtime-error Overflow");
    }
    o
}

/// the observation, reduced to what `d_expect` talks about
fn d_norm(got: &str) -> String {
    if got.starts_with("rejected ") {
        return "rejected".into();
    }
    match got.find("runtime-error ") {
        Some(i) => format!(
            "{}|runtime-error {}",
            got[..i].trim_end_matches('|'),
            if got[i..].contains("Overflow") { "Overflow" } else { &got[i + 14..] }
        ),
        None => got.to_owned(),
    }
}

fn d_fails(s: &[DLine]) -> Option<(String, String)> {
    let want = d_expect(s);
    let got = observe(&d_text(s));
    if d_norm(&got) != want { Some((got, want)) } else { None }
}

/// greedy shrinking: drop whole SUBs (with their calls), then single lines, while the script still fails
fn d_shrink(mut s: Vec<DLine>) -> Vec<DLine> {
    let mut budget = 400usize;
    loop {
        let mut progress = false;
        let ks: Vec<usize> = s.iter().filter_map(|l| if let DLine::Sub(k, _) = l { Some(*k) } else { None }).collect();
        for k in ks {
            let mut cand = vec![];
            let mut skipping = false;
            for l in &s {
                match l {
                    DLine::Sub(j, _) if *j == k => skipping = true,
                    DLine::EndSub if skipping => skipping = false,
                    DLine::Call(j, _) if *j == k => {}
                    other if !skipping => cand.push(other.clone()),
                    _ => {}
                }
            }
            if budget > 0 {
                budget -= 1;
                if d_fails(&cand).is_some() {
                    s = cand;
                    progress = true;
                }
            }
        }
        let mut i = s.len();
        while i > 0 {
            i -= 1;
            if matches!(s[i], DLine::Sub(..) | DLine::EndSub) || budget == 0 {
                continue;
            }
            let mut cand = s.clone();
            cand.remove(i);
            budget -= 1;
            if d_fails(&cand).is_some() {
                s = cand;
                progress = true;
            }
        }
        if !progress || budget == 0 {
            return s;
        }
    }
}

fn recase(rng: &mut Rng, s: &str) -> String {
    match rng.below(4) {
        0 => s.to_ascii_uppercase(),
        1 => s.to_ascii_lowercase(),
        2 => s.chars().map(|c| if rng.chance(1, 2) { c.to_ascii_uppercase() } else { c.to_ascii_lowercase() }).collect(),
        _ => s.to_owned(),
    }
}

fn shuffle<T>(rng: &mut Rng, v: &mut [T]) {
    for i in (1..v.len()).rev() {
        let j = rng.below(i as u64 + 1) as usize;
        v.swap(i, j);
    }
}

fn gen_def_line(rng: &mut Rng, names: &[String]) -> String {
    let q = *rng.pick(&ALLQ);
    let n = 1 + rng.below(2);
    let mut ranges = vec![];
    for _ in 0..n {
        let rand_from = |rng: &mut Rng, lo: u8| lo + rng.below((b'Z' - lo + 1) as u64) as u8;
        let (lo, hi) = if rng.chance(2, 3) {
            let l = rng.pick(names).as_bytes()[0].to_ascii_uppercase();
            match rng.below(4) {
                0 => (l, l),
                1 => (b'A', b'Z'),
                2 => (b'A' + rng.below((l - b'A' + 1) as u64) as u8, rand_from(rng, l)),
                _ => (l, rand_from(rng, l)),
            }
        } else {
            let lo = rand_from(rng, b'A');
            (lo, rand_from(rng, lo))
        };
        let mut c = |x: u8| (if rng.chance(1, 2) { x.to_ascii_lowercase() } else { x }) as char;
        let (a, b) = (c(lo), c(hi));
        ranges.push(if lo == hi && rng.chance(2, 3) { format!("{}", a) } else { format!("{}-{}", a, b) });
    }
    format!("{} {}", recase(rng, q.def_kw()), ranges.join(", "))
}

/// a store / PRINT / PRINT LEN / DIM of some spelling of one of the names, placed after the lines `so_far`;
/// the rule is used only to make most stores well typed
fn gen_probe(rng: &mut Rng, so_far: &[DLine], names: &[String], tag: &mut u32) -> DLine {
    let lines = d_lines(so_far);
    let base = rng.pick(names).clone();
    let name = recase(rng, &base);
    let cur = default_type_at(&lines, lines.len(), &name);
    let sfx = if rng.chance(3, 5) {
        None
    } else if rng.chance(1, 2) {
        Some(cur)
    } else {
        Some(*rng.pick(&ALLQ))
    };
    let t = sfx.unwrap_or(cur);
    match rng.below(40) {
        0..=17 => {
            *tag += 1;
            let v = if t == Q::Str {
                if rng.chance(1, 50) { DVal::Frac(*tag) } else { DVal::Text(*tag) }
            } else {
                match rng.below(60) {
                    0 => DVal::Text(*tag),
                    1..=6 if t != Q::Int || rng.chance(1, 4) => DVal::Big,
                    1..=18 => DVal::Whole(*tag),
                    _ => DVal::Frac(*tag),
                }
            };
            DLine::Asg(name, sfx, v)
        }
        18..=30 => DLine::Pr(name, sfx),
        31..=38 => DLine::Len(name, sfx),
        _ => DLine::Dim(name),
    }
}

/// 0-3 DEFtype statements (five kinds, letters and ranges in both cases, overlapping) anywhere among the top-level
/// items: at the top, between the statements of the main module, between the main module and the SUBs, between
/// and after the SUBs; never inside a SUB
fn gen_deftype_script(rng: &mut Rng) -> Vec<DLine> {
    const TAILS: [&str; 5] = ["", "q", "Qx", "qzw9", "qRatioLongName"];
    let l0 = b'a' + rng.below(26) as u8;
    let n_names = 2 + rng.below(2) as usize;
    let mut names: Vec<String> = vec![];
    for i in 0..n_names {
        let l = match rng.below(3) {
            0 => l0,
            1 => b'a' + (l0 - b'a' + 1 + rng.below(3) as u8) % 26,
            _ => b'a' + rng.below(26) as u8,
        };
        names.push(format!("{}{}", l as char, TAILS[i + rng.below(2) as usize]));
    }
    #[derive(Clone, Copy)]
    enum Slot {
        M,
        D,
        S(usize),
        C(usize),
    }
    let n_defs = rng.below(4) as usize;
    let n_subs = rng.below(3) as usize;
    let n_main = 3 + rng.below(6) as usize;
    let mut main_part: Vec<Slot> = vec![Slot::M; n_main];
    for k in 0..n_subs {
        for _ in 0..1 + rng.below(2) {
            main_part.push(Slot::C(k));
        }
    }
    shuffle(rng, &mut main_part);
    let mut slots: Vec<Slot> = vec![];
    match rng.below(10) {
        0 => {
            slots.extend(std::iter::repeat(Slot::D).take(n_defs));
            main_part.extend((0..n_subs).map(Slot::S));
            shuffle(rng, &mut main_part);
            slots.extend(main_part);
        }
        1..=3 => {
            slots.extend(main_part);
            let mut rest: Vec<Slot> = std::iter::repeat(Slot::D).take(n_defs).chain((0..n_subs).map(Slot::S)).collect();
            shuffle(rng, &mut rest);
            slots.extend(rest);
        }
        _ => {
            slots.extend(main_part);
            slots.extend(std::iter::repeat(Slot::D).take(n_defs));
            slots.extend((0..n_subs).map(Slot::S));
            shuffle(rng, &mut slots);
        }
    }
    let mut s: Vec<DLine> = vec![];
    let mut tag = 0u32;
    for slot in slots {
        match slot {
            Slot::D => s.push(DLine::Def(gen_def_line(rng, &names))),
            Slot::M => {
                let l = gen_probe(rng, &s, &names, &mut tag);
                s.push(l);
            }
            Slot::C(k) => s.push(DLine::Call(k, None)),
            Slot::S(k) => {
                let base = rng.pick(&names).clone();
                let param = if rng.chance(1, 2) { Some(recase(rng, &base)) } else { None };
                s.push(DLine::Sub(k, param));
                for _ in 0..1 + rng.below(4) {
                    let l = gen_probe(rng, &s, &names, &mut tag);
                    s.push(l);
                }
                s.push(DLine::EndSub);
            }
        }
    }
    // arguments: mostly of the parameter's kind
    let lines = d_lines(&s);
    for i in 0..s.len() {
        if let DLine::Call(k, _) = s[i] {
            let header = s.iter().position(|l| matches!(l, DLine::Sub(j, _) if *j == k)).unwrap();
            if let DLine::Sub(_, Some(p)) = &s[header] {
                let t = default_type_at(&lines, header, p);
                tag += 1;
                let v = if (t == Q::Str) != rng.chance(1, 40) {
                    DVal::Text(tag)
                } else if t != Q::Int && rng.chance(1, 6) {
                    DVal::Big
                } else {
                    DVal::Frac(tag)
                };
                s[i] = DLine::Call(k, Some(v));
            }
        }
    }
    s
}

/// does this DEFtype line cover the first letter of `name` (all five keywords have six letters)
fn def_covers(line: &str, name: &str) -> bool {
    let up = line.trim().to_ascii_uppercase();
    default_type_at(&[format!("DEFINT{}", &up[6..])], 1, name) == Q::Int
}

/// where the bare spellings of a script sit relative to the DEFtype statements covering their first letter
fn d_positions(s: &[DLine], rep: &mut Report) {
    let lines = d_lines(s);
    for (i, l) in s.iter().enumerate() {
        let n = match l {
            DLine::Asg(n, None, _) | DLine::Pr(n, None) | DLine::Len(n, None) | DLine::Dim(n) | DLine::Sub(_, Some(n)) => n,
            _ => continue,
        };
        let covered_before = (0..i).any(|j| matches!(s[j], DLine::Def(_)) && def_covers(&lines[j], n));
        let same_at_end = default_type_at(&lines, i, n) == default_type_at(&lines, lines.len(), n);
        rep.bump(match (covered_before, same_at_end) {
            (false, true) => "defpos.bare.no-covering-deftype-before.same-as-final-table",
            (false, false) => "defpos.bare.no-covering-deftype-before.final-table-differs",
            (true, true) => "defpos.bare.after-covering-deftype.same-as-final-table",
            (true, false) => "defpos.bare.after-covering-deftype.final-table-differs",
        });
    }
}

fn deftype_position_family(rep: &mut Report, rng: &mut Rng, n: usize) {
    let mut shrunk = 0usize;
    for i in 0..n {
        let s = gen_deftype_script(rng);
        let text = d_text(&s);
        rep.case(Some(format!("defpos:{}", text)));
        d_positions(&s, rep);
        rep.bump(&format!("defpos.deftype-statements.{}", s.iter().filter(|l| matches!(l, DLine::Def(_))).count()));
        let want = d_expect(&s);
        let got = observe(&text);
        rep.bump(if want == "rejected" {
            "defpos.expected.rejected"
        } else if want.ends_with("Overflow") {
            "defpos.expected.runs-into-overflow"
        } else {
            "defpos.expected.runs"
        });
        if i == 7 {
            rep.sample(J::s(format!("{} => {}", text.replace('\n', " : "), got)));
        }
        if d_norm(&got) != want {
            let (input, got, want) = if shrunk < 4 {
                shrunk += 1;
                let small = d_shrink(s);
                match d_fails(&small) {
                    Some((g, w)) => (d_text(&small), g, w),
                    None => (text, got, want),
                }
            } else {
                (text, got, want)
            };
            rep.fail(Failure {
                kind: Kind::ImplVsProperty,
                signature: "rule:default-type-at-position".into(),
                input,
                implementation: got,
                expected: want,
                note: "a bare name is the variable of the default type of its first letter where it stands: the last \
                       DEFtype statement before it in the text that covers the letter, SINGLE if none (values: t.75 \
                       prints t+1 in an INTEGER / LONG; LEN gives 2 / 4 / 4 / 8; 16777217 is 16777216 in a SINGLE and \
                       overflows an INTEGER; a string store is rejected unless the type is STRING)"
                    .into(),
            });
        }
    }
}

// ------------------------------------------------------------------------------------------------
// behavioural oracles, no model, whole-text parse: (b) letter case of every kind of identifier
// ------------------------------------------------------------------------------------------------

/// one independent program fragment per kind of identifier: `{k}` is an occurrence of the fragment's k-th name
struct CTemplate {
    kind: &'static str,
    slots: usize,
    /// declarations before the main module's statements / statements / procedures after them
    sections: [&'static [&'static str]; 3],
    want: &'static [&'static str],
}

const CASE_TEMPLATES: [CTemplate; 12] = [
    CTemplate { kind: "variable", slots: 1, sections: [&[], &["{0} = 5", "{0} = {0} + 1", "PRINT {0}"], &[]], want: &[" 6"] },
    CTemplate {
        kind: "string-variable",
        slots: 1,
        sections: [&[], &["{0}$ = \"ab\"", "PRINT {0}$ + \"c\""], &[]],
        want: &["abc"],
    },
    CTemplate {
        kind: "array",
        slots: 1,
        sections: [&[], &["DIM {0}(1 TO 3)", "{0}(2) = 8", "PRINT {0}(2) + {0}(1)"], &[]],
        want: &[" 8"],
    },
    CTemplate {
        kind: "sub+parameter",
        slots: 2,
        sections: [&[], &["{0} 4"], &["SUB {0} ({1})", "  PRINT {1} * 2", "END SUB"]],
        want: &[" 8"],
    },
    CTemplate {
        kind: "function+parameter",
        slots: 2,
        sections: [&[], &["PRINT {0}(3)"], &["FUNCTION {0} ({1})", "  {0} = {1} + 1", "END FUNCTION"]],
        want: &[" 4"],
    },
    CTemplate {
        kind: "label",
        slots: 1,
        sections: [&[], &["GOTO {0}", "PRINT \"skipped\"", "{0}:", "PRINT \"at label\""], &[]],
        want: &["at label"],
    },
    CTemplate {
        kind: "gosub-label",
        slots: 2,
        sections: [&[], &["GOSUB {0}", "GOTO {1}", "{0}:", "PRINT \"in routine\"", "RETURN", "{1}:"], &[]],
        want: &["in routine"],
    },
    CTemplate {
        kind: "type+field",
        slots: 3,
        sections: [
            &["TYPE {0}", "  {1} AS INTEGER", "END TYPE"],
            &["DIM {2} AS {0}", "{2}.{1} = 9", "PRINT {2}.{1}"],
            &[],
        ],
        want: &[" 9"],
    },
    CTemplate { kind: "const", slots: 1, sections: [&[], &["CONST {0} = 41", "PRINT {0} + 1"], &[]], want: &[" 42"] },
    CTemplate {
        kind: "by-ref-parameter",
        slots: 3,
        sections: [&[], &["{0} = 1", "{1} {0}", "PRINT {0}"], &["SUB {1} ({2})", "  {2} = {2} + 10", "END SUB"]],
        want: &[" 11"],
    },
    CTemplate {
        kind: "shared-variable",
        slots: 2,
        sections: [&["DIM SHARED {0}"], &["{0} = 3", "{1}"], &["SUB {1}", "  PRINT {0}", "END SUB"]],
        want: &[" 3"],
    },
    CTemplate {
        kind: "as-type-variable",
        slots: 1,
        sections: [&[], &["DIM {0} AS LONG", "{0} = 70000", "PRINT {0}"], &[]],
        want: &[" 70000"],
    },
];

/// the slots of a template's occurrences, in text order within the fragment (sections in order)
fn c_occurrences(t: &CTemplate) -> Vec<usize> {
    let mut v = vec![];
    for sec in t.sections {
        for line in sec {
            let b = line.as_bytes();
            for i in 0..b.len().saturating_sub(2) {
                if b[i] == b'{' && b[i + 1].is_ascii_digit() && b[i + 2] == b'}' {
                    v.push((b[i + 1] - b'0') as usize);
                }
            }
        }
    }
    v
}

/// a fragment with its names (one spelling per slot) and one spelling per occurrence
#[derive(Clone)]
struct CFeat {
    t: usize,
    names: Vec<String>,
    spell: Vec<String>,
}

fn c_text(feats: &[CFeat], varied: bool) -> String {
    let mut occ = vec![0usize; feats.len()];
    let mut out = String::new();
    for sec in 0..3 {
        for (fi, f) in feats.iter().enumerate() {
            for line in CASE_TEMPLATES[f.t].sections[sec] {
                let b = line.as_bytes();
                let mut i = 0;
                while i < b.len() {
                    if i + 2 < b.len() && b[i] == b'{' && b[i + 1].is_ascii_digit() && b[i + 2] == b'}' {
                        let k = (b[i + 1] - b'0') as usize;
                        out.push_str(if varied { &f.spell[occ[fi]] } else { &f.names[k] });
                        occ[fi] += 1;
                        i += 3;
                    } else {
                        out.push(b[i] as char);
                        i += 1;
                    }
                }
                out.push('\n');
            }
        }
    }
    out
}

fn c_want(feats: &[CFeat]) -> String {
    feats.iter().flat_map(|f| CASE_TEMPLATES[f.t].want.iter().copied()).collect::<Vec<_>>().join("|")
}

/// the varied text gives something else than prescribed although the uniformly spelt text behaves
fn c_fails(feats: &[CFeat]) -> Option<String> {
    let want = c_want(feats);
    let got = observe(&c_text(feats, true));
    if got != want && observe(&c_text(feats, false)) == want { Some(got) } else { None }
}

/// fewer fragments, then fewer re-spelt occurrences, then fewer re-cased letters
fn c_shrink(mut feats: Vec<CFeat>, deep: bool) -> Vec<CFeat> {
    let mut budget = 600usize;
    let mut attempt = |cand: &[CFeat]| -> bool {
        if budget == 0 {
            return false;
        }
        budget -= 1;
        c_fails(cand).is_some()
    };
    let mut i = feats.len();
    while i > 0 && feats.len() > 1 {
        i -= 1;
        let mut cand = feats.clone();
        cand.remove(i);
        if attempt(&cand) {
            feats = cand;
        }
    }
    for fi in 0..if deep { feats.len() } else { 0 } {
        let occ = c_occurrences(&CASE_TEMPLATES[feats[fi].t]);
        for (j, k) in occ.iter().enumerate() {
            if feats[fi].spell[j] == feats[fi].names[*k] {
                continue;
            }
            let mut cand = feats.clone();
            cand[fi].spell[j] = feats[fi].names[*k].clone();
            if attempt(&cand) {
                feats = cand;
                continue;
            }
            for p in 0..feats[fi].spell[j].len() {
                let uniform = feats[fi].names[*k].as_bytes()[p];
                if feats[fi].spell[j].as_bytes()[p] != uniform {
                    let mut cand = feats.clone();
                    let mut b = cand[fi].spell[j].clone().into_bytes();
                    b[p] = uniform;
                    cand[fi].spell[j] = String::from_utf8(b).unwrap();
                    if attempt(&cand) {
                        feats = cand;
                    }
                }
            }
        }
    }
    feats
}

/// identifier number `g` of the covering run: length 8..40, letter (g + j) mod 26 at position j, so that over 26
/// consecutive numbers every letter stands at every position
fn c_diagonal_name(g: usize) -> String {
    let len = 8 + (g * 7) % 33;
    (0..len).map(|j| (b'a' + ((g + j) % 26) as u8) as char).collect()
}

/// 1..40 letters (digits too after the first); lengths 2..9 get a J somewhere (no reserved word has one)
fn c_random_name(rng: &mut Rng) -> String {
    let len = match rng.below(4) {
        0 => 1 + rng.below(7),
        1 => 8 + rng.below(2),
        2 => 10 + rng.below(15),
        _ => 25 + rng.below(16),
    } as usize;
    let digits = rng.chance(1, 3);
    let mut b: Vec<u8> = (0..len)
        .map(|j| {
            if j > 0 && digits && rng.chance(1, 6) {
                b'0' + rng.below(10) as u8
            } else {
                (if rng.chance(1, 2) { b'a' } else { b'A' }) + rng.below(26) as u8
            }
        })
        .collect();
    if (2..=9).contains(&len) {
        let p = rng.below(len as u64) as usize;
        b[p] = if rng.chance(1, 2) { b'j' } else { b'J' };
    }
    String::from_utf8(b).unwrap()
}

fn swap_case(s: &str) -> String {
    s.chars().map(|c| if c.is_ascii_lowercase() { c.to_ascii_uppercase() } else { c.to_ascii_lowercase() }).collect()
}

fn case_family(rep: &mut Report, rng: &mut Rng, n_covering: usize, n_random: usize) {
    let mut g = 0usize;
    let mut cover = [[false; 8]; 26];
    let mut shrunk = 0usize;
    for i in 0..n_covering + n_random {
        let covering = i < n_covering;
        g += 1;
        // the fragments: each kind with probability 1/2, in random order (the covering run rotates through them)
        let mut ts: Vec<usize> = (0..CASE_TEMPLATES.len()).filter(|_| rng.chance(1, 2)).collect();
        if covering {
            ts = (0..4).map(|j| (i * 4 + j) % CASE_TEMPLATES.len()).collect();
        }
        if ts.is_empty() {
            ts.push(rng.below(CASE_TEMPLATES.len() as u64) as usize);
        }
        shuffle(rng, &mut ts);
        let mut taken: std::collections::HashSet<String> = Default::default();
        let mut feats: Vec<CFeat> = vec![];
        for t in ts {
            let tpl = &CASE_TEMPLATES[t];
            let mut names = vec![];
            for slot in 0..tpl.slots {
                // `record.field` is one token for the parser's 40-character limit
                let cap = if tpl.kind == "type+field" && slot > 0 { 19 } else { 40 };
                loop {
                    let mut cand = if covering {
                        g += 1;
                        recase(rng, &c_diagonal_name(g - 1))
                    } else {
                        c_random_name(rng)
                    };
                    cand.truncate(cap);
                    if taken.insert(cand.to_ascii_uppercase()) {
                        names.push(cand);
                        break;
                    }
                }
            }
            // spellings: the first occurrence of a name as it is, the second with every letter in the other case,
            // the others all upper / all lower / random per letter / unchanged
            let mut seen = vec![0usize; tpl.slots];
            let spell: Vec<String> = c_occurrences(tpl)
                .iter()
                .map(|k| {
                    seen[*k] += 1;
                    match seen[*k] {
                        1 => names[*k].clone(),
                        2 if covering || rng.chance(1, 3) => swap_case(&names[*k]),
                        _ => recase(rng, &names[*k]),
                    }
                })
                .collect();
            for (j, k) in c_occurrences(tpl).iter().enumerate() {
                for (p, (a, b)) in names[*k].bytes().zip(spell[j].bytes()).enumerate() {
                    if a != b && a.is_ascii_alphabetic() {
                        cover[(a.to_ascii_lowercase() - b'a') as usize][p % 8] = true;
                    }
                }
                rep.bump(&format!("case.identifier-length.{}", match names[*k].len() { 1..=7 => "1-7", 8..=15 => "8-15", 16..=23 => "16-23", _ => "24-40" }));
            }
            rep.bump(&format!("case.kind.{}", tpl.kind));
            feats.push(CFeat { t, names, spell });
        }
        let uniform = c_text(&feats, false);
        let varied = c_text(&feats, true);
        rep.case(Some(format!("case:{}", varied)));
        let want = c_want(&feats);
        let got_uniform = observe(&uniform);
        let got_varied = observe(&varied);
        if i == 3 {
            rep.sample(J::s(format!("{} => {}", varied.replace('\n', " : "), got_varied)));
        }
        if got_uniform != want {
            rep.fail(Failure {
                kind: Kind::ImplVsProperty,
                signature: "case:uniformly-spelt-script".into(),
                input: uniform.clone(),
                implementation: got_uniform.clone(),
                expected: want.clone(),
                note: "every name spelt the same way at all its occurrences: the fragments print their fixed lines".into(),
            });
        }
        if got_varied != want && got_uniform == want {
            // the first failures are shrunk down to single letters, the next ones to as few fragments as possible
            let (small, got) = if shrunk < 40 {
                shrunk += 1;
                let small = c_shrink(feats.clone(), shrunk <= 4);
                match c_fails(&small) {
                    Some(g) => (small, g),
                    None => (feats.clone(), got_varied.clone()),
                }
            } else {
                (feats.clone(), got_varied.clone())
            };
            let kinds: Vec<&str> = small.iter().map(|f| CASE_TEMPLATES[f.t].kind).collect();
            rep.fail(Failure {
                kind: Kind::ImplVsProperty,
                signature: format!("rule:case-insensitive-names:{}", if shrunk < 40 { kinds.join(",") } else { "not-shrunk".into() }),
                input: c_text(&small, true),
                implementation: got,
                expected: format!("{} (as printed by the uniformly spelt text: {})", c_want(&small), c_text(&small, false).replace('\n', " : ")),
                note: "identifiers differing only in letter case are the same name: re-casing the occurrences of the \
                       names must not change what the program does"
                    .into(),
            });
        }
    }
    let cells = cover.iter().flatten().filter(|x| **x).count();
    rep.notes.push(format!(
        "letter case: {} scripts ({} of the covering run with names of 8..40 letters); {} of the 26 x 8 (letter, position mod 8) \
         cells had an occurrence differing in case from another occurrence of the same name",
        n_covering + n_random, n_covering, cells
    ));
    if cells < 26 * 8 {
        rep.fail(Failure {
            kind: Kind::ModelVsImpl,
            signature: "harness:case-coverage".into(),
            input: format!("{} of 208 cells", cells),
            implementation: String::new(),
            expected: "208".into(),
            note: "the covering run of the letter-case family did not put every letter at every position mod 8".into(),
        });
    }
}

// ------------------------------------------------------------------------------------------------

fn main() {
    if std::env::var("VERIF_DEBUG").is_err() {
        std::panic::set_hook(Box::new(|_| {}));
    }
    let mut rng = Rng::from_env();
    let mut rep = Report::new(
        "C13",
        "scripts (DEFtype + DIM/CONST/assign/PRINT of bare, suffixed and AS-type spellings of one base name in main \
         module and SUB/FUNCTION bodies with parameters) rendered as BASIC text: class = program text (every script is \
         non-trivial: it contains at least one declaration or use); DEFtype tables: class = statement sequence; \
         case-insensitive equality: class = byte pair; letter index: class = byte; rule oracles: class = program text; \
         default type at a position (0-3 DEFtype statements anywhere among main-module statements and SUBs, stores / \
         PRINT / PRINT LEN / DIM of bare and suffixed spellings): class = program text; letter case (fragments for every \
         kind of identifier, names of 1..40 characters, occurrences re-cased): class = program text",
    );
    let thorough = rep.is_thorough();
    let mut asm = Assembler::default();
    let t0 = std::time::Instant::now();
    let lap = |what: &str, asm: &Assembler| {
        eprintln!("[c13] {:>7.1}s  {} (parser calls so far: {})", t0.elapsed().as_secs_f64(), what, asm.parses);
    };

    // ---- 1. char_to_alphabet_index / DEFtype tables --------------------------------------------
    {
        // letter index of every ASCII byte, observed through TypeResolverImpl (panic = not a letter)
        let reqs: Vec<String> = (0u32..128).map(|b| format!("(names.idx {})", b)).collect();
        let answers = ask(&reqs);
        let single_tables: Vec<Option<TypeResolverImpl>> =
            (b'A'..=b'Z').map(|l| def_table_real(&mut asm, &format!("DEFINT {}\n", l as char))).collect();
        for b in 0u32..128 {
            rep.case(Some(format!("idx{}", b)));
            let c = char::from_u32(b).unwrap();
            // observe the index: set DEFINT on exactly that letter's upper-case partner and look at the table
            let real = std::panic::catch_unwind(|| {
                let r = TypeResolverImpl::new();
                r.char_to_qualifier(c)
            });
            let real_s = match real {
                Ok(_) => {
                    // which index? probe with 26 single-letter tables
                    let mut found = "none".to_owned();
                    for (i, t) in single_tables.iter().enumerate() {
                        if let Some(r) = t {
                            if r.char_to_qualifier(c) == TypeQualifier::PercentInteger {
                                found = i.to_string();
                            }
                        }
                    }
                    found
                }
                Err(_) => "panic".to_owned(),
            };
            if real_s != answers[b as usize] {
                rep.fail(Failure {
                    kind: Kind::ModelVsImpl,
                    signature: "model:charToAlphabetIndex".into(),
                    input: reqs[b as usize].clone(),
                    implementation: real_s.clone(),
                    expected: answers[b as usize].clone(),
                    note: "letter index of a byte".into(),
                });
            }
            let want = if c.is_ascii_alphabetic() {
                ((c.to_ascii_uppercase() as u8) - b'A').to_string()
            } else {
                "panic".to_owned()
            };
            if real_s != want {
                rep.fail(Failure {
                    kind: Kind::ImplVsProperty,
                    signature: "char_to_alphabet_index".into(),
                    input: format!("char_to_alphabet_index({:?})", c),
                    implementation: real_s,
                    expected: want,
                    note: "a letter and its other case have the same index 0..25".into(),
                });
            }
        }
        rep.exhaustive_parts.push("letter index of all 128 ASCII bytes".into());

        // DEFtype statement sequences: all 26 x 5 single letters, all 26*27/2 ranges for one type, random sequences
        let mut seqs: Vec<Vec<(Q, Vec<(u8, u8)>)>> = vec![];
        for q in ALLQ {
            for l in b'A'..=b'Z' {
                let lc = l.to_ascii_lowercase();
                seqs.push(vec![(q, vec![match l % 4 { 0 => (l, l), 1 => (l, lc), 2 => (lc, l), _ => (lc, lc) }])]);
            }
        }
        for lo in b'A'..=b'Z' {
            for hi in lo..=b'Z' {
                let r = match (lo as usize + 2 * hi as usize) % 4 {
                    0 => (lo, hi),
                    1 => (lo, hi.to_ascii_lowercase()),
                    2 => (lo.to_ascii_lowercase(), hi),
                    _ => (lo.to_ascii_lowercase(), hi.to_ascii_lowercase()),
                };
                seqs.push(vec![(ALLQ[((lo + hi) % 5) as usize], vec![r])]);
            }
        }
        let n_rand = if thorough { 3000 } else { 150 };
        for _ in 0..n_rand {
            let n = 1 + rng.below(4) as usize;
            let mut seq = vec![];
            for _ in 0..n {
                let nr = 1 + rng.below(3) as usize;
                let mut rs = vec![];
                for _ in 0..nr {
                    let lo = b'A' + rng.below(26) as u8;
                    let hi = lo + rng.below((b'Z' - lo + 1) as u64) as u8;
                    let (lo, hi) = match rng.below(4) {
                        0 => (lo.to_ascii_lowercase(), hi.to_ascii_lowercase()),
                        1 => (lo, hi.to_ascii_lowercase()),
                        2 => (lo.to_ascii_lowercase(), hi),
                        _ => (lo, hi),
                    };
                    rs.push((lo, hi));
                }
                seq.push((*rng.pick(&ALLQ), rs));
            }
            seqs.push(seq);
        }
        let reqs: Vec<String> = seqs
            .iter()
            .map(|seq| {
                format!(
                    "(names.def {})",
                    rb_harness::sx::list(seq.iter().map(|(q, rs)| format!(
                        "({} {})",
                        q.sfx(),
                        rb_harness::sx::list(rs.iter().map(|(a, b)| format!("({} {})", a, b)))
                    )))
                )
            })
            .collect();
        let answers = ask(&reqs);
        for (i, seq) in seqs.iter().enumerate() {
            let items: Vec<Item> = seq.iter().map(|(q, rs)| Item::Def(*q, rs.clone())).collect();
            let text = bas_script(&items);
            rep.case(Some(format!("def:{}", text)));
            rep.bump("deftype.sequences");
            let real = match def_table_real(&mut asm, &text) {
                Some(r) => {
                    let mut both_cases_agree = true;
                    let qs: Vec<&str> = (b'A'..=b'Z')
                        .map(|l| {
                            let u = r.char_to_qualifier(l as char);
                            if r.char_to_qualifier(l.to_ascii_lowercase() as char) != u {
                                both_cases_agree = false;
                            }
                            Q::from_real(u).sfx()
                        })
                        .collect();
                    if both_cases_agree { format!("({})", qs.join(" ")) } else { "case-dependent".to_owned() }
                }
                None => "parse-failed".to_owned(),
            };
            // property: letter l has the type of the last statement whose range covers it, SINGLE otherwise
            let mut spec = vec![Q::Sng; 26];
            for (q, rs) in seq {
                for (a, b) in rs {
                    for x in (a.to_ascii_uppercase() - b'A')..=(b.to_ascii_uppercase() - b'A') {
                        spec[x as usize] = *q;
                    }
                }
            }
            let spec_s = format!("({})", spec.iter().map(|q| q.sfx()).collect::<Vec<_>>().join(" "));
            if real != spec_s {
                rep.fail(Failure {
                    kind: Kind::ImplVsProperty,
                    signature: "deftype-table".into(),
                    input: text.clone(),
                    implementation: real.clone(),
                    expected: spec_s,
                    note: "default type per letter = last covering DEFtype statement, SINGLE if none".into(),
                });
            }
            if real != answers[i] {
                rep.fail(Failure {
                    kind: Kind::ModelVsImpl,
                    signature: "model:deftype-table".into(),
                    input: reqs[i].clone(),
                    implementation: real,
                    expected: answers[i].clone(),
                    note: "RbModel.Names.setDefType".into(),
                });
            }
        }
        rep.exhaustive_parts
            .push("DEFtype: all 26 x 5 single-letter statements (mixed case), all 351 letter ranges".into());
        rep.sample(J::s(format!("{} -> {}", reqs[3], answers[3])));
    }

    {
        // which letter ranges the parser accepts: model `rangeAccepted` vs the real parser, all case combinations
        let letters: Vec<u8> = if thorough {
            (b'A'..=b'Z').chain(b'a'..=b'z').collect()
        } else {
            vec![b'A', b'a', b'B', b'b', b'M', b'm', b'Y', b'y', b'Z', b'z']
        };
        let mut pairs: Vec<(u8, u8)> = vec![];
        for &a in &letters {
            for &b in &letters {
                pairs.push((a, b));
            }
        }
        if !thorough {
            for _ in 0..150 {
                let a = b'A' + rng.below(26) as u8 + if rng.chance(1, 2) { 32 } else { 0 };
                let b = b'A' + rng.below(26) as u8 + if rng.chance(1, 2) { 32 } else { 0 };
                pairs.push((a, b));
            }
        }
        let reqs: Vec<String> = pairs.iter().map(|(a, b)| format!("(names.rangeok {} {})", a, b)).collect();
        let answers = ask(&reqs);
        for (i, (a, b)) in pairs.iter().enumerate() {
            rep.case(Some(format!("range:{}-{}", *a as char, *b as char)));
            rep.bump("deftype.range-acceptance");
            let text = format!("DEFINT {}-{}\n", *a as char, *b as char);
            let real = match asm.piece(&text) {
                Ok(_) => "t".to_owned(),
                Err(e) if e.contains("Invalid letter range") => "f".to_owned(),
                Err(e) => e,
            };
            let spec = if a.to_ascii_uppercase() <= b.to_ascii_uppercase() { "t" } else { "f" };
            if real != spec {
                rep.fail(Failure {
                    kind: Kind::ImplVsProperty,
                    signature: "deftype-range:letter-case".into(),
                    input: text.clone(),
                    implementation: real.clone(),
                    expected: spec.into(),
                    note: "a DEFtype range a-b is accepted iff a <= b as letters, whatever their case".into(),
                });
            }
            if real != answers[i] {
                rep.fail(Failure {
                    kind: Kind::ModelVsImpl,
                    signature: "model:rangeAccepted".into(),
                    input: reqs[i].clone(),
                    implementation: real,
                    expected: answers[i].clone(),
                    note: "RbModel.Names.rangeAccepted vs the parser".into(),
                });
            }
        }
        rep.exhaustive_parts.push(format!(
            "DEFtype range acceptance: all {} ordered pairs over {} letters (both cases)",
            letters.len() * letters.len(),
            letters.len()
        ));
    }
    lap("deftype done", &asm);
    // ---- 2. case-insensitive equality ----------------------------------------------------------
    {
        let alphabet: Vec<u8> = vec![b'A', b'a', b'B', b'b', b'Z', b'z', b'0', b'.', b'@', b'[', b'`', b'{'];
        let mut pairs: Vec<(Vec<u8>, Vec<u8>)> = vec![];
        let mut words: Vec<Vec<u8>> = vec![vec![]];
        for &x in &alphabet {
            words.push(vec![x]);
            for &y in &alphabet {
                words.push(vec![x, y]);
            }
        }
        for a in &words {
            for b in &words {
                pairs.push((a.clone(), b.clone()));
            }
        }
        let n_rand = if thorough { 200_000 } else { 20_000 };
        for _ in 0..n_rand {
            let n = 1 + rng.below(6) as usize;
            let a: Vec<u8> = (0..n).map(|_| 32 + rng.below(95) as u8).collect();
            let b: Vec<u8> = if rng.chance(2, 3) {
                a.iter()
                    .map(|c| if rng.chance(1, 2) { c.to_ascii_lowercase() } else { c.to_ascii_uppercase() })
                    .collect()
            } else {
                let mut b = a.clone();
                let i = rng.below(n as u64) as usize;
                b[i] = 32 + rng.below(95) as u8;
                b
            };
            pairs.push((a, b));
        }
        let reqs: Vec<String> = pairs
            .iter()
            .map(|(a, b)| format!("(names.ci {} {})", rb_harness::sx::bytes(a), rb_harness::sx::bytes(b)))
            .collect();
        let answers = ask(&reqs);
        for (i, (a, b)) in pairs.iter().enumerate() {
            rep.case(if a.is_empty() && b.is_empty() { None } else { Some(format!("ci:{:?}:{:?}", a, b)) });
            let sa = CaseInsensitiveString::new(String::from_utf8(a.clone()).unwrap());
            let sb = CaseInsensitiveString::new(String::from_utf8(b.clone()).unwrap());
            let real = sa == sb;
            let spec = a.to_ascii_uppercase() == b.to_ascii_uppercase();
            rep.bump(if real { "ci.equal" } else { "ci.different" });
            if real != spec {
                rep.fail(Failure {
                    kind: Kind::ImplVsProperty,
                    signature: "case-insensitive-eq".into(),
                    input: format!("{:?} == {:?}", a, b),
                    implementation: real.to_string(),
                    expected: spec.to_string(),
                    note: "identifiers differing only in letter case are the same name".into(),
                });
            }
            if (if real { "t" } else { "f" }) != answers[i] {
                rep.fail(Failure {
                    kind: Kind::ModelVsImpl,
                    signature: "model:ciEq".into(),
                    input: reqs[i].clone(),
                    implementation: real.to_string(),
                    expected: answers[i].clone(),
                    note: "RbModel.Names.ciEq".into(),
                });
            }
        }
        rep.exhaustive_parts.push(format!(
            "case-insensitive equality over all pairs of the {} words of length <= 2 over a 12-byte alphabet",
            words.len()
        ));
    }

    {
        // names of up to 40 characters (the parser's limit): equality and hash of the real CaseInsensitiveString
        // against plain upper-casing; every letter gets re-cased at every position
        use std::hash::{Hash, Hasher};
        let hash_of = |s: &CaseInsensitiveString| {
            let mut h = std::collections::hash_map::DefaultHasher::new();
            s.hash(&mut h);
            h.finish()
        };
        // a generator of its own (derived from the seed): the streams of the model comparisons stay what they were
        let mut rng = Rng(rng.seed() ^ 0xC13_0001);
        let n_rand = if thorough { 400_000 } else { 40_000 };
        for i in 0..n_rand {
            let n = 1 + rng.below(40) as usize;
            let a: Vec<u8> = (0..n)
                .map(|j| {
                    if j > 0 && rng.chance(1, 10) {
                        b'0' + rng.below(10) as u8
                    } else {
                        // the covering part: letter (i + j) mod 26 at position j
                        let l = if i < 52 { ((i + j) % 26) as u8 } else { rng.below(26) as u8 };
                        (if rng.chance(1, 2) { b'a' } else { b'A' }) + l
                    }
                })
                .collect();
            let b: Vec<u8> = match rng.below(4) {
                0 => a.iter().map(|c| if c.is_ascii_lowercase() { c.to_ascii_uppercase() } else { c.to_ascii_lowercase() }).collect(),
                1 | 2 => {
                    let mut b = a.clone();
                    for _ in 0..1 + rng.below(3) {
                        let p = rng.below(n as u64) as usize;
                        b[p] = if b[p].is_ascii_lowercase() { b[p].to_ascii_uppercase() } else { b[p].to_ascii_lowercase() };
                    }
                    b
                }
                _ => {
                    let mut b = a.clone();
                    let p = rng.below(n as u64) as usize;
                    b[p] = b'A' + (b[p].to_ascii_uppercase().wrapping_sub(b'A').wrapping_add(1 + rng.below(25) as u8)) % 26;
                    b
                }
            };
            rep.case(Some(format!("ci-long:{:?}:{:?}", a, b)));
            rep.bump(if n < 8 { "ci-long.length.1-7" } else if n < 16 { "ci-long.length.8-15" } else { "ci-long.length.16-40" });
            let sa = CaseInsensitiveString::new(String::from_utf8(a.clone()).unwrap());
            // a failing pair is reduced to one differing position when that still fails
            let bad = |a: &[u8], b: &[u8]| {
                let x = CaseInsensitiveString::new(String::from_utf8_lossy(a).into_owned());
                let y = CaseInsensitiveString::new(String::from_utf8_lossy(b).into_owned());
                let spec = a.to_ascii_uppercase() == b.to_ascii_uppercase();
                (x == y) != spec || (spec && hash_of(&x) != hash_of(&y))
            };
            let mut b = b;
            if bad(&a, &b) {
                for p in 0..n {
                    let mut c = a.clone();
                    c[p] = b[p];
                    if c != a && bad(&a, &c) {
                        b = c;
                        break;
                    }
                }
            }
            let sb = CaseInsensitiveString::new(String::from_utf8(b.clone()).unwrap());
            let spec = a.to_ascii_uppercase() == b.to_ascii_uppercase();
            let real = sa == sb;
            let input = format!("{:?} == {:?}", String::from_utf8_lossy(&a), String::from_utf8_lossy(&b));
            if real != spec {
                rep.fail(Failure {
                    kind: Kind::ImplVsProperty,
                    signature: "case-insensitive-eq:long-names".into(),
                    input: input.clone(),
                    implementation: real.to_string(),
                    expected: spec.to_string(),
                    note: "identifiers differing only in letter case are the same name (names of 1..40 characters)".into(),
                });
            }
            if spec && hash_of(&sa) != hash_of(&sb) {
                rep.fail(Failure {
                    kind: Kind::ImplVsProperty,
                    signature: "case-insensitive-hash:long-names".into(),
                    input,
                    implementation: "different hashes".into(),
                    expected: "equal hashes".into(),
                    note: "names that are the same up to letter case must hash alike (the name tables are hash maps)".into(),
                });
            }
        }
    }

    lap("ciEq done", &asm);
    // ---- 3. rule oracles on the real code --------------------------------------------------------
    property_oracles(&mut rep);

    lap("oracles done", &asm);
    // ---- 3b. behavioural oracles: default type at a position, letter case (whole-text parse, no model) -------
    {
        let mut sub = Rng(rng.seed() ^ 0xC13_0002);
        deftype_position_family(&mut rep, &mut sub, if thorough { 20_000 } else { 900 });
        lap("default type at a position done", &asm);
        case_family(&mut rep, &mut sub, if thorough { 520 } else { 78 }, if thorough { 6000 } else { 270 });
        lap("letter case done", &asm);
    }
    // ---- 4. scripts: exhaustive families ---------------------------------------------------------
    let mut total_scripts = 0usize;
    {
        // every DEFtype x every single declaration/use atom (all five qualifiers), in main module and in a SUB
        let all_atoms = atoms("A", &ALLQ, true);
        let mut scripts = vec![];
        for def in std::iter::once(None).chain(ALLQ.iter().map(|q| Some((*q, b'A', b'C')))) {
            for a in &all_atoms {
                scripts.push(assemble(def, "A", &[a.clone()], None, &[], &[Stmt::Print(nr("a", None))]));
                for kind in 0..SUBPROGRAM_KINDS {
                    scripts.push(assemble(def, "A", &[], Some(kind), &[a.clone()], &[]));
                    scripts.push(assemble(def, "A", &[a.clone()], Some(kind), &[Stmt::Print(nr("A", None))], &[]));
                }
            }
        }
        total_scripts += scripts.len();
        check_batch(&mut rep, &mut asm, &scripts, "single-atom", 1, if thorough { 10 } else { 25 });
        rep.exhaustive_parts.push(format!(
            "{} scripts: (no DEFtype | 5 DEFtypes) x {} atoms (all five qualifiers) x (main | 9 subprogram shapes, atom inside / before)",
            scripts.len(),
            all_atoms.len()
        ));
    }
    {
        // all sequences of <= K atoms over the reduced qualifier set, all placements, subprogram shapes
        let qs = [Q::Int, Q::Str];
        let small = atoms("A", &qs, false);
        let kmax = if thorough { 4 } else { 2 };
        let kinds_full: Vec<Option<usize>> = std::iter::once(None).chain((0..SUBPROGRAM_KINDS).map(Some)).collect();
        let kinds_k3: Vec<Option<usize>> = vec![None, Some(0), Some(1), Some(4)];
        let kinds_k4: Vec<Option<usize>> = vec![None, Some(0), Some(1), Some(4)];
        for k in 1..=kmax {
            let kinds = if k <= 2 { &kinds_full } else if k == 3 { &kinds_k3 } else { &kinds_k4 };
            let run_every = if k <= 2 { 1 } else if k == 3 { 3 } else { 16 };
            let mut scripts: Vec<Vec<Item>> = vec![];
            let mut count = 0usize;
            let cross = if thorough { 400 } else { 60 };
            let flush = |scripts: &mut Vec<Vec<Item>>, rep: &mut Report, asm: &mut Assembler, force: bool| {
                if scripts.len() >= 20000 || (force && !scripts.is_empty()) {
                    check_batch(rep, asm, scripts, &format!("seq{}", k), run_every, cross);
                    scripts.clear();
                }
            };
            let mut seqs: Vec<Vec<Stmt>> = vec![];
            enumerate_sequences(&small, k, &mut |seq| seqs.push(seq.to_vec()));
            for seq in &seqs {
                for kind in kinds {
                    for (i, j) in placements(k, kind.is_some()) {
                        scripts.push(assemble(None, "A", &seq[..i], *kind, &seq[i..j], &seq[j..]));
                        count += 1;
                    }
                }
                flush(&mut scripts, &mut rep, &mut asm, false);
            }
            flush(&mut scripts, &mut rep, &mut asm, true);
            total_scripts += count;
            rep.exhaustive_parts.push(format!(
                "{} scripts: all sequences of {} of the {} atoms over base name A (qualifiers %, $ + bare; DIM [SHARED] bare/compact/extended, CONST, assign, PRINT) x all placements before/inside/after x {} subprogram shapes",
                count,
                k,
                small.len(),
                kinds.len()
            ));
        }
    }

    {
        // directed shadowing triples (after a wave-7 seed: a local CONST looked up before a SHARED variable of the
        // same base name): a global declaration, then inside a subprogram a local declaration and a use (both
        // orders), then the use again in the main module
        let qs = [Q::Int, Q::Str];
        let small = atoms("A", &qs, false);
        let decls: Vec<Stmt> = small.iter().filter(|a| matches!(a, Stmt::Dim(..) | Stmt::Const(..))).cloned().collect();
        let uses: Vec<Stmt> = small.iter().filter(|a| matches!(a, Stmt::Assign(..) | Stmt::Print(..))).cloned().collect();
        let mut scripts: Vec<Vec<Item>> = vec![];
        for g in &decls {
            for l in &decls {
                for u in &uses {
                    for kind in [0usize, 1, 4] {
                        scripts.push(assemble(None, "A", &[g.clone()], Some(kind), &[l.clone(), u.clone()], &[u.clone()]));
                        scripts.push(assemble(None, "A", &[g.clone()], Some(kind), &[u.clone(), l.clone(), u.clone()], &[]));
                    }
                }
            }
        }
        let count = scripts.len();
        check_batch(&mut rep, &mut asm, &scripts, "shadow3", 1, if thorough { 400 } else { 60 });
        total_scripts += count;
        rep.exhaustive_parts.push(format!(
            "{} scripts: every global declaration atom x every local declaration atom x every use atom (base name A, qualifiers %, $ + bare), declaration and use inside 3 subprogram shapes in both orders, use repeated in the main module",
            count
        ));
    }

    lap("exhaustive families done", &asm);
    // ---- 5. scripts: random (all five qualifiers, DEFtype anywhere, several subprograms, mixed case) --
    {
        let n = if thorough { 400_000 } else { 16_000 };
        let mut done = 0;
        while done < n {
            let m = std::cmp::min(20000, n - done);
            let scripts: Vec<Vec<Item>> = (0..m).map(|_| random_script(&mut rng)).collect();
            check_batch(&mut rep, &mut asm, &scripts, "random", 1, if thorough { 400 } else { 60 });
            done += m;
        }
        total_scripts += n;
        // random atom sequences with DEFtype and all qualifiers (longer than the exhaustive bound)
        let all_atoms = atoms("Ab", &ALLQ, true);
        let n2 = if thorough { 300_000 } else { 16_000 };
        let mut scripts = vec![];
        for _ in 0..n2 {
            let k = 2 + rng.below(5) as usize;
            let seq: Vec<Stmt> = (0..k)
                .map(|_| {
                    let mut st = rng.pick(&all_atoms).clone();
                    // vary the case of the identifier
                    let recase = |s: &mut String, rng: &mut Rng| {
                        *s = s.chars().map(|c| if rng.chance(1, 2) { c.to_ascii_lowercase() } else { c.to_ascii_uppercase() }).collect()
                    };
                    match &mut st {
                        Stmt::Dim(_, n, _) => recase(n, &mut rng),
                        Stmt::Const(n, _) | Stmt::Assign(n, _, _) | Stmt::Print(n) => recase(&mut n.name, &mut rng),
                        _ => {}
                    }
                    st
                })
                .collect();
            let kind = if rng.chance(1, 5) { None } else { Some(rng.below(SUBPROGRAM_KINDS as u64) as usize) };
            let pl = placements(k, kind.is_some());
            let (i, j) = *rng.pick(&pl);
            let def = if rng.chance(1, 2) {
                let hi = b'A' + rng.below(3) as u8;
                Some((*rng.pick(&ALLQ), b'A', hi))
            } else {
                None
            };
            scripts.push(assemble(def, "Ab", &seq[..i], kind, &seq[i..j], &seq[j..]));
            if scripts.len() >= 20000 {
                check_batch(&mut rep, &mut asm, &scripts, "random-seq", 1, if thorough { 400 } else { 60 });
                scripts.clear();
            }
        }
        if !scripts.is_empty() {
            check_batch(&mut rep, &mut asm, &scripts, "random-seq", 1, if thorough { 400 } else { 60 });
        }
        total_scripts += n2;
    }
    lap("random done", &asm);
    rep.notes.push(format!("{} scripts compared with the model in total; {} calls of the real parser on distinct lines/headers", total_scripts, asm.parses));
    let demo = assemble(
        Some((Q::Int, b'A', b'C')),
        "A",
        &[Stmt::Dim(true, "A".into(), Decl::Compact(Q::Str)), Stmt::Assign(nr("A", None), false, 0)],
        Some(0),
        &[Stmt::Assign(nr("a", Some(Q::Str)), true, 0), Stmt::Print(nr("A", None))],
        &[Stmt::Print(nr("A", Some(Q::Str))), Stmt::Print(nr("A", Some(Q::Int)))],
    );
    rep.sample(J::s(format!("{} => {}", bas_script(&demo).replace('\n', " : "), ask(&[sx_script(&demo)])[0])));
    rep.finish();
}

fn def_table_real(asm: &mut Assembler, text: &str) -> Option<TypeResolverImpl> {
    let mut r = TypeResolverImpl::new();
    for line in text.lines() {
        match asm.piece(&format!("{}\n", line)) {
            Ok(g) => {
                if let GlobalStatement::DefType(d) = &g.element {
                    r.set(d);
                } else {
                    return None;
                }
            }
            Err(_) => return None,
        }
    }
    Some(r)
}
